//! C04 — every read path of the store agrees with the set of quads written.
//! E-seq: explicit-state search over operation sequences on the real DatasetIndex /
//! SparqlDatabase, complete observation table against a set model in every state.
use crate::infra::{hash64, Ctx, PropDef, ShardOut};
use kolibrie::sparql_database::SparqlDatabase;
use serde_json::{json, Value};
use shared::dataset_index::{DatasetIndex, GraphId, Quad};
use shared::terms::Term;
use shared::triple::Triple;
use std::collections::{BTreeSet, HashSet, VecDeque};

pub const DEF: PropDef = PropDef {
    id: "C04",
    level: "model_checking",
    rule: "states = physical fingerprints (hook H3) of the real DatasetIndex reached by op sequences in four term universes: U0 (s,o in {1,2}, p=1), U1 (s=1, p in {1,5}, o in {1,2}), U2 (s in {1,2}, p in {1,5}, o=1) - 12 quads each over g in {Default,N7,N8}, so that every level of every nested index (gspo, gpos, gosp, spog) holds two keys in two of them - and U3 = the full 2x2x2 term cube over the same graphs (24 quads: all levels of all indexes hold two keys at once). Core ops: insert_quad / delete_quad per quad, graph create/clear/drop, clear, rebuild (build_all_indexes). Facade ops (BFS alphabet of U0-U2), each on EVERY triple of the universe: add_triple, delete_triple, DatasetIndex::insert / delete, add_quad / delete_quad (one named graph per triple, plus the default graph once) and the string facades add_triple_parts, delete_triple_parts, add_quad_parts (terms pre-encoded so that id k is the text t<k>). Part 1: undeduplicated tree over the core ops from the empty store, depth 3 (thorough: 4 for U0-U2), every op sequence executed on the real object; at every node the physical fingerprint is taken and the complete observation table is read unless this worker has already read it for the same (fingerprint, model) pair; a known fingerprint with a different expected model is a failure. Part 2: BFS to closure with de-duplication on the physical fingerprint (U0-U2: 4 624 states x 73 ops each; thorough also U3 over {Default,N7}: 65 792 states x 40 core ops); a transition landing on a known fingerprint is compared with the model that fingerprint was validated against. Observation table: all lookup shapes (s?,p?,o?) x graphs through query_graph / query_quads / query_graph_quads and the default-graph aliases, query_named_graphs under 8 visible sets (None, empty, {N7}, {N8}, {N7,N8}, {Default,N8,N9}, {Default}, {N9}), query_merged_graphs over every source list of length <= 2, one with an absent graph and two of length 3 ([Default,N7,N8], [N7,N8,N7]), contains_quad, graphs_for_triple, all_quads, graphs / named_graphs / graph_exists, len_graph, QueryBuilder - compared with a BTreeSet model; non-trivial = state with >=2 quads in >=2 graphs or an empty named graph; distinct = distinct physical fingerprints",
    assumptions: &[
        "term universes: U0 (s,o in {1,2}, p=1), U1 (s=1, p in {1,5}, o in {1,2}), U2 (s in {1,2}, p in {1,5}, o=1), U3 (s,o in {1,2}, p in {1,5}); graphs Default,N7,N8 (+absent ids 3,N9 in lookups)",
        "reference model: BTreeSet of quads + BTreeSet catalog (harness/src/props/c04.rs)",
        "fingerprint de-duplication (BFS) and re-use of an observation for an identical (fingerprint, model) pair (tree) are sound because the H3 fingerprint dumps the complete private state (all five fields) and every read path is a function of it (results are compared sorted)",
        "the string facades are called with terms that are already in the dictionary (t0..t9 pre-encoded in id order), so they denote the same quads as the id-level operations; the legacy pre-catalog fallbacks (reachable only by deserialising an old index) are outside the quantifier and not generated",
    ],
    run,
    replay,
    cap_s: (50, 900),
    shards: 0,
};

const GRAPHS: [GraphId; 3] = [GraphId::Default, GraphId::Named(7), GraphId::Named(8)];
const NUNIV: usize = 4;

/// Term universes. U0 varies subject and object under one predicate, U1 predicate and object under one
/// subject, U2 subject and predicate under one object: 12 quads each, and every level of every nested
/// index (gspo, gpos, gosp, spog) sees two keys in two of the three. U3 is the full 2x2x2 cube (all
/// levels of all indexes hold two keys at the same time); its second op coordinate ranges over 1..=4
/// and encodes (predicate, object).
static UNIVERSE: std::sync::atomic::AtomicUsize = std::sync::atomic::AtomicUsize::new(0);

fn set_universe(u: usize) {
    UNIVERSE.store(u, std::sync::atomic::Ordering::SeqCst);
}
fn universe() -> usize {
    UNIVERSE.load(std::sync::atomic::Ordering::SeqCst)
}
/// range of the second op coordinate
fn bmax(u: usize) -> u32 {
    if u == 3 {
        4
    } else {
        2
    }
}
fn pred(k: u32) -> u32 {
    if k == 1 {
        1
    } else {
        5
    }
}

/// the triple denoted by the op coordinates (a, b)
fn spo(a: u32, b: u32) -> (u32, u32, u32) {
    match universe() {
        0 => (a, 1, b),
        1 => (1, pred(a), b),
        2 => (a, pred(b), 1),
        _ => (a, pred((b + 1) / 2), (b - 1) % 2 + 1),
    }
}

#[derive(Clone, Debug, PartialEq, Eq, Hash)]
pub enum Op {
    Insert(u32, u32, usize),
    Delete(u32, u32, usize),
    Create(usize),
    ClearGraph(usize),
    Drop(usize),
    Clear,
    Rebuild,
    // facade aliases on SparqlDatabase / DatasetIndex
    FacadeAddTriple(u32, u32),
    FacadeDeleteTriple(u32, u32),
    FacadeAddQuad(u32, u32, usize),
    FacadeDeleteQuad(u32, u32, usize),
    AliasInsert(u32, u32),
    AliasDelete(u32, u32),
    // string facades on SparqlDatabase (terms t<k> are pre-encoded to id k)
    PartsAddTriple(u32, u32),
    PartsDeleteTriple(u32, u32),
    PartsAddQuad(u32, u32, usize),
}

impl Op {
    fn is_facade(&self) -> bool {
        !matches!(self, Op::Insert(..) | Op::Delete(..) | Op::Create(_) | Op::ClearGraph(_) | Op::Drop(_) | Op::Clear | Op::Rebuild)
    }
    fn is_parts(&self) -> bool {
        matches!(self, Op::PartsAddTriple(..) | Op::PartsDeleteTriple(..) | Op::PartsAddQuad(..))
    }
    fn kind(&self) -> String {
        format!("{:?}", self).split('(').next().unwrap_or("").to_string()
    }
}

/// alphabet of universe `u` over the first `ngraphs` graphs of GRAPHS; `full` adds every facade on
/// every triple of the universe
pub fn alphabet(u: usize, full: bool, ngraphs: usize) -> Vec<Op> {
    let mut v = Vec::new();
    let bm = bmax(u);
    for g in 0..ngraphs {
        for a in 1..=2 {
            for b in 1..=bm {
                v.push(Op::Insert(a, b, g));
            }
        }
    }
    for g in 0..ngraphs {
        for a in 1..=2 {
            for b in 1..=bm {
                v.push(Op::Delete(a, b, g));
            }
        }
    }
    for g in 0..ngraphs {
        v.push(Op::Create(g));
    }
    for g in 0..ngraphs {
        v.push(Op::ClearGraph(g));
    }
    for g in 0..ngraphs {
        v.push(Op::Drop(g));
    }
    v.push(Op::Clear);
    v.push(Op::Rebuild);
    if full {
        let named = ngraphs - 1; // named graphs available: indexes 1..=named
        for a in 1..=2u32 {
            for b in 1..=bm {
                v.push(Op::FacadeAddTriple(a, b));
                v.push(Op::FacadeDeleteTriple(a, b));
                v.push(Op::AliasInsert(a, b));
                v.push(Op::AliasDelete(a, b));
                v.push(Op::PartsAddTriple(a, b));
                v.push(Op::PartsDeleteTriple(a, b));
                // the id-level quad facades on one named graph per triple, the string facade on the other
                let g1 = 1 + ((a + b) as usize) % named;
                let g2 = 1 + ((a + b + 1) as usize) % named;
                v.push(Op::FacadeAddQuad(a, b, g1));
                v.push(Op::FacadeDeleteQuad(a, b, g1));
                v.push(Op::PartsAddQuad(a, b, g2));
            }
        }
        v.push(Op::FacadeAddQuad(2, 1, 0));
        v.push(Op::FacadeDeleteQuad(2, 1, 0));
    }
    v
}

fn op_json(op: &Op) -> Value {
    json!(format!("{:?}", op))
}

fn parse_op(s: &str) -> Option<Op> {
    // the maximal alphabet of the current universe (set before parsing)
    let u = universe();
    alphabet(u, true, 3).into_iter().chain(alphabet(u, true, 2)).find(|o| format!("{:?}", o) == s)
}

#[derive(Clone, Default, PartialEq, Eq, Hash, Debug)]
pub struct Model {
    quads: BTreeSet<(u32, u32, u32, GraphId)>,
    catalog: BTreeSet<u32>,
}

fn gname(g: GraphId) -> Option<u32> {
    match g {
        GraphId::Default => None,
        GraphId::Named(n) => Some(n),
    }
}

impl Model {
    /// returns the value the mutator must return (None = unit)
    fn apply(&mut self, op: &Op) -> Option<bool> {
        match *op {
            Op::Insert(s, o, g) | Op::FacadeAddQuad(s, o, g) | Op::PartsAddQuad(s, o, g) => {
                let g = GRAPHS[g];
                if let Some(n) = gname(g) {
                    self.catalog.insert(n);
                }
                {
                    let t = spo(s, o);
                    Some(self.quads.insert((t.0, t.1, t.2, g)))
                }
            }
            Op::Delete(s, o, g) | Op::FacadeDeleteQuad(s, o, g) => {
                let t = spo(s, o);
                Some(self.quads.remove(&(t.0, t.1, t.2, GRAPHS[g])))
            }
            Op::Create(g) => match gname(GRAPHS[g]) {
                None => Some(false),
                Some(n) => Some(self.catalog.insert(n)),
            },
            Op::ClearGraph(g) => {
                let g = GRAPHS[g];
                self.quads.retain(|q| q.3 != g);
                None
            }
            Op::Drop(g) => {
                let g = GRAPHS[g];
                match gname(g) {
                    None => {
                        self.quads.retain(|q| q.3 != g);
                        Some(true)
                    }
                    Some(n) => {
                        let existed = self.catalog.remove(&n);
                        self.quads.retain(|q| q.3 != g);
                        Some(existed)
                    }
                }
            }
            Op::Clear => {
                self.quads.clear();
                self.catalog.clear();
                None
            }
            Op::Rebuild => None,
            Op::FacadeAddTriple(s, o) | Op::PartsAddTriple(s, o) => {
                let t = spo(s, o);
                self.quads.insert((t.0, t.1, t.2, GraphId::Default));
                None
            }
            Op::AliasInsert(s, o) => {
                let t = spo(s, o);
                Some(self.quads.insert((t.0, t.1, t.2, GraphId::Default)))
            }
            Op::FacadeDeleteTriple(s, o) | Op::AliasDelete(s, o) | Op::PartsDeleteTriple(s, o) => {
                let t = spo(s, o);
                Some(self.quads.remove(&(t.0, t.1, t.2, GraphId::Default)))
            }
        }
    }
}

fn fresh_db() -> SparqlDatabase {
    let db = SparqlDatabase::new();
    {
        let mut d = db.dictionary.write().unwrap();
        // ids are handed out in order: make id k decode to "t<k>" for k = 0..9
        for k in 0..10 {
            d.encode(&format!("t{}", k));
        }
    }
    db
}

/// the text fresh_db() gave identifier k
fn tname(k: u32) -> String {
    format!("t{}", k)
}

fn apply_real(db: &mut SparqlDatabase, op: &Op) -> Option<bool> {
    let q = |s: u32, o: u32, g: usize| {
        let t = spo(s, o);
        Quad { subject: t.0, predicate: t.1, object: t.2, graph: GRAPHS[g] }
    };
    let tr = |s: u32, o: u32| {
        let t = spo(s, o);
        Triple { subject: t.0, predicate: t.1, object: t.2 }
    };
    match *op {
        Op::Insert(s, o, g) => Some(db.dataset_index.insert_quad(&q(s, o, g))),
        Op::Delete(s, o, g) => Some(db.dataset_index.delete_quad(&q(s, o, g))),
        Op::Create(g) => Some(db.dataset_index.create_graph(GRAPHS[g])),
        Op::ClearGraph(g) => {
            db.dataset_index.clear_graph(GRAPHS[g]);
            None
        }
        Op::Drop(g) => Some(db.dataset_index.drop_graph(GRAPHS[g])),
        Op::Clear => {
            db.dataset_index.clear();
            None
        }
        Op::Rebuild => {
            db.build_all_indexes();
            None
        }
        Op::FacadeAddTriple(s, o) => {
            db.add_triple(tr(s, o));
            None
        }
        Op::FacadeDeleteTriple(s, o) => Some(db.delete_triple(&tr(s, o))),
        Op::FacadeAddQuad(s, o, g) => Some(db.add_quad(q(s, o, g))),
        Op::FacadeDeleteQuad(s, o, g) => Some(db.delete_quad(&q(s, o, g))),
        Op::AliasInsert(s, o) => Some(db.dataset_index.insert(&tr(s, o))),
        Op::AliasDelete(s, o) => Some(db.dataset_index.delete(&tr(s, o))),
        Op::PartsAddTriple(s, o) => {
            let t = spo(s, o);
            db.add_triple_parts(&tname(t.0), &tname(t.1), &tname(t.2));
            None
        }
        Op::PartsDeleteTriple(s, o) => {
            let t = spo(s, o);
            Some(db.delete_triple_parts(&tname(t.0), &tname(t.1), &tname(t.2)))
        }
        Op::PartsAddQuad(s, o, g) => {
            let t = spo(s, o);
            let gn = match GRAPHS[g] {
                GraphId::Named(n) => n,
                GraphId::Default => unreachable!("add_quad_parts takes a graph name"),
            };
            Some(db.add_quad_parts(&tname(t.0), &tname(t.1), &tname(t.2), &tname(gn)))
        }
    }
}

fn sorted_quads(v: Vec<Quad>) -> Vec<(u32, u32, u32, GraphId)> {
    let mut r: Vec<_> = v.into_iter().map(|q| (q.subject, q.predicate, q.object, q.graph)).collect();
    r.sort();
    r
}
fn sorted_triples(v: Vec<Triple>) -> Vec<(u32, u32, u32)> {
    let mut r: Vec<_> = v.into_iter().map(|t| (t.subject, t.predicate, t.object)).collect();
    r.sort();
    r
}

/// Complete observation table. Returns the first disagreement.
pub fn observe(db: &SparqlDatabase, m: &Model) -> Result<u64, String> {
    let idx: &DatasetIndex = &db.dataset_index;
    let mut lookups = 0u64;
    let svals = [None, Some(1u32), Some(2), Some(3)];
    let pvals = [None, Some(1u32), Some(5)];
    let ovals = [None, Some(1u32), Some(2), Some(3)];
    let all_graphs = [GraphId::Default, GraphId::Named(7), GraphId::Named(8), GraphId::Named(9)];
    let matches = |q: &(u32, u32, u32, GraphId), s: Option<u32>, p: Option<u32>, o: Option<u32>| s.map_or(true, |x| x == q.0) && p.map_or(true, |x| x == q.1) && o.map_or(true, |x| x == q.2);
    let visible_sets: Vec<Option<HashSet<GraphId>>> = vec![
        None,
        Some(HashSet::new()),
        Some([GraphId::Named(7)].into_iter().collect()),
        Some([GraphId::Named(8)].into_iter().collect()),
        Some([GraphId::Named(7), GraphId::Named(8)].into_iter().collect()),
        Some([GraphId::Default, GraphId::Named(8), GraphId::Named(9)].into_iter().collect()),
        // only the default graph / only an absent graph visible: every named graph is filtered out, in
        // the fully-bound fast path and in the per-graph loop
        Some([GraphId::Default].into_iter().collect()),
        Some([GraphId::Named(9)].into_iter().collect()),
    ];
    // merged graphs: every ordered source list of length <= 2, one with an absent graph, and two of
    // length 3 (all three sources; a repeated source around another one)
    let mut lists: Vec<Vec<GraphId>> = vec![vec![]];
    for &a in &GRAPHS {
        lists.push(vec![a]);
        for &b in &GRAPHS {
            lists.push(vec![a, b]);
        }
    }
    lists.push(vec![GraphId::Named(9), GraphId::Named(7)]);
    lists.push(vec![GraphId::Default, GraphId::Named(7), GraphId::Named(8)]);
    lists.push(vec![GraphId::Named(7), GraphId::Named(8), GraphId::Named(7)]);
    for &s in &svals {
        for &p in &pvals {
            for &o in &ovals {
                for &g in &all_graphs {
                    let got = sorted_quads(idx.query_graph(g, s, p, o));
                    let exp: Vec<_> = m.quads.iter().filter(|q| q.3 == g && matches(q, s, p, o)).cloned().collect();
                    lookups += 1;
                    if got != exp {
                        return Err(format!("query_graph({:?},{:?},{:?},{:?}) = {:?}, expected {:?}", g, s, p, o, got, exp));
                    }
                    let got = sorted_quads(idx.query_quads(s, p, o, Some(g)));
                    lookups += 1;
                    if got != exp {
                        return Err(format!("query_quads({:?},{:?},{:?},Some({:?})) = {:?}, expected {:?}", s, p, o, g, got, exp));
                    }
                    let got = sorted_quads(db.query_graph_quads(g, s, p, o));
                    lookups += 1;
                    if got != exp {
                        return Err(format!("query_graph_quads({:?},..) = {:?}, expected {:?}", g, got, exp));
                    }
                }
                // default graph aliases
                let expd: Vec<(u32, u32, u32)> = m.quads.iter().filter(|q| q.3 == GraphId::Default && matches(q, s, p, o)).map(|q| (q.0, q.1, q.2)).collect();
                for (name, got) in [
                    ("query_default", sorted_triples(idx.query_default(s, p, o))),
                    ("query", sorted_triples(idx.query(s, p, o))),
                    ("query_default_triples", sorted_triples(db.query_default_triples(s, p, o))),
                ] {
                    lookups += 1;
                    if got != expd {
                        return Err(format!("{}({:?},{:?},{:?}) = {:?}, expected {:?}", name, s, p, o, got, expd));
                    }
                }
                let pat = (
                    s.map_or(Term::Variable("s".into()), Term::Constant),
                    p.map_or(Term::Variable("p".into()), Term::Constant),
                    o.map_or(Term::Variable("o".into()), Term::Constant),
                );
                let got = sorted_triples(idx.get_matching_triples(&pat));
                lookups += 1;
                if got != expd {
                    return Err(format!("get_matching_triples({:?}) = {:?}, expected {:?}", pat, got, expd));
                }
                // named graphs
                for vis in &visible_sets {
                    let got = sorted_quads(idx.query_named_graphs(s, p, o, vis.as_ref()));
                    let exp: Vec<_> = m
                        .quads
                        .iter()
                        .filter(|q| q.3 != GraphId::Default && matches(q, s, p, o) && vis.as_ref().map_or(true, |v| v.contains(&q.3)))
                        .cloned()
                        .collect();
                    lookups += 1;
                    if got != exp {
                        return Err(format!("query_named_graphs({:?},{:?},{:?},{:?}) = {:?}, expected {:?}", s, p, o, vis, got, exp));
                    }
                }
                // all graphs
                let got = sorted_quads(idx.query_quads(s, p, o, None));
                let exp: Vec<_> = m.quads.iter().filter(|q| matches(q, s, p, o)).cloned().collect();
                lookups += 1;
                if got != exp {
                    return Err(format!("query_quads({:?},{:?},{:?},None) = {:?}, expected {:?}", s, p, o, got, exp));
                }
                for l in &lists {
                    let got = sorted_triples(idx.query_merged_graphs(l, s, p, o));
                    let exp: BTreeSet<(u32, u32, u32)> = m.quads.iter().filter(|q| l.contains(&q.3) && matches(q, s, p, o)).map(|q| (q.0, q.1, q.2)).collect();
                    let exp: Vec<_> = exp.into_iter().collect();
                    lookups += 1;
                    if got != exp {
                        return Err(format!("query_merged_graphs({:?},{:?},{:?},{:?}) = {:?}, expected {:?}", l, s, p, o, got, exp));
                    }
                }
            }
        }
    }
    // membership
    for s in 1..=3u32 {
      for p in [1u32, 5] {
        for o in 1..=3u32 {
            for &g in &all_graphs {
                let q = Quad { subject: s, predicate: p, object: o, graph: g };
                lookups += 1;
                if idx.contains_quad(&q) != m.quads.contains(&(s, p, o, g)) {
                    return Err(format!("contains_quad({:?}) = {}, model says {}", q, idx.contains_quad(&q), m.quads.contains(&(s, p, o, g))));
                }
            }
            let t = Triple { subject: s, predicate: p, object: o };
            let mut got = idx.graphs_for_triple(&t);
            got.sort();
            let exp: Vec<GraphId> = m.quads.iter().filter(|q| q.0 == s && q.1 == p && q.2 == o).map(|q| q.3).collect::<BTreeSet<_>>().into_iter().collect();
            lookups += 1;
            if got != exp {
                return Err(format!("graphs_for_triple({:?}) = {:?}, expected {:?}", t, got, exp));
            }
        }
      }
    }
    // snapshots and listing
    let got = sorted_quads(idx.all_quads());
    let exp: Vec<_> = m.quads.iter().cloned().collect();
    lookups += 1;
    if got != exp {
        return Err(format!("all_quads = {:?}, expected {:?}", got, exp));
    }
    let mut got = idx.named_graphs();
    got.sort();
    let exp: Vec<GraphId> = m.catalog.iter().map(|n| GraphId::Named(*n)).collect();
    lookups += 1;
    if got != exp {
        return Err(format!("named_graphs = {:?}, expected {:?}", got, exp));
    }
    let mut got = idx.graphs();
    got.sort();
    let mut exp2 = vec![GraphId::Default];
    exp2.extend(exp.iter().cloned());
    lookups += 1;
    if got != exp2 {
        return Err(format!("graphs = {:?}, expected {:?}", got, exp2));
    }
    for &g in &all_graphs {
        let e = match g {
            GraphId::Default => true,
            GraphId::Named(n) => m.catalog.contains(&n),
        };
        lookups += 2;
        if idx.graph_exists(g) != e {
            return Err(format!("graph_exists({:?}) = {}, expected {}", g, idx.graph_exists(g), e));
        }
        let n = m.quads.iter().filter(|q| q.3 == g).count();
        if idx.len_graph(g) != n {
            return Err(format!("len_graph({:?}) = {}, expected {}", g, idx.len_graph(g), n));
        }
    }
    if idx.len_default() != m.quads.iter().filter(|q| q.3 == GraphId::Default).count() {
        return Err("len_default disagrees".into());
    }
    // QueryBuilder (default graph, lexical filters through the dictionary)
    let name = |k: u32| db.decode_any(k).unwrap_or_else(|| format!("<no-term-{}>", k));
    for s in 1..=2u32 {
        let got: Vec<(u32, u32, u32)> = db.query().with_subject(&name(s)).get_triples().into_iter().map(|t| (t.subject, t.predicate, t.object)).collect();
        let exp: Vec<(u32, u32, u32)> = m.quads.iter().filter(|q| q.3 == GraphId::Default && q.0 == s).map(|q| (q.0, q.1, q.2)).collect();
        lookups += 1;
        if got != exp {
            return Err(format!("QueryBuilder.with_subject(t{}) = {:?}, expected {:?}", s, got, exp));
        }
        for p in [1u32, 5] {
            let got: Vec<(u32, u32, u32)> = db.query().with_predicate(&name(p)).with_object(&name(s)).get_triples().into_iter().map(|t| (t.subject, t.predicate, t.object)).collect();
            let exp: Vec<(u32, u32, u32)> = m.quads.iter().filter(|q| q.3 == GraphId::Default && q.1 == p && q.2 == s).map(|q| (q.0, q.1, q.2)).collect();
            lookups += 1;
            if got != exp {
                return Err(format!("QueryBuilder.with_predicate(t{}).with_object(t{}) = {:?}, expected {:?}", p, s, got, exp));
            }
        }
    }
    let n = db.query().count();
    if n != m.quads.iter().filter(|q| q.3 == GraphId::Default).count() {
        return Err(format!("QueryBuilder.count = {}", n));
    }
    Ok(lookups)
}

fn nontrivial(m: &Model) -> bool {
    let graphs: BTreeSet<_> = m.quads.iter().map(|q| q.3).collect();
    (m.quads.len() >= 2 && graphs.len() >= 2) || m.catalog.iter().any(|n| !m.quads.iter().any(|q| q.3 == GraphId::Named(*n)))
}

/// Execute one op sequence from the empty store, checking return values and the full
/// observation table after every step. Returns Err((step, message)).
fn run_sequence(ops: &[Op]) -> Result<(SparqlDatabase, Model, u64), (usize, String)> {
    let mut db = fresh_db();
    let mut m = Model::default();
    let mut lookups = 0;
    for (i, op) in ops.iter().enumerate() {
        let exp = m.apply(op);
        let got = apply_real(&mut db, op);
        if got != exp {
            return Err((i, format!("{:?} returned {:?}, model says {:?}", op, got, exp)));
        }
        match observe(&db, &m) {
            Ok(n) => lookups += n,
            Err(e) => return Err((i, format!("after {:?}: {}", op, e))),
        }
    }
    Ok((db, m, lookups))
}

fn fail_seq(out: &mut ShardOut, ops: &[Op], step: usize, msg: String) {
    let upto: Vec<Value> = ops[..=step].iter().map(op_json).collect();
    let mut tags = vec![format!("last_op={}", ops[step].kind())];
    if ops[..=step].iter().any(|o| matches!(o, Op::Rebuild)) {
        tags.push("uses_rebuild".into());
    }
    if ops[step].is_facade() {
        tags.push(if ops[step].is_parts() { "last_op_is_string_facade".into() } else { "last_op_is_id_facade".into() });
    }
    tags.push(format!("universe={}", universe()));
    out.fail(json!({"ops": upto, "universe": universe()}), "read_path_disagrees_with_model", msg, tags);
}

/// physical fingerprint (hook H3) reduced to 128 bits
type Fp = (u64, u64);
fn fingerprint(db: &SparqlDatabase) -> Fp {
    let f = db.dataset_index.verif_fingerprint();
    (hash64(&f), hash64(&(0x9e37_79b9u32, &f)))
}
/// physical fingerprint -> hash of the model the complete observation table was read against (and agreed with)
type Memo = std::collections::HashMap<Fp, u64>;

/// Compare the real state with the model: the observation table is read unless this very physical
/// state has already been read against this very model in this worker (every read path is a function
/// of the five private fields the H3 fingerprint dumps, and results are compared sorted). A known
/// physical state reached with a DIFFERENT expected model is a disagreement.
/// Ok(Some(lookups)) = table read, Ok(None) = reused.
fn observe_memo(db: &SparqlDatabase, m: &Model, memo: &mut Memo, out: &mut ShardOut) -> Result<Option<u64>, String> {
    let fp = fingerprint(db);
    let mh = hash64(m);
    match memo.get(&fp) {
        Some(v) if *v == mh => Ok(None),
        Some(_) => match observe(db, m) {
            Err(e) => Err(e),
            Ok(_) => {
                out.machinery_errors.push(format!("one physical fingerprint agreed with two different models (fingerprint collision?): {:?}", m));
                Ok(None)
            }
        },
        None => {
            let l = observe(db, m)?;
            memo.insert(fp, mh);
            Ok(Some(l))
        }
    }
}

/// apply the last op of `ops` to (db, m); check the return value and (if `observe_it`) the table
fn step_and_check(db: &mut SparqlDatabase, m: &mut Model, ops: &[Op], observe_it: bool, memo: &mut Memo, out: &mut ShardOut) -> bool {
    let op = ops.last().unwrap();
    let exp = m.apply(op);
    let got = apply_real(db, op);
    if got != exp {
        if observe_it {
            fail_seq(out, ops, ops.len() - 1, format!("{:?} returned {:?}, model says {:?}", op, got, exp));
        }
        return false;
    }
    if observe_it {
        out.evaluations += 1;
        out.traces += 1;
        out.count("tree_nodes", 1);
        match observe_memo(db, m, memo, out) {
            Ok(Some(l)) => {
                out.count("tree_lookups", l);
                out.count("tree_nodes_table_read", 1);
            }
            Ok(None) => out.count("tree_nodes_same_physical_state_and_model_as_an_earlier_node", 1),
            Err(e) => {
                fail_seq(out, ops, ops.len() - 1, format!("after {:?}: {}", op, e));
                return false;
            }
        }
        if nontrivial(m) {
            out.count("tree_nontrivial_nodes", 1);
        }
        state_facts(m, "tree_nodes", out);
    }
    true
}

fn dfs(db: &SparqlDatabase, m: &Model, ops: &mut Vec<Op>, depth: usize, alpha: &[Op], memo: &mut Memo, out: &mut ShardOut, ctx: &Ctx) {
    if ops.len() >= depth {
        return;
    }
    if ctx.expired() {
        if !out.capped.iter().any(|c| c.contains("tree search")) {
            out.capped.push(format!("wall-clock cap hit during tree search of universe {}", universe()));
        }
        return;
    }
    for op in alpha {
        let mut db2 = db.clone();
        let mut m2 = m.clone();
        ops.push(op.clone());
        if step_and_check(&mut db2, &mut m2, ops, true, memo, out) {
            dfs(&db2, &m2, ops, depth, alpha, memo, out, ctx);
        }
        ops.pop();
    }
}

/// structural facts about a model state, for the vacuity counters
fn state_facts(m: &Model, prefix: &str, out: &mut ShardOut) {
    let mut two_s_two_p = false;
    let mut cube = false;
    for g in GRAPHS {
        let ss: BTreeSet<u32> = m.quads.iter().filter(|q| q.3 == g).map(|q| q.0).collect();
        let ps: BTreeSet<u32> = m.quads.iter().filter(|q| q.3 == g).map(|q| q.1).collect();
        let os: BTreeSet<u32> = m.quads.iter().filter(|q| q.3 == g).map(|q| q.2).collect();
        if ss.len() >= 2 && ps.len() >= 2 {
            two_s_two_p = true;
            if os.len() >= 2 {
                cube = true;
            }
        }
    }
    if two_s_two_p {
        out.count(&format!("{}_two_subjects_and_two_predicates_in_one_graph", prefix), 1);
    }
    if cube {
        out.count(&format!("{}_two_subjects_predicates_and_objects_in_one_graph", prefix), 1);
    }
    let triples: BTreeSet<(u32, u32, u32)> = m.quads.iter().map(|q| (q.0, q.1, q.2)).collect();
    if triples.iter().any(|t| GRAPHS.iter().all(|g| m.quads.contains(&(t.0, t.1, t.2, *g)))) {
        out.count(&format!("{}_same_triple_in_all_three_graphs", prefix), 1);
    }
}

/// number of shards that run a BFS (one universe each); the others share the trees
fn bfs_universes(ctx: &Ctx) -> usize {
    if ctx.thorough() {
        4
    } else {
        3
    }
}

/// tree cases are spread over the shards that do not run a BFS (when there are enough shards)
fn tree_mine(ctx: &Ctx, idx: u64) -> bool {
    let nb = bfs_universes(ctx);
    if ctx.nshards >= nb + 4 {
        ctx.shard >= nb && (idx % (ctx.nshards - nb) as u64) as usize == ctx.shard - nb
    } else {
        ctx.mine(idx)
    }
}

fn run(ctx: &Ctx) -> ShardOut {
    let mut out = ShardOut::default();
    let t0 = std::time::Instant::now();
    let mut memo = Memo::new();
    for u in 0..NUNIV {
        set_universe(u);
        tree(ctx, u, &mut memo, &mut out);
    }
    out.max("max_ms_tree_part_of_one_shard", t0.elapsed().as_millis() as u64);
    for u in 0..bfs_universes(ctx) {
        if ctx.shard == u % ctx.nshards {
            let t1 = std::time::Instant::now();
            set_universe(u);
            bfs(ctx, u, &mut out);
            out.max("max_ms_bfs_of_one_universe", t1.elapsed().as_millis() as u64);
        }
    }
    set_universe(0);
    out
}

/// Part 1: plain tree search (no de-duplication at all) over the core alphabet from the empty
/// store: depth-first, every node = one op sequence, observed once. Sharded by the first two ops.
fn tree(ctx: &Ctx, u: usize, memo: &mut Memo, out: &mut ShardOut) {
    // U3 (24 quads, 59 ops): depth 3 in both tiers
    let core = alphabet(u, false, 3);
    let depth = if ctx.thorough() && u != 3 { 4 } else { 3 };
    let n = core.len();
    let mut idx = 0u64;
    let nodes_before = out.counters.get("tree_nodes").copied().unwrap_or(0);
    for a in 0..n {
        for b in 0..n {
            idx += 1;
            if !tree_mine(ctx, idx) {
                continue;
            }
            let mut db = fresh_db();
            let mut m = Model::default();
            let mut ops = vec![core[a].clone()];
            // the depth-1 node is observed by the shard owning (a, 0)
            let first_ok = step_and_check(&mut db, &mut m, &ops, b == 0, memo, out);
            if !first_ok {
                continue;
            }
            ops.push(core[b].clone());
            if !step_and_check(&mut db, &mut m, &ops, true, memo, out) {
                continue;
            }
            dfs(&db, &m, &mut ops, depth, &core, memo, out, ctx);
        }
    }
    let nodes = out.counters.get("tree_nodes").copied().unwrap_or(0) - nodes_before;
    out.count(&format!("tree_nodes_universe_{}", u), nodes);
    out.max("max_tree_depth", depth as u64);
    out.max(&format!("max_tree_alphabet_universe_{}", u), n as u64);
}

/// Part 2: breadth-first search with de-duplication on the physical fingerprint, full alphabet
/// (core ops + every facade on every triple).
fn bfs(ctx: &Ctx, u: usize, out: &mut ShardOut) {
    // U3 (thorough only): closure over the graphs Default and N7 (65 792 states)
    let ngraphs = if u == 3 { 2 } else { 3 };
    // (U3: core ops only; the facades are crossed on every triple of U0-U2)
    let full = alphabet(u, u != 3, ngraphs);
    let max_depth: u64 = 64;
    // physical fingerprint -> hash of the abstract model that was fully observed against it
    let mut seen: Memo = Memo::new();
    let mut abstract_seen: HashSet<u64> = HashSet::new();
    let mut frontier: VecDeque<(SparqlDatabase, Model, Vec<u16>)> = VecDeque::new();
    let db0 = fresh_db();
    seen.insert(fingerprint(&db0), hash64(&Model::default()));
    frontier.push_back((db0, Model::default(), vec![]));
    out.states += 1;
    let mut states_here = 1u64;
    let mut closed = true;
    let ops_of = |p: &[u16]| -> Vec<Op> { p.iter().map(|i| full[*i as usize].clone()).collect() };
    'bfs: while let Some((db, m, path)) = frontier.pop_front() {
        if path.len() as u64 >= max_depth {
            closed = false;
            continue;
        }
        for (oi, op) in full.iter().enumerate() {
            if ctx.expired() {
                out.capped.push(format!("wall-clock cap hit during BFS of universe {} at depth {}", u, path.len()));
                closed = false;
                break 'bfs;
            }
            let mut db2 = db.clone();
            // clone() shares the dictionary Arc; the string facades only look up terms it already holds
            let mut m2 = m.clone();
            let exp = m2.apply(op);
            let got = apply_real(&mut db2, op);
            out.transitions += 1;
            out.evaluations += 1;
            let mut p2 = path.clone();
            p2.push(oi as u16);
            if op.is_facade() {
                out.count("bfs_facade_transitions", 1);
                if m2 != m {
                    out.count("bfs_facade_transitions_changing_the_dataset", 1);
                }
                if op.is_parts() {
                    out.count("bfs_string_facade_transitions", 1);
                    if m2 != m {
                        out.count("bfs_string_facade_transitions_changing_the_dataset", 1);
                    }
                }
            }
            if got != exp {
                let ops = ops_of(&p2);
                fail_seq(out, &ops, ops.len() - 1, format!("{:?} returned {:?}, model says {:?}", op, got, exp));
                continue;
            }
            let fp = fingerprint(&db2);
            if let Some(validated) = seen.get(&fp) {
                // This physical state was observed completely (all_quads, catalog, every lookup
                // shape) against the model stored with it, so it denotes exactly that model. A
                // transition that lands on it with a different expected model produced a wrong
                // state (e.g. a rebuild dropping an empty graph, a delete removing a sibling key).
                out.count("dedup_hits", 1);
                if *validated != hash64(&m2) {
                    match observe(&db2, &m2) {
                        Err(e) => {
                            let ops = ops_of(&p2);
                            fail_seq(out, &ops, ops.len() - 1, format!("after {:?}: {}", op, e));
                        }
                        Ok(_) => out.machinery_errors.push(format!("one physical fingerprint agreed with two different models (fingerprint collision?): {:?}", m2)),
                    }
                }
                continue;
            }
            seen.insert(fp, hash64(&m2));
            match observe(&db2, &m2) {
                Ok(l) => out.count("bfs_lookups", l),
                Err(e) => {
                    let ops = ops_of(&p2);
                    fail_seq(out, &ops, ops.len() - 1, format!("after {:?}: {}", op, e));
                    continue;
                }
            }
            if op.is_facade() {
                // never seen on the unchanged tree: the facades are aliases, so the closure under the
                // core ops is already closed under them
                out.count("bfs_states_first_reached_through_a_facade", 1);
            }
            out.states += 1;
            states_here += 1;
            out.traces += 1;
            out.max_depth = out.max_depth.max(p2.len() as u64);
            abstract_seen.insert(hash64(&m2));
            if nontrivial(&m2) {
                out.nontrivial.insert(fp.0);
            }
            state_facts(&m2, "bfs_states", out);
            out.outcome(&m2);
            if states_here % 1500 == 7 {
                out.sample(json!({"universe": u, "ops": ops_of(&p2).iter().map(op_json).collect::<Vec<_>>(), "model_quads": m2.quads.len(), "catalog": m2.catalog}));
            }
            frontier.push_back((db2, m2, p2));
        }
    }
    out.count("abstract_states", abstract_seen.len() as u64);
    out.count("physical_states", seen.len() as u64);
    out.count(&format!("physical_states_universe_{}", u), seen.len() as u64);
    out.count("bfs_closed_reachable_set", closed as u64);
    out.max("max_bfs_alphabet", full.len() as u64);
    if !closed && out.capped.is_empty() {
        out.capped.push(format!("BFS depth bound {} reached before closure (universe {})", max_depth, u));
    }
}

fn replay(_ctx: &Ctx, case: &Value) -> ShardOut {
    let mut out = ShardOut::default();
    set_universe((case["universe"].as_u64().unwrap_or(0) as usize).min(NUNIV - 1));
    let names: Vec<&str> = case["ops"].as_array().map(|a| a.iter().filter_map(|v| v.as_str()).collect()).unwrap_or_default();
    let ops: Vec<Op> = names.iter().filter_map(|v| parse_op(v)).collect();
    if ops.len() != names.len() || ops.is_empty() {
        out.machinery_errors.push(format!("replay file does not describe a C04 case of universe {}: {}", universe(), case));
        return out;
    }
    out.evaluations = 1;
    if let Err((step, msg)) = run_sequence(&ops) {
        fail_seq(&mut out, &ops, step, msg);
    }
    set_universe(0);
    out
}
