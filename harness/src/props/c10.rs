//! C10 — each firing of a continuous query sees exactly the current window, nothing older.
//! E-seq over streams on real single-window RSP engines (RSTREAM / ISTREAM / DSTREAM), oracle =
//! probe window contents + naive rule closure + BGP evaluation + relation-to-stream reference;
//! E-sched: the same streams in MultiThread mode under every schedule of the baton scheduler
//! (hook H1) up to a preemption bound.
use crate::explore::sched;
use crate::infra::{guarded, Ctx, PropDef, ShardOut};
use crate::reference::sparql_ast::*;
use crate::reference::sparql_eval::{eval_group, Dataset, Mu, View};
use kolibrie::rsp::s2r::{CSPARQLWindow, ContentContainer, Report, ReportStrategy, Tick};
use kolibrie::rsp_engine::{OperationMode, QueryExecutionMode, RSPBuilder, RSPEngine, ResultConsumer, SimpleR2R};
use serde_json::{json, Value};
use shared::triple::Triple;
use std::collections::{BTreeMap, BTreeSet};
use std::sync::{Arc, Mutex};

pub const DEF: PropDef = PropDef {
    id: "C10",
    level: "model_checking",
    rule: "single-thread: every in-order stream of <=4 items (thorough <=5), each item a (triple from a 3-triple alphabet, gap in {0,1,2} to the previous timestamp) pair, fed to a real single-window RSPEngine built with RSPBuilder for {RSTREAM, ISTREAM, DSTREAM} x (width,slide) in {(3,1),(2,2),(4,2),(3,2)} x 6 query/rule configurations (one pattern, two-pattern join, pattern over a derived predicate; no rules, subclass rule, two-step chain, inverse-property rule; alphabets contain a triple that is also derivable, so base and derived facts coincide and re-arrive after eviction); oracle per firing: window content from a probe CSPARQLWindow with identical parameters, rows = BGP answers over content + naive rule closure of the content, passed through the R2S reference (all / new / vanished w.r.t. the previous firing); the emitted row sequence must be the concatenation of permutations of the expected per-firing multisets. Multi-thread: the same cases for streams of <=3 items (thorough <=4) in OperationMode::MultiThread under the baton scheduler (hook H1): every schedule with <= 2 preemptions (thorough: streams of <=4 items; stateless DFS) must emit exactly the single-thread sequence, without deadlock. plus a sparse-stream family (the same products over streams with gaps {1,5}, which exceed every width: windows close EMPTY between non-empty firings and ISTREAM/DSTREAM must difference against the empty firing) and a long-stream family (12 items, ~11 firings, producer far ahead of the worker) under every schedule with <= 1 (thorough 2) preemptions. states = engine runs (one per stream prefix-closed history), transitions = stream items fed, traces = complete executions (streams x schedules). Non-trivial = case whose expected output is non-empty and has >= 2 firings; distinct by (configuration, stream).",
    assumptions: &[
        "the probe window is the real CSPARQLWindow (its own correctness is C09's subject)",
        "stop()'s flush is excluded (it reports all open windows by design; the repository's tests avoid it too): engines are dropped",
        "multi-thread schedules: scheduling points at channel send/receive and around the window processor (hook H1 in rsp_engine.rs / s2r.rs); interleavings inside the store mutex are not points; memory-ordering effects are not modelled",
    ],
    run,
    replay,
    cap_s: (55, 1800),
    shards: 0,
};

const TYPE: &str = "http://www.w3.org/1999/02/22-rdf-syntax-ns#type";
const E: &str = "http://e/";

fn iri(local: &str) -> String {
    format!("{}{}", E, local)
}

#[derive(Clone, Debug)]
pub struct Config {
    pub name: &'static str,
    /// (s, p, o) lexical triples of the stream alphabet
    pub alphabet: Vec<(String, String, String)>,
    /// window block patterns
    pub query: Vec<TP>,
    /// rules as (premises, conclusions)
    pub rules: Vec<(Vec<TP>, Vec<TP>)>,
}

fn v(n: &str) -> T {
    T::var(n)
}
fn c(local: &str) -> T {
    T::iri(&iri(local))
}
fn ty() -> T {
    T::iri(TYPE)
}
fn t3(s: &str, p: &str, o: &str) -> (String, String, String) {
    let p = if p == "a" { TYPE.to_string() } else { iri(p) };
    (iri(s), p, iri(o))
}

pub fn configs() -> Vec<Config> {
    let sub_rule = (vec![tp(v("x"), ty(), c("Sub"))], vec![tp(v("x"), ty(), c("Super"))]);
    vec![
        Config { name: "one_pattern_no_rules", alphabet: vec![t3("a", "a", "Super"), t3("b", "a", "Super"), t3("a", "a", "Sub")], query: vec![tp(v("s"), ty(), c("Super"))], rules: vec![] },
        Config { name: "one_pattern_subclass", alphabet: vec![t3("a", "a", "Sub"), t3("a", "a", "Super"), t3("b", "a", "Sub")], query: vec![tp(v("s"), ty(), c("Super"))], rules: vec![sub_rule.clone()] },
        Config {
            name: "one_pattern_chain",
            alphabet: vec![t3("a", "a", "Sub"), t3("a", "a", "Mid"), t3("b", "a", "Sub")],
            query: vec![tp(v("s"), ty(), c("Super"))],
            rules: vec![(vec![tp(v("x"), ty(), c("Sub"))], vec![tp(v("x"), ty(), c("Mid"))]), (vec![tp(v("x"), ty(), c("Mid"))], vec![tp(v("x"), ty(), c("Super"))])],
        },
        Config { name: "join_no_rules", alphabet: vec![t3("a", "a", "Super"), t3("a", "p", "c"), t3("b", "p", "c")], query: vec![tp(v("s"), ty(), c("Super")), tp(v("s"), c("p"), v("o"))], rules: vec![] },
        Config { name: "join_subclass", alphabet: vec![t3("a", "a", "Sub"), t3("a", "p", "c"), t3("b", "a", "Super")], query: vec![tp(v("s"), ty(), c("Super")), tp(v("s"), c("p"), v("o"))], rules: vec![sub_rule] },
        Config {
            name: "derived_predicate_inverse",
            alphabet: vec![t3("a", "p", "b"), t3("b", "q", "a"), t3("a", "p", "a")],
            query: vec![tp(v("s"), c("q"), v("o"))],
            rules: vec![(vec![tp(v("x"), c("p"), v("y"))], vec![tp(v("y"), c("q"), v("x"))])],
        },
    ]
}

pub const WINDOWS: [(usize, usize); 4] = [(3, 1), (2, 2), (4, 2), (3, 2)];
pub const OPS: [&str; 3] = ["RSTREAM", "ISTREAM", "DSTREAM"];

fn pattern_text(ts: &[TP]) -> String {
    ts.iter().map(|t| format!("{} {} {} .", print_term(&t.s), print_term(&t.p), print_term(&t.o))).collect::<Vec<_>>().join(" ")
}

fn query_text(op: &str, width: usize, slide: usize, cfg: &Config) -> String {
    format!(
        "REGISTER {} <http://out/stream> AS SELECT * FROM NAMED WINDOW :w ON :s [RANGE {} STEP {}] WHERE {{ WINDOW :w {{ {} }} }}",
        op,
        width,
        slide,
        pattern_text(&cfg.query)
    )
}

fn rules_text(cfg: &Config) -> String {
    let mut s = String::new();
    for (prem, concl) in &cfg.rules {
        // N3 rule documents: one rule per line, no trailing dot (a trailing " ." is left unconsumed
        // by parse_n3_rule and makes load_rules stop after the first rule)
        let body = |ts: &[TP]| ts.iter().map(|t| format!("{} {} {}", print_term(&t.s), print_term(&t.p), print_term(&t.o))).collect::<Vec<_>>().join(" . ");
        s.push_str(&format!("{{ {} }} => {{ {} }}\n", body(prem), body(concl)));
    }
    s
}

pub type Row = Vec<(String, String)>;

pub type Stream = Vec<(usize, usize)>; // (alphabet index, timestamp)

fn line(t: &(String, String, String)) -> String {
    format!("<{}> <{}> <{}> .", t.0, t.1, t.2)
}

/// Build a real engine; returns the engine and the sink the consumer appends to.
fn build_engine(op: &str, width: usize, slide: usize, cfg: &Config, mode: OperationMode) -> Result<(RSPEngine<Triple, Row>, Arc<Mutex<Vec<Row>>>), String> {
    let sink: Arc<Mutex<Vec<Row>>> = Arc::new(Mutex::new(Vec::new()));
    let s2 = Arc::clone(&sink);
    let consumer = ResultConsumer {
        function: Arc::new(move |r: Row| {
            s2.lock().unwrap().push(r);
        }),
    };
    let r2r = Box::new(SimpleR2R::with_execution_mode(QueryExecutionMode::Volcano));
    let q = query_text(op, width, slide, cfg);
    let rules = rules_text(cfg);
    // the builder borrows its strings for its own lifetime
    let q: &'static str = Box::leak(q.into_boxed_str());
    let rules: &'static str = Box::leak(rules.into_boxed_str());
    let mut b = RSPBuilder::new().add_rsp_ql_query(q).add_consumer(consumer).add_r2r(r2r).set_operation_mode(mode);
    if !rules.is_empty() {
        b = b.add_rules(rules);
    }
    let engine = b.build()?;
    Ok((engine, sink))
}

fn normalize_row(r: &Row) -> Row {
    let mut r: Row = r.iter().map(|(k, v)| (k.trim_start_matches('?').to_string(), v.trim_start_matches('<').trim_end_matches('>').to_string())).collect();
    r.sort();
    r
}

/// Run one stream through a real single-thread engine; emitted rows in order.
pub fn run_single(op: &str, width: usize, slide: usize, cfg: &Config, stream: &Stream) -> Result<Vec<Row>, String> {
    let (mut engine, sink) = build_engine(op, width, slide, cfg, OperationMode::SingleThread)?;
    let triples: Vec<Vec<Triple>> = cfg.alphabet.iter().map(|t| engine.parse_data(&line(t))).collect();
    for (ai, ts) in stream {
        for t in &triples[*ai] {
            engine.add_to_stream(":s", t.clone(), *ts);
        }
    }
    let rows = sink.lock().unwrap().iter().map(normalize_row).collect();
    drop(engine);
    Ok(rows)
}

/// window contents per firing from a probe window with identical parameters
fn probe_contents(width: usize, slide: usize, stream: &Stream) -> Vec<BTreeSet<usize>> {
    let mut report = Report::new();
    report.add(ReportStrategy::OnWindowClose);
    let mut w: CSPARQLWindow<usize> = CSPARQLWindow::new(width, slide, report, Tick::TimeDriven, "probe".to_string());
    let sink: Arc<Mutex<Vec<BTreeSet<usize>>>> = Arc::new(Mutex::new(Vec::new()));
    let s2 = Arc::clone(&sink);
    w.register_callback(Box::new(move |cc: ContentContainer<usize>| {
        s2.lock().unwrap().push(cc.iter().cloned().collect());
    }));
    for (ai, ts) in stream {
        w.add_to_window(*ai, *ts);
    }
    let out = sink.lock().unwrap().clone();
    out
}

fn closure(cfg: &Config, content: &BTreeSet<usize>) -> Dataset {
    let mut ds = Dataset::default();
    for ai in content {
        ds.default.insert(cfg.alphabet[*ai].clone());
    }
    loop {
        let mut added = false;
        for (prem, concl) in &cfg.rules {
            let view = View::of(&ds, &[], &[]);
            let sols: Vec<Mu> = eval_group(&Group(vec![Elem::Triples(prem.clone())]), &view, None).unwrap_or_default();
            for mu in sols {
                for t in concl {
                    let val = |x: &T| match x {
                        T::Var(n) => mu.get(n).cloned(),
                        other => Some(other.lexical()),
                    };
                    if let (Some(s), Some(p), Some(o)) = (val(&t.s), val(&t.p), val(&t.o)) {
                        if ds.default.insert((s, p, o)) {
                            added = true;
                        }
                    }
                }
            }
        }
        if !added {
            break;
        }
    }
    ds
}

/// expected emitted rows per firing
pub fn expected(op: &str, width: usize, slide: usize, cfg: &Config, stream: &Stream) -> Vec<Vec<Row>> {
    let mut out = Vec::new();
    let mut prev: BTreeSet<Row> = BTreeSet::new();
    for content in probe_contents(width, slide, stream) {
        let ds = closure(cfg, &content);
        let view = View::of(&ds, &[], &[]);
        let sols = eval_group(&Group(vec![Elem::Triples(cfg.query.clone())]), &view, None).unwrap_or_default();
        let rows: Vec<Row> = sols.into_iter().map(|mu: BTreeMap<String, String>| mu.into_iter().collect::<Row>()).collect();
        let cur: BTreeSet<Row> = rows.iter().cloned().collect();
        let emitted: Vec<Row> = match op {
            "RSTREAM" => rows,
            "ISTREAM" => rows.into_iter().filter(|r| !prev.contains(r)).collect(),
            _ => prev.iter().filter(|r| !cur.contains(*r)).cloned().collect(),
        };
        prev = cur;
        out.push(emitted);
    }
    out
}

/// the emitted sequence must be the concatenation of permutations of the per-firing multisets
pub fn compare(exp: &[Vec<Row>], got: &[Row]) -> Result<(), String> {
    let total: usize = exp.iter().map(|f| f.len()).sum();
    let mut pos = 0;
    for (k, f) in exp.iter().enumerate() {
        if pos + f.len() > got.len() {
            return Err(format!("firing {}: expected {} rows {:?}, but only {} rows remain; emitted {:?}", k, f.len(), f, got.len() - pos.min(got.len()), got));
        }
        let mut a: Vec<&Row> = f.iter().collect();
        let mut b: Vec<&Row> = got[pos..pos + f.len()].iter().collect();
        a.sort();
        b.sort();
        if a != b {
            return Err(format!("firing {}: expected rows {:?}, emitted {:?} (full emitted sequence {:?}; expected per firing {:?})", k, a, b, got, exp));
        }
        pos += f.len();
    }
    if got.len() != total {
        return Err(format!("{} rows emitted beyond the {} expected: {:?} (expected per firing {:?})", got.len() - total, total, &got[total..], exp));
    }
    Ok(())
}

/// all streams of exactly `len` items: (alphabet index, gap) per item, first timestamp = 1 + gap
fn streams(len: usize, gaps: &[usize]) -> Vec<Stream> {
    let per = 3 * gaps.len();
    let total = per.pow(len as u32);
    let mut out = Vec::with_capacity(total);
    for code in 0..total {
        let mut cdx = code;
        let mut ts = 1usize;
        let mut s = Vec::with_capacity(len);
        for _ in 0..len {
            let k = cdx % per;
            cdx /= per;
            ts += gaps[k / 3];
            s.push((k % 3, ts));
        }
        out.push(s);
    }
    out
}

fn case_json(op: &str, w: (usize, usize), cfg: &Config, stream: &Stream, mode: &str, schedule: Option<&[usize]>) -> Value {
    json!({"op": op, "width": w.0, "slide": w.1, "config": cfg.name, "stream": stream, "mode": mode, "schedule": schedule})
}

fn tags(op: &str, cfg: &Config, mode: &str) -> Vec<String> {
    vec![format!("op={}", op), format!("config={}", cfg.name), format!("mode={}", mode), format!("rules={}", cfg.rules.len())]
}

fn check_single(out: &mut ShardOut, op: &str, w: (usize, usize), cfg: &Config, stream: &Stream) -> Option<Vec<Row>> {
    out.evaluations += 1;
    out.states += 1;
    out.traces += 1;
    out.transitions += stream.len() as u64;
    let exp = expected(op, w.0, w.1, cfg, stream);
    let nonempty: usize = exp.iter().filter(|f| !f.is_empty()).count();
    if exp.len() >= 2 && nonempty >= 1 {
        out.nontrivial(&(op, w, cfg.name, stream));
    }
    let got = match guarded(|| run_single(op, w.0, w.1, cfg, stream)) {
        Err(p) => {
            out.fail(case_json(op, w, cfg, stream, "single", None), "panic", p, tags(op, cfg, "single"));
            return None;
        }
        Ok(Err(e)) => {
            out.machinery_errors.push(format!("engine build failed for {} {:?} {}: {}", op, w, cfg.name, e));
            return None;
        }
        Ok(Ok(g)) => g,
    };
    out.outcome(&got);
    if let Err(e) = compare(&exp, &got) {
        // determinism before verdict
        let again = guarded(|| run_single(op, w.0, w.1, cfg, stream));
        match again {
            Ok(Ok(g2)) if compare(&exp, &g2).is_err() => {
                let mut t = tags(op, cfg, "single");
                t.push(if got.len() > exp.iter().map(|f| f.len()).sum::<usize>() { "extra_rows".into() } else { "missing_or_wrong_rows".into() });
                out.fail(case_json(op, w, cfg, stream, "single", None), "wrong_emission", e, t);
            }
            _ => out.machinery_errors.push(format!("non-deterministic single-thread emission for {:?}", stream)),
        }
        return None;
    }
    Some(got)
}

// --- multi-thread under the baton scheduler ---------------------------------------------------

/// One execution of the stream in MultiThread mode under the schedule prefix `prefix`.
fn run_multi(op: &str, w: (usize, usize), cfg: &Config, stream: &Stream, prefix: &[usize]) -> Result<(Vec<Row>, sched::Trace), String> {
    let op = op.to_string();
    let cfg2 = cfg.clone();
    let stream2 = stream.clone();
    let sink_out: Arc<Mutex<Vec<Row>>> = Arc::new(Mutex::new(Vec::new()));
    let so = Arc::clone(&sink_out);
    let trace = sched::run_controlled(prefix, move || {
        let (mut engine, sink) = build_engine(&op, w.0, w.1, &cfg2, OperationMode::MultiThread).expect("engine build");
        let triples: Vec<Vec<Triple>> = cfg2.alphabet.iter().map(|t| engine.parse_data(&line(t))).collect();
        for (ai, ts) in &stream2 {
            for t in &triples[*ai] {
                engine.add_to_stream(":s", t.clone(), *ts);
            }
        }
        // let the worker drain everything that was sent, then shut down by dropping the engine
        sched::main_wait_quiescent();
        let rows: Vec<Row> = sink.lock().unwrap().iter().map(normalize_row).collect();
        *so.lock().unwrap() = rows;
        drop(engine);
    })?;
    let rows = sink_out.lock().unwrap().clone();
    Ok((rows, trace))
}

fn check_multi(out: &mut ShardOut, ctx: &Ctx, op: &str, w: (usize, usize), cfg: &Config, stream: &Stream, single: &[Row], bound: usize) {
    // rows inside one firing come in hash order, so sequences are compared firing by firing as multisets
    let exp = expected(op, w.0, w.1, cfg, stream);
    // stateless DFS over schedules with iterative preemption bounding
    let mut stack: Vec<Vec<usize>> = vec![vec![]];
    let mut schedules = 0u64;
    while let Some(prefix) = stack.pop() {
        if ctx.expired() {
            if out.capped.is_empty() {
                out.capped.push("wall-clock cap hit during schedule exploration".into());
            }
            return;
        }
        let res = guarded(|| run_multi(op, w, cfg, stream, &prefix));
        schedules += 1;
        out.evaluations += 1;
        out.traces += 1;
        out.count("schedules_explored", 1);
        let (rows, trace) = match res {
            Err(p) => {
                out.fail(case_json(op, w, cfg, stream, "multi", Some(&prefix)), "panic", p, tags(op, cfg, "multi"));
                continue;
            }
            Ok(Err(e)) => {
                if e.contains("deadlock") {
                    out.fail(case_json(op, w, cfg, stream, "multi", Some(&prefix)), "deadlock", e, tags(op, cfg, "multi"));
                } else if e.contains("stuck") {
                    // A thread that holds the baton never reached its next point: the worker is blocked
                    // in a real receive although the scheduler saw the matching send (a firing that was
                    // sent never arrived), or it hangs inside the processor. Only a verdict if it
                    // reproduces; a one-off stall is a machinery problem.
                    match guarded(|| run_multi(op, w, cfg, stream, &prefix)) {
                        Ok(Err(e2)) if e2.contains("stuck") => out.fail(
                            case_json(op, w, cfg, stream, "multi", Some(&prefix)),
                            "worker_never_reaches_next_point",
                            format!("{} (reproduced twice): under schedule prefix {:?} a thread holding the baton blocks forever - a window content that was sent never reached the worker, or the worker hangs", e, prefix),
                            tags(op, cfg, "multi"),
                        ),
                        _ => out.machinery_errors.push(format!("one-off scheduler stall on {:?} prefix {:?}: {}", stream, prefix, e)),
                    }
                } else {
                    out.machinery_errors.push(format!("scheduler error on {:?} prefix {:?}: {}", stream, prefix, e));
                }
                continue;
            }
            Ok(Ok(x)) => x,
        };
        out.max("max_scheduling_points", trace.points.len() as u64);
        if compare(&exp, &rows).is_err() {
            // replay the same schedule once more before trusting the failure
            let again = guarded(|| run_multi(op, w, cfg, stream, &trace.choices));
            match again {
                Ok(Ok((r2, _))) if compare(&exp, &r2).is_err() => {
                    out.fail(
                        case_json(op, w, cfg, stream, "multi", Some(&trace.choices)),
                        "multi_thread_emission_differs",
                        format!("single-thread emitted {:?}\n  multi-thread under schedule {:?} emitted {:?}", single, trace.choices, rows),
                        tags(op, cfg, "multi"),
                    );
                }
                _ => out.machinery_errors.push(format!("schedule replay diverged for {:?} {:?}", stream, trace.choices)),
            }
        }
        // expand alternatives within the preemption bound
        for i in prefix.len()..trace.points.len() {
            let p = &trace.points[i];
            let mut cost = trace.preemptions_before(i);
            if p.running_still_enabled {
                cost += 1;
            }
            if cost > bound {
                continue;
            }
            for alt in 1..p.enabled {
                let mut np: Vec<usize> = trace.choices[..i].to_vec();
                np.push(alt);
                stack.push(np);
            }
        }
    }
    out.max("max_schedules_per_case", schedules);
}

fn run(ctx: &Ctx) -> ShardOut {
    let mut out = ShardOut::default();
    let cfgs = configs();
    let gaps: Vec<usize> = vec![0, 1, 2];
    let maxlen = if ctx.thorough() { 5 } else { 4 };
    let mut idx = 0u64;
    'all: for (oi, op) in OPS.iter().enumerate() {
        for (wi, w) in WINDOWS.iter().enumerate() {
            for (ci, cfg) in cfgs.iter().enumerate() {
                // quick: half of the (operator, window, configuration) product, chosen so that every
                // operator, window and configuration occurs with every other one pairwise
                for len in 1..=maxlen {
                    for stream in streams(len, &gaps) {
                        idx += 1;
                        if !ctx.mine(idx) {
                            continue;
                        }
                        if idx % 64 == 0 && ctx.expired() {
                            out.capped.push(format!("wall-clock cap hit at {} {:?} {} length {}", op, w, cfg.name, len));
                            break 'all;
                        }
                        let single = check_single(&mut out, op, *w, cfg, &stream);
                        if out.samples.len() < 3 && len == 3 && idx % 977 == 0 {
                            out.sample(case_json(op, *w, cfg, &stream, "single", None));
                        }
                        // multi-thread schedules for short streams
                        let mt_len = if ctx.thorough() { 4 } else { 3 };
                        if let Some(single) = single {
                            // quick: length-3 streams under schedules for half of the (operator, window,
                            // configuration) product (every pair of the three still occurs)
                            let heavy_ok = ctx.thorough() || len < 3 || (oi + wi + ci) % 2 == 0;
                            if len <= mt_len && heavy_ok && sched::available() {
                                let bound = 2;
                                check_multi(&mut out, ctx, op, *w, cfg, &stream, &single, bound);
                            }
                        }
                    }
                }
            }
        }
    }
    // Sparse streams: gaps {1,5} exceed every window width, so windows close EMPTY between non-empty
    // firings (an event landing on a slide boundary after a silence opens an already-closed empty
    // window). ISTREAM / DSTREAM must compare with that empty firing, not with the last non-empty one.
    let sparse: Vec<usize> = vec![1, 5];
    'sparse: for (oi, op) in OPS.iter().enumerate() {
        for (wi, w) in WINDOWS.iter().enumerate() {
            for (ci, cfg) in cfgs.iter().enumerate() {
                for len in 2..=maxlen {
                    for stream in streams(len, &sparse) {
                        if stream.windows(2).all(|p| p[1].1 - p[0].1 < 5) {
                            continue; // no silence: already part of the dense family
                        }
                        idx += 1;
                        if !ctx.mine(idx) {
                            continue;
                        }
                        if idx % 64 == 0 && ctx.expired() {
                            out.capped.push(format!("wall-clock cap hit in the sparse-stream family at {} {:?} {} length {}", op, w, cfg.name, len));
                            break 'sparse;
                        }
                        out.count("sparse_streams", 1);
                        if probe_contents(w.0, w.1, &stream).windows(3).any(|f| !f[0].is_empty() && f[1].is_empty() && !f[2].is_empty()) {
                            out.count("sparse_streams_with_empty_firing_between_non_empty", 1);
                        }
                        let single = check_single(&mut out, op, *w, cfg, &stream);
                        if let Some(single) = single {
                            let heavy_ok = ctx.thorough() || (oi + wi + ci) % 2 == 0;
                            if len <= 3 && heavy_ok && sched::available() {
                                check_multi(&mut out, ctx, op, *w, cfg, &stream, &single, 2);
                            }
                        }
                    }
                }
            }
        }
    }
    // Long streams (12 items, one firing per item once the window slides): the producer can run far
    // ahead of the worker, so queue-depth / back-pressure behaviour of the window -> worker channel is
    // exercised. Single-thread oracle + every schedule with <= 1 preemption (thorough 2).
    if sched::available() {
        for (oi, op) in OPS.iter().enumerate() {
            for w in [(3usize, 1usize), (2, 2)] {
                for (ci, cfg) in cfgs.iter().enumerate() {
                    for variant in 0..3usize {
                        idx += 1;
                        if !ctx.mine(idx) {
                            continue;
                        }
                        if !ctx.thorough() && (oi + ci + variant) % 2 == 1 {
                            continue;
                        }
                        if ctx.expired() {
                            out.capped.push("wall-clock cap hit in the long-stream family".into());
                            break;
                        }
                        let n = 12;
                        let stream: Stream = (0..n).map(|k| ((k * (variant + 1) + k / 3) % 3, 1 + k)).collect();
                        out.count("long_streams", 1);
                        if let Some(single) = check_single(&mut out, op, w, cfg, &stream) {
                            check_multi(&mut out, ctx, op, w, cfg, &stream, &single, if ctx.thorough() { 2 } else { 1 });
                        }
                    }
                }
            }
        }
    }
    if !sched::available() {
        out.machinery_errors.push("hook H1 (kolibrie::verif_sched) is not compiled in: the harness must be built with --cfg kolibrie_verif".into());
    }
    out
}

fn replay(ctx: &Ctx, case: &Value) -> ShardOut {
    let mut out = ShardOut::default();
    let cfgs = configs();
    let Some(cfg) = cfgs.iter().find(|c| Some(c.name) == case["config"].as_str()) else {
        out.machinery_errors.push("replay: unknown config".into());
        return out;
    };
    let op = OPS.iter().find(|o| Some(**o) == case["op"].as_str()).copied().unwrap_or("RSTREAM");
    let w = (case["width"].as_u64().unwrap_or(3) as usize, case["slide"].as_u64().unwrap_or(1) as usize);
    let stream: Stream = case["stream"].as_array().map(|a| a.iter().filter_map(|p| Some((p.get(0)?.as_u64()? as usize, p.get(1)?.as_u64()? as usize))).collect()).unwrap_or_default();
    let single = check_single(&mut out, op, w, cfg, &stream);
    if case["mode"].as_str() == Some("multi") {
        if let (Some(single), Some(sch)) = (single, case["schedule"].as_array()) {
            let prefix: Vec<usize> = sch.iter().filter_map(|x| x.as_u64().map(|y| y as usize)).collect();
            let _ = ctx;
            match guarded(|| run_multi(op, w, cfg, &stream, &prefix)) {
                Ok(Ok((rows, trace))) => {
                    out.evaluations += 1;
                    if compare(&expected(op, w.0, w.1, cfg, &stream), &rows).is_err() {
                        out.fail(
                            case_json(op, w, cfg, &stream, "multi", Some(&trace.choices)),
                            "multi_thread_emission_differs",
                            format!("single-thread emitted {:?}\n  multi-thread under schedule {:?} emitted {:?}", single, trace.choices, rows),
                            tags(op, cfg, "multi"),
                        );
                    }
                }
                Ok(Err(e)) => {
                    if e.contains("deadlock") {
                        out.fail(case.clone(), "deadlock", e, tags(op, cfg, "multi"));
                    } else {
                        out.machinery_errors.push(e);
                    }
                }
                Err(p) => out.fail(case.clone(), "panic", p, tags(op, cfg, "multi")),
            }
        }
    }
    out
}
