//! C10 — each firing of a continuous query sees exactly the current window, nothing older.
//! E-seq over streams on real single-window RSP engines (RSTREAM / ISTREAM / DSTREAM), oracle =
//! probe window contents + naive rule closure + BGP evaluation + relation-to-stream reference;
//! E-sched: the same streams in MultiThread mode under every schedule of the baton scheduler
//! (hook H1) up to a preemption bound.
use crate::explore::sched;
use crate::infra::{guarded, Ctx, PropDef, ShardOut};
use crate::reference::sparql_ast::*;
use crate::reference::sparql_eval::{eval_group, Dataset, Mu, View};
use kolibrie::rsp::s2r::{CSPARQLWindow, ContentContainer, Report, ReportStrategy, Tick};
use kolibrie::rsp_engine::{OperationMode, QueryExecutionMode, RSPBuilder, RSPEngine, ResultConsumer, SimpleR2R};
use serde_json::{json, Value};
use shared::triple::Triple;
use std::collections::{BTreeMap, BTreeSet};
use std::sync::{Arc, Mutex};

pub const DEF: PropDef = PropDef {
    id: "C10",
    level: "model_checking",
    rule: "single-thread: every in-order stream of <=4 items (thorough <=5), each item a (triple from a 3-triple alphabet, gap in {0,1,2} to the previous timestamp) pair, fed to a real single-window RSPEngine built with RSPBuilder for {RSTREAM, ISTREAM, DSTREAM} x (width,slide) in {(3,1),(2,2),(4,2),(3,2)} x 6 query/rule configurations (one pattern, two-pattern join, pattern over a derived predicate; no rules, subclass rule, two-step chain, inverse-property rule; alphabets contain a triple that is also derivable, so base and derived facts coincide and re-arrive after eviction); oracle per firing: window content from a probe CSPARQLWindow with identical parameters, rows = BGP answers over content + naive rule closure of the content, passed through the R2S reference (all / new / vanished w.r.t. the previous firing); the emitted row sequence must be the concatenation of permutations of the expected per-firing multisets. Multi-thread: the same cases for streams of <=3 items (thorough <=4) in OperationMode::MultiThread under the baton scheduler (hook H1): every schedule with <= 2 preemptions (thorough: streams of <=4 items; stateless DFS) must emit exactly the single-thread sequence, without deadlock. plus a sparse-stream family (the same products over streams with gaps {1,5}, which exceed every width: windows close EMPTY between non-empty firings and ISTREAM/DSTREAM must difference against the empty firing) and a long-stream family (12 items, ~11 firings, producer far ahead of the worker) under every schedule with <= 1 (thorough 2) preemptions. states = engine runs (one per stream prefix-closed history), transitions = stream items fed, traces = complete executions (streams x schedules). Families added after the round-3 audit, all with the same oracle: WIDE - configurations spo_all / spo_chain (window block `?s ?p ?o`, no rules / two-step chain: the expected rows are the whole closure of the window content, so ANY leftover raw or derived triple of an evicted item is a row) and two_premise (rule {?x p ?y . ?y p ?z} => {?x r ?z} over (a p b),(b p c),(a p c): a derived fact depends on two items of which one is evicted), streams of <= 3 items for every operator x window (two_premise also 4 items for RSTREAM on (3,1) and (4,2); thorough: <= 4 everywhere), schedules (bound 2) for <= 2 items on half of the product (thorough <= 3 items); STATIC - one window plus a static pattern (`?s type Super` in the window, `?s q ?k` over three static triples, subclass rule), i.e. has_joins with a single window: SingleThread (rows reach the consumer at the next add_to_stream; a final process_single_thread_window_results() drains the last firing) and MultiThread with the coordinator thread as third scheduled thread (quick: <= 2 items with <= 1 preemption, 3 items on window (2,2) with every non-preemptive schedule; thorough <= 2 items bound 2, 3 items bound 1), expected rows = window-block answers joined with the static answers, then the stream operator; FAT - an event of 140 triples (70 subjects x {type Super, p c}) among single-triple events, two-pattern join, streams of <= 2 events (thorough 3): the join input exceeds BIND_JOIN_MIN_CHUNK = 64 rows and splits 64 + 6 on the 2-thread pool; VARIANT - configuration join_subclass with the window written as `[RANGE w]` (slide = width), `[RANGE PTwS STEP PTsS]`, `[RANGE w STEP s REPORT ON_WINDOW_CLOSE TICK TIME_DRIVEN]`, or fed through the legacy RSPEngine::add / add_to_stream(\"s\") (bare stream name), probe built from the intended numbers. Non-trivial = case whose expected output is non-empty and has >= 2 firings; distinct by (configuration, variant, stream).",
    assumptions: &[
        "the probe window is the real CSPARQLWindow (its own correctness is C09's subject)",
        "static family: the query's answers at a firing are read as the window-block answers naturally joined with the answers of the static patterns over the static data (compatible mappings merged, no row when either side is empty) - the same reading C11 uses; WHEN the rows of a firing reach the consumer is not judged (single-thread engines with a static part deliver them one call later), only the emitted sequence",
        "fat family: whether the optimizer really picks the parallel bind join for the 70-row input is not observable from outside; that the family reaches it is shown by the kept mutation proposed/mutant-C10-bind-join-par-chunks-exact.patch",
        "SELECT projection (`SELECT ?s`) is parsed but not applied by RSPBuilder; every generated query is `SELECT *`, so nothing is claimed about projection",
        "stop()'s flush is excluded (it reports all open windows by design; the repository's tests avoid it too): engines are dropped",
        "multi-thread schedules: scheduling points at channel send/receive and around the window processor (hook H1 in rsp_engine.rs / s2r.rs); interleavings inside the store mutex are not points; memory-ordering effects are not modelled",
    ],
    run,
    replay,
    cap_s: (55, 1800),
    shards: 0,
};

const TYPE: &str = "http://www.w3.org/1999/02/22-rdf-syntax-ns#type";
const E: &str = "http://e/";

fn iri(local: &str) -> String {
    format!("{}{}", E, local)
}

#[derive(Clone, Debug)]
pub struct Config {
    pub name: &'static str,
    /// "core" (the original six), "wide" (whole-store / two-premise observability), "static" (window
    /// block joined with a static pattern: the has_joins pipeline with one window), "fat" (an event of 140 triples)
    pub family: &'static str,
    /// the stream alphabet: EVENTS, each a list of (s, p, o) lexical triples fed at one timestamp
    pub alphabet: Vec<Vec<(String, String, String)>>,
    /// window block patterns
    pub query: Vec<TP>,
    /// rules as (premises, conclusions)
    pub rules: Vec<(Vec<TP>, Vec<TP>)>,
    /// patterns outside the window block and the static N-Triples data they are evaluated on
    pub static_part: Option<(Vec<TP>, Vec<(String, String, String)>)>,
    /// how the window is written in the query text and through which entry point items are fed
    pub variant: Variant,
}

/// Query-text and entry-point variants that must all mean the same window on the same stream.
#[derive(Clone, Copy, PartialEq, Eq, Debug, Hash)]
pub enum Variant {
    /// `[RANGE w STEP s]`, fed with add_to_stream(":s", ..)
    Default,
    /// `[RANGE w]` - the builder sets slide = width (only generated for width == slide)
    RangeOnly,
    /// `[RANGE PTwS STEP PTsS]`
    IsoDurations,
    /// `[RANGE w STEP s REPORT ON_WINDOW_CLOSE TICK TIME_DRIVEN]` (the defaults, written out)
    ExplicitReportTick,
    /// fed through the legacy RSPEngine::add (all windows)
    LegacyAdd,
    /// fed with add_to_stream("s", ..) - the stream name without the leading colon
    BareStreamName,
}
pub const VARIANTS: [Variant; 5] = [Variant::RangeOnly, Variant::IsoDurations, Variant::ExplicitReportTick, Variant::LegacyAdd, Variant::BareStreamName];
impl Variant {
    fn name(self) -> &'static str {
        match self {
            Variant::Default => "default",
            Variant::RangeOnly => "range_only",
            Variant::IsoDurations => "iso_durations",
            Variant::ExplicitReportTick => "explicit_report_tick",
            Variant::LegacyAdd => "legacy_add",
            Variant::BareStreamName => "bare_stream_name",
        }
    }
    fn parse(s: &str) -> Option<Variant> {
        VARIANTS.into_iter().chain([Variant::Default]).find(|v| v.name() == s)
    }
    fn window_text(self, width: usize, slide: usize) -> String {
        match self {
            Variant::RangeOnly => format!("[RANGE {}]", width),
            Variant::IsoDurations => format!("[RANGE PT{}S STEP PT{}S]", width, slide),
            Variant::ExplicitReportTick => format!("[RANGE {} STEP {} REPORT ON_WINDOW_CLOSE TICK TIME_DRIVEN]", width, slide),
            _ => format!("[RANGE {} STEP {}]", width, slide),
        }
    }
}

type Lex = (String, String, String);
fn one(t: Lex) -> Vec<Lex> {
    vec![t]
}
pub const FAT_SUBJECTS: usize = 70;

fn v(n: &str) -> T {
    T::var(n)
}
fn c(local: &str) -> T {
    T::iri(&iri(local))
}
fn ty() -> T {
    T::iri(TYPE)
}
fn t3(s: &str, p: &str, o: &str) -> (String, String, String) {
    let p = if p == "a" { TYPE.to_string() } else { iri(p) };
    (iri(s), p, iri(o))
}

pub fn configs() -> Vec<Config> {
    let sub_rule = (vec![tp(v("x"), ty(), c("Sub"))], vec![tp(v("x"), ty(), c("Super"))]);
    let chain = vec![(vec![tp(v("x"), ty(), c("Sub"))], vec![tp(v("x"), ty(), c("Mid"))]), (vec![tp(v("x"), ty(), c("Mid"))], vec![tp(v("x"), ty(), c("Super"))])];
    let chain2 = chain.clone();
    let core = |name: &'static str, alphabet: [Lex; 3], query: Vec<TP>, rules: Vec<(Vec<TP>, Vec<TP>)>| Config { name, family: "core", alphabet: alphabet.into_iter().map(one).collect(), query, rules, static_part: None, variant: Variant::Default };
    let spo = || vec![tp(v("s"), v("p"), v("o"))];
    let mut fat: Vec<Lex> = Vec::new();
    for i in 0..FAT_SUBJECTS {
        fat.push(t3(&format!("x{}", i), "a", "Super"));
        fat.push(t3(&format!("x{}", i), "p", "c"));
    }
    // the same fat event, but the queried class is only DERIVED (subclass rule / two-step chain):
    // a firing whose window holds >= 64 base facts goes through the rule engine, so any
    // size-dependent choice of materialisation strategy is crossed together with reasoning
    let mut fat_sub: Vec<Lex> = Vec::new();
    for i in 0..FAT_SUBJECTS {
        fat_sub.push(t3(&format!("x{}", i), "a", "Sub"));
        fat_sub.push(t3(&format!("x{}", i), "p", "c"));
    }
    vec![
        core("one_pattern_no_rules", [t3("a", "a", "Super"), t3("b", "a", "Super"), t3("a", "a", "Sub")], vec![tp(v("s"), ty(), c("Super"))], vec![]),
        core("one_pattern_subclass", [t3("a", "a", "Sub"), t3("a", "a", "Super"), t3("b", "a", "Sub")], vec![tp(v("s"), ty(), c("Super"))], vec![sub_rule.clone()]),
        core("one_pattern_chain", [t3("a", "a", "Sub"), t3("a", "a", "Mid"), t3("b", "a", "Sub")], vec![tp(v("s"), ty(), c("Super"))], chain.clone()),
        core("join_no_rules", [t3("a", "a", "Super"), t3("a", "p", "c"), t3("b", "p", "c")], vec![tp(v("s"), ty(), c("Super")), tp(v("s"), c("p"), v("o"))], vec![]),
        core("join_subclass", [t3("a", "a", "Sub"), t3("a", "p", "c"), t3("b", "a", "Super")], vec![tp(v("s"), ty(), c("Super")), tp(v("s"), c("p"), v("o"))], vec![sub_rule.clone()]),
        core("derived_predicate_inverse", [t3("a", "p", "b"), t3("b", "q", "a"), t3("a", "p", "a")], vec![tp(v("s"), c("q"), v("o"))], vec![(vec![tp(v("x"), c("p"), v("y"))], vec![tp(v("y"), c("q"), v("x"))])]),
        // whole-store observability: ANY leftover raw or derived triple of an evicted item is a row
        Config { family: "wide", ..core("spo_all", [t3("a", "a", "Sub"), t3("a", "p", "b"), t3("b", "a", "Sub")], spo(), vec![]) },
        Config { family: "wide", ..core("spo_chain", [t3("a", "a", "Sub"), t3("a", "a", "Mid"), t3("b", "a", "Sub")], spo(), chain) },
        // a derived fact that depends on TWO items of which only one may be evicted
        Config {
            family: "wide",
            ..core("two_premise", [t3("a", "p", "b"), t3("b", "p", "c"), t3("a", "p", "c")], vec![tp(v("s"), c("r"), v("o"))], vec![(vec![tp(v("x"), c("p"), v("y")), tp(v("y"), c("p"), v("z"))], vec![tp(v("x"), c("r"), v("z"))])])
        },
        // one window + a static pattern: has_joins = true with num_windows = 1 (results channel,
        // process_single_thread_window_results / coordinator thread, R2S inside emit_results)
        Config {
            family: "static",
            static_part: Some((vec![tp(v("s"), c("q"), v("k"))], vec![t3("a", "q", "k1"), t3("a", "q", "k2"), t3("c", "q", "k1")])),
            ..core("static_join_subclass", [t3("a", "a", "Sub"), t3("b", "a", "Super"), t3("a", "a", "Super")], vec![tp(v("s"), ty(), c("Super"))], vec![sub_rule.clone()])
        },
        // an event of 140 triples (70 subjects x {type Super, p c}): the join's left side exceeds
        // BIND_JOIN_MIN_CHUNK = 64 rows and splits unevenly (64 + 6) on a 2-thread pool
        Config { name: "join_fat_event", family: "fat", alphabet: vec![fat, one(t3("x0", "a", "Super")), one(t3("y", "p", "c"))], query: vec![tp(v("s"), ty(), c("Super")), tp(v("s"), c("p"), v("o"))], rules: vec![], static_part: None, variant: Variant::Default },
        Config { name: "join_fat_event_subclass", family: "fat", alphabet: vec![fat_sub.clone(), one(t3("x0", "a", "Sub")), one(t3("y", "p", "c"))], query: vec![tp(v("s"), ty(), c("Super")), tp(v("s"), c("p"), v("o"))], rules: vec![sub_rule.clone()], static_part: None, variant: Variant::Default },
        Config { name: "one_pattern_fat_event_chain", family: "fat", alphabet: vec![fat_sub, one(t3("x0", "a", "Mid")), one(t3("y", "a", "Sub"))], query: vec![tp(v("s"), ty(), c("Super"))], rules: chain2.clone(), static_part: None, variant: Variant::Default },
    ]
}

pub const WINDOWS: [(usize, usize); 4] = [(3, 1), (2, 2), (4, 2), (3, 2)];
pub const OPS: [&str; 3] = ["RSTREAM", "ISTREAM", "DSTREAM"];

fn pattern_text(ts: &[TP]) -> String {
    ts.iter().map(|t| format!("{} {} {} .", print_term(&t.s), print_term(&t.p), print_term(&t.o))).collect::<Vec<_>>().join(" ")
}

fn query_text(op: &str, width: usize, slide: usize, cfg: &Config) -> String {
    format!(
        "REGISTER {} <http://out/stream> AS SELECT * FROM NAMED WINDOW :w ON :s {} WHERE {{ WINDOW :w {{ {} }} {} }}",
        op,
        cfg.variant.window_text(width, slide),
        pattern_text(&cfg.query),
        cfg.static_part.as_ref().map(|(p, _)| pattern_text(p)).unwrap_or_default()
    )
}

fn rules_text(cfg: &Config) -> String {
    let mut s = String::new();
    for (prem, concl) in &cfg.rules {
        // N3 rule documents: one rule per line, no trailing dot (a trailing " ." is left unconsumed
        // by parse_n3_rule and makes load_rules stop after the first rule)
        let body = |ts: &[TP]| ts.iter().map(|t| format!("{} {} {}", print_term(&t.s), print_term(&t.p), print_term(&t.o))).collect::<Vec<_>>().join(" . ");
        s.push_str(&format!("{{ {} }} => {{ {} }}\n", body(prem), body(concl)));
    }
    s
}

pub type Row = Vec<(String, String)>;

pub type Stream = Vec<(usize, usize)>; // (alphabet index, timestamp)

fn line(t: &(String, String, String)) -> String {
    format!("<{}> <{}> <{}> .", t.0, t.1, t.2)
}

/// Build a real engine; returns the engine and the sink the consumer appends to.
fn build_engine(op: &str, width: usize, slide: usize, cfg: &Config, mode: OperationMode) -> Result<(RSPEngine<Triple, Row>, Arc<Mutex<Vec<Row>>>), String> {
    let sink: Arc<Mutex<Vec<Row>>> = Arc::new(Mutex::new(Vec::new()));
    let s2 = Arc::clone(&sink);
    let consumer = ResultConsumer {
        function: Arc::new(move |r: Row| {
            s2.lock().unwrap().push(r);
        }),
    };
    let r2r = Box::new(SimpleR2R::with_execution_mode(QueryExecutionMode::Volcano));
    let q = query_text(op, width, slide, cfg);
    let rules = rules_text(cfg);
    // the builder borrows its strings for its own lifetime
    let q: &'static str = Box::leak(q.into_boxed_str());
    let rules: &'static str = Box::leak(rules.into_boxed_str());
    let mut b = RSPBuilder::new().add_rsp_ql_query(q).add_consumer(consumer).add_r2r(r2r).set_operation_mode(mode);
    if !rules.is_empty() {
        b = b.add_rules(rules);
    }
    let mut engine = b.build()?;
    if let Some((_, data)) = &cfg.static_part {
        let text: String = data.iter().map(|t| line(t) + "\n").collect();
        engine.add_static_ntriples(&text);
    }
    Ok((engine, sink))
}

/// the events of the alphabet as dictionary-encoded triples of this engine
fn parse_alphabet(engine: &mut RSPEngine<Triple, Row>, cfg: &Config) -> Vec<Vec<Triple>> {
    cfg.alphabet.iter().map(|event| event.iter().flat_map(|t| engine.parse_data(&line(t))).collect()).collect()
}

fn feed(engine: &mut RSPEngine<Triple, Row>, variant: Variant, t: Triple, ts: usize) {
    match variant {
        Variant::LegacyAdd => engine.add(t, ts),
        Variant::BareStreamName => engine.add_to_stream("s", t, ts),
        _ => engine.add_to_stream(":s", t, ts),
    }
}

fn normalize_row(r: &Row) -> Row {
    let mut r: Row = r.iter().map(|(k, v)| (k.trim_start_matches('?').to_string(), v.trim_start_matches('<').trim_end_matches('>').to_string())).collect();
    r.sort();
    r
}

/// Run one stream through a real single-thread engine; emitted rows in order.
pub fn run_single(op: &str, width: usize, slide: usize, cfg: &Config, stream: &Stream) -> Result<Vec<Row>, String> {
    let (mut engine, sink) = build_engine(op, width, slide, cfg, OperationMode::SingleThread)?;
    let triples = parse_alphabet(&mut engine, cfg);
    for (ai, ts) in stream {
        for t in &triples[*ai] {
            feed(&mut engine, cfg.variant, t.clone(), *ts);
        }
    }
    if cfg.static_part.is_some() {
        // with a static part (has_joins) a single-thread engine hands a firing's rows to the consumer at
        // the start of the NEXT add_to_stream; this public call drains the last firing
        engine.process_single_thread_window_results();
    }
    let rows = sink.lock().unwrap().iter().map(normalize_row).collect();
    drop(engine);
    Ok(rows)
}

/// window contents per firing from a probe window with identical parameters
fn probe_contents(width: usize, slide: usize, stream: &Stream) -> Vec<BTreeSet<usize>> {
    let mut report = Report::new();
    report.add(ReportStrategy::OnWindowClose);
    let mut w: CSPARQLWindow<usize> = CSPARQLWindow::new(width, slide, report, Tick::TimeDriven, "probe".to_string());
    let sink: Arc<Mutex<Vec<BTreeSet<usize>>>> = Arc::new(Mutex::new(Vec::new()));
    let s2 = Arc::clone(&sink);
    w.register_callback(Box::new(move |cc: ContentContainer<usize>| {
        s2.lock().unwrap().push(cc.iter().cloned().collect());
    }));
    for (ai, ts) in stream {
        w.add_to_window(*ai, *ts);
    }
    let out = sink.lock().unwrap().clone();
    out
}

fn closure(cfg: &Config, content: &BTreeSet<usize>) -> Dataset {
    let mut ds = Dataset::default();
    for ai in content {
        for t in &cfg.alphabet[*ai] {
            ds.default.insert(t.clone());
        }
    }
    loop {
        let mut added = false;
        for (prem, concl) in &cfg.rules {
            let view = View::of(&ds, &[], &[]);
            let sols: Vec<Mu> = eval_group(&Group(vec![Elem::Triples(prem.clone())]), &view, None).unwrap_or_default();
            for mu in sols {
                for t in concl {
                    let val = |x: &T| match x {
                        T::Var(n) => mu.get(n).cloned(),
                        other => Some(other.lexical()),
                    };
                    if let (Some(s), Some(p), Some(o)) = (val(&t.s), val(&t.p), val(&t.o)) {
                        if ds.default.insert((s, p, o)) {
                            added = true;
                        }
                    }
                }
            }
        }
        if !added {
            break;
        }
    }
    ds
}

/// expected emitted rows per firing
pub fn expected(op: &str, width: usize, slide: usize, cfg: &Config, stream: &Stream) -> Vec<Vec<Row>> {
    apply_r2s(op, &relations(width, slide, cfg, stream))
}

/// the relation-to-stream reference: all rows / rows new / rows vanished w.r.t. the previous relation
pub fn apply_r2s(op: &str, rels: &[Vec<Row>]) -> Vec<Vec<Row>> {
    let mut out = Vec::new();
    let mut prev: BTreeSet<Row> = BTreeSet::new();
    for rows in rels {
        let rows = rows.clone();
        let cur: BTreeSet<Row> = rows.iter().cloned().collect();
        let emitted: Vec<Row> = match op {
            "RSTREAM" => rows,
            "ISTREAM" => rows.into_iter().filter(|r| !prev.contains(r)).collect(),
            _ => prev.iter().filter(|r| !cur.contains(*r)).cloned().collect(),
        };
        prev = cur;
        out.push(emitted);
    }
    out
}

/// Diagnosis only (a structural tag for attribution): is the emitted sequence what the stream operator
/// yields when some firings never reach it, i.e. the expected output of a proper SUBSEQUENCE of the firings?
fn explained_by_skipped_firings(op: &str, rels: &[Vec<Row>], got: &[Row]) -> bool {
    let n = rels.len();
    if n == 0 || n > 12 {
        return false;
    }
    (0..(1u32 << n) - 1).any(|mask| {
        let sub: Vec<Vec<Row>> = rels.iter().enumerate().filter(|(i, _)| mask >> i & 1 == 1).map(|(_, r)| r.clone()).collect();
        compare(&apply_r2s(op, &sub), got).is_ok()
    })
}

fn multi_tags(op: &str, w: (usize, usize), cfg: &Config, stream: &Stream, got: &[Row]) -> Vec<String> {
    let mut t = tags(op, cfg, "multi");
    if explained_by_skipped_firings(op, &relations(w.0, w.1, cfg, stream), got) {
        t.push("explained_by=firings_skipped_before_the_stream_operator".into());
    }
    t
}

/// the query's answers per firing (before the stream operator)
pub fn relations(width: usize, slide: usize, cfg: &Config, stream: &Stream) -> Vec<Vec<Row>> {
    let mut out = Vec::new();
    // answers of the static patterns over the static data (never part of a window)
    let static_sols: Option<Vec<Mu>> = cfg.static_part.as_ref().map(|(pats, data)| {
        let mut ds = Dataset::default();
        for t in data {
            ds.default.insert(t.clone());
        }
        let view = View::of(&ds, &[], &[]);
        eval_group(&Group(vec![Elem::Triples(pats.clone())]), &view, None).unwrap_or_default()
    });
    for content in probe_contents(width, slide, stream) {
        let ds = closure(cfg, &content);
        let view = View::of(&ds, &[], &[]);
        let mut sols: Vec<Mu> = eval_group(&Group(vec![Elem::Triples(cfg.query.clone())]), &view, None).unwrap_or_default();
        if let Some(st) = &static_sols {
            // the query's answers: window-block answers joined with the static answers (compatible mappings merged)
            let mut joined: Vec<Mu> = Vec::new();
            for a in &sols {
                for b in st {
                    if a.iter().all(|(k, v)| b.get(k).map_or(true, |bv| bv == v)) {
                        let mut m = a.clone();
                        m.extend(b.iter().map(|(k, v)| (k.clone(), v.clone())));
                        joined.push(m);
                    }
                }
            }
            sols = joined;
        }
        let rows: Vec<Row> = sols.into_iter().map(|mu: BTreeMap<String, String>| mu.into_iter().collect::<Row>()).collect();
        out.push(rows);
    }
    out
}

/// the emitted sequence must be the concatenation of permutations of the per-firing multisets
pub fn compare(exp: &[Vec<Row>], got: &[Row]) -> Result<(), String> {
    let total: usize = exp.iter().map(|f| f.len()).sum();
    let mut pos = 0;
    for (k, f) in exp.iter().enumerate() {
        if pos + f.len() > got.len() {
            return Err(format!("firing {}: expected {} rows {:?}, but only {} rows remain; emitted {:?}", k, f.len(), f, got.len() - pos.min(got.len()), got));
        }
        let mut a: Vec<&Row> = f.iter().collect();
        let mut b: Vec<&Row> = got[pos..pos + f.len()].iter().collect();
        a.sort();
        b.sort();
        if a != b {
            return Err(format!("firing {}: expected rows {:?}, emitted {:?} (full emitted sequence {:?}; expected per firing {:?})", k, a, b, got, exp));
        }
        pos += f.len();
    }
    if got.len() != total {
        return Err(format!("{} rows emitted beyond the {} expected: {:?} (expected per firing {:?})", got.len() - total, total, &got[total..], exp));
    }
    Ok(())
}

/// all streams of exactly `len` items: (alphabet index, gap) per item, first timestamp = 1 + gap
fn streams(len: usize, gaps: &[usize]) -> Vec<Stream> {
    let per = 3 * gaps.len();
    let total = per.pow(len as u32);
    let mut out = Vec::with_capacity(total);
    for code in 0..total {
        let mut cdx = code;
        let mut ts = 1usize;
        let mut s = Vec::with_capacity(len);
        for _ in 0..len {
            let k = cdx % per;
            cdx /= per;
            ts += gaps[k / 3];
            s.push((k % 3, ts));
        }
        out.push(s);
    }
    out
}

fn case_json(op: &str, w: (usize, usize), cfg: &Config, stream: &Stream, mode: &str, schedule: Option<&[usize]>) -> Value {
    let mut v = json!({"op": op, "width": w.0, "slide": w.1, "config": cfg.name, "stream": stream, "mode": mode, "schedule": schedule});
    if cfg.variant != Variant::Default {
        v["variant"] = json!(cfg.variant.name());
    }
    v
}

fn tags(op: &str, cfg: &Config, mode: &str) -> Vec<String> {
    let mut t = vec![format!("op={}", op), format!("config={}", cfg.name), format!("mode={}", mode), format!("rules={}", cfg.rules.len()), format!("family={}", cfg.family)];
    if cfg.static_part.is_some() {
        t.push("query_has_static_part".into());
    }
    if cfg.variant != Variant::Default {
        t.push(format!("variant={}", cfg.variant.name()));
    }
    t
}

fn check_single(out: &mut ShardOut, op: &str, w: (usize, usize), cfg: &Config, stream: &Stream) -> Option<Vec<Row>> {
    out.evaluations += 1;
    out.states += 1;
    out.traces += 1;
    out.transitions += stream.len() as u64;
    let exp = expected(op, w.0, w.1, cfg, stream);
    let nonempty: usize = exp.iter().filter(|f| !f.is_empty()).count();
    if exp.len() >= 2 && nonempty >= 1 {
        out.nontrivial(&(op, w, cfg.name, cfg.variant.name(), stream));
    }
    let got = match guarded(|| run_single(op, w.0, w.1, cfg, stream)) {
        Err(p) => {
            out.fail(case_json(op, w, cfg, stream, "single", None), "panic", p, tags(op, cfg, "single"));
            return None;
        }
        Ok(Err(e)) => {
            out.machinery_errors.push(format!("engine build failed for {} {:?} {}: {}", op, w, cfg.name, e));
            return None;
        }
        Ok(Ok(g)) => g,
    };
    out.outcome(&got);
    if let Err(e) = compare(&exp, &got) {
        // determinism before verdict
        let again = guarded(|| run_single(op, w.0, w.1, cfg, stream));
        match again {
            Ok(Ok(g2)) if compare(&exp, &g2).is_err() => {
                let mut t = tags(op, cfg, "single");
                t.push(if got.len() > exp.iter().map(|f| f.len()).sum::<usize>() { "extra_rows".into() } else { "missing_or_wrong_rows".into() });
                out.fail(case_json(op, w, cfg, stream, "single", None), "wrong_emission", e, t);
            }
            _ => out.machinery_errors.push(format!("non-deterministic single-thread emission for {:?}", stream)),
        }
        return None;
    }
    Some(got)
}

// --- multi-thread under the baton scheduler ---------------------------------------------------

/// One execution of the stream in MultiThread mode under the schedule prefix `prefix`.
fn run_multi(op: &str, w: (usize, usize), cfg: &Config, stream: &Stream, prefix: &[usize]) -> Result<(Vec<Row>, sched::Trace), String> {
    let op = op.to_string();
    let cfg2 = cfg.clone();
    let stream2 = stream.clone();
    let sink_out: Arc<Mutex<Vec<Row>>> = Arc::new(Mutex::new(Vec::new()));
    let so = Arc::clone(&sink_out);
    let trace = sched::run_controlled(prefix, move || {
        let (mut engine, sink) = build_engine(&op, w.0, w.1, &cfg2, OperationMode::MultiThread).expect("engine build");
        let triples = parse_alphabet(&mut engine, &cfg2);
        for (ai, ts) in &stream2 {
            for t in &triples[*ai] {
                feed(&mut engine, cfg2.variant, t.clone(), *ts);
            }
        }
        // let the worker drain everything that was sent, then shut down by dropping the engine
        sched::main_wait_quiescent();
        let rows: Vec<Row> = sink.lock().unwrap().iter().map(normalize_row).collect();
        *so.lock().unwrap() = rows;
        drop(engine);
    })?;
    let rows = sink_out.lock().unwrap().clone();
    Ok((rows, trace))
}

fn check_multi(out: &mut ShardOut, ctx: &Ctx, op: &str, w: (usize, usize), cfg: &Config, stream: &Stream, single: &[Row], bound: usize) {
    // rows inside one firing come in hash order, so sequences are compared firing by firing as multisets
    let exp = expected(op, w.0, w.1, cfg, stream);
    // stateless DFS over schedules with iterative preemption bounding
    let mut stack: Vec<Vec<usize>> = vec![vec![]];
    let mut schedules = 0u64;
    while let Some(prefix) = stack.pop() {
        if ctx.expired() {
            if out.capped.is_empty() {
                out.capped.push("wall-clock cap hit during schedule exploration".into());
            }
            return;
        }
        let mut res = guarded(|| run_multi(op, w, cfg, stream, &prefix));
        // The scheduler reports "stuck" when the thread holding the baton does not reach its next
        // point within 10 s. On a heavily loaded machine that can be plain CPU starvation: the SAME
        // schedule prefix is executed again (up to twice); only a stall that reproduces is judged
        // below, a one-off stall is counted and the successful re-execution is used.
        for _ in 0..2 {
            match &res {
                Ok(Err(e)) if e.contains("stuck") => {
                    let again = guarded(|| run_multi(op, w, cfg, stream, &prefix));
                    match &again {
                        Ok(Err(e2)) if e2.contains("stuck") => break, // reproduced: judged below
                        _ => {
                            out.count("one_off_scheduler_stalls_re_executed", 1);
                            res = again;
                        }
                    }
                }
                _ => break,
            }
        }
        schedules += 1;
        out.evaluations += 1;
        out.traces += 1;
        out.count("schedules_explored", 1);
        let (rows, trace) = match res {
            Err(p) => {
                out.fail(case_json(op, w, cfg, stream, "multi", Some(&prefix)), "panic", p, tags(op, cfg, "multi"));
                continue;
            }
            Ok(Err(e)) => {
                if e.contains("deadlock") {
                    out.fail(case_json(op, w, cfg, stream, "multi", Some(&prefix)), "deadlock", e, tags(op, cfg, "multi"));
                } else if e.contains("stuck") {
                    // A thread that holds the baton never reached its next point: the worker is blocked
                    // in a real receive although the scheduler saw the matching send (a firing that was
                    // sent never arrived), or it hangs inside the processor. Only a verdict if it
                    // reproduces; a one-off stall is a machinery problem.
                    match guarded(|| run_multi(op, w, cfg, stream, &prefix)) {
                        Ok(Err(e2)) if e2.contains("stuck") => out.fail(
                            case_json(op, w, cfg, stream, "multi", Some(&prefix)),
                            "worker_never_reaches_next_point",
                            format!("{} (reproduced twice): under schedule prefix {:?} a thread holding the baton blocks forever - a window content that was sent never reached the worker, or the worker hangs", e, prefix),
                            tags(op, cfg, "multi"),
                        ),
                        _ => out.machinery_errors.push(format!("one-off scheduler stall on {:?} prefix {:?}: {}", stream, prefix, e)),
                    }
                } else {
                    out.machinery_errors.push(format!("scheduler error on {:?} prefix {:?}: {}", stream, prefix, e));
                }
                continue;
            }
            Ok(Ok(x)) => x,
        };
        out.max("max_scheduling_points", trace.points.len() as u64);
        if compare(&exp, &rows).is_err() {
            // replay the same schedule once more before trusting the failure
            let again = guarded(|| run_multi(op, w, cfg, stream, &trace.choices));
            match again {
                Ok(Ok((r2, _))) if compare(&exp, &r2).is_err() => {
                    out.fail(
                        case_json(op, w, cfg, stream, "multi", Some(&trace.choices)),
                        "multi_thread_emission_differs",
                        format!("single-thread emitted {:?}\n  multi-thread under schedule {:?} emitted {:?}", single, trace.choices, rows),
                        multi_tags(op, w, cfg, stream, &rows),
                    );
                }
                _ => out.machinery_errors.push(format!("schedule replay diverged for {:?} {:?}", stream, trace.choices)),
            }
        }
        // expand alternatives within the preemption bound
        for i in prefix.len()..trace.points.len() {
            let p = &trace.points[i];
            let mut cost = trace.preemptions_before(i);
            if p.running_still_enabled {
                cost += 1;
            }
            if cost > bound {
                continue;
            }
            for alt in 1..p.enabled {
                let mut np: Vec<usize> = trace.choices[..i].to_vec();
                np.push(alt);
                stack.push(np);
            }
        }
    }
    out.max("max_schedules_per_case", schedules);
}

/// One case of a new family: single-thread oracle, then (if `mt_bound` is given) every schedule within the bound.
fn family_case(ctx: &Ctx, out: &mut ShardOut, op: &str, w: (usize, usize), cfg: &Config, stream: &Stream, mt_bound: Option<usize>) {
    let fam = if cfg.variant != Variant::Default { "variant" } else { cfg.family };
    out.count(&format!("{}_streams", fam), 1);
    let exp = expected(op, w.0, w.1, cfg, stream);
    let contents = probe_contents(w.0, w.1, stream);
    // vacuity: what the family is there to cross
    if contents.windows(2).any(|p| !p[0].is_subset(&p[1])) {
        out.count(&format!("{}_streams_with_an_item_evicted_between_two_firings", fam), 1);
    }
    if exp.iter().any(|f| !f.is_empty()) {
        out.count(&format!("{}_streams_with_expected_rows", fam), 1);
    }
    out.max(&format!("max_{}_rows_in_one_firing", fam), exp.iter().map(|f| f.len()).max().unwrap_or(0) as u64);
    match cfg.family {
        "static" => {
            // a window-block answer that has no static partner must not produce a row
            let b_in_window = contents.iter().any(|c| c.contains(&1));
            if b_in_window {
                out.count("static_streams_with_a_block_answer_without_static_partner", 1);
            }
            out.count("static_firings", contents.len() as u64);
        }
        "fat" => {
            if exp.iter().any(|f| f.len() > 64) {
                out.count("fat_streams_with_a_firing_of_more_than_64_join_rows", 1);
            }
            if !cfg.rules.is_empty() && exp.iter().any(|f| f.len() >= 64) {
                out.count("fat_streams_with_a_firing_of_64_or_more_rows_that_need_a_rule", 1);
            }
            if contents.windows(2).any(|p| p[0].contains(&0) && !p[1].contains(&0)) {
                out.count("fat_streams_where_the_fat_event_is_evicted", 1);
            }
        }
        "wide" if cfg.name == "two_premise" => {
            // the derived row needs items 0 and 1 together; then one of them leaves
            if contents.windows(2).any(|p| p[0].contains(&0) && p[0].contains(&1) && (p[1].contains(&0) != p[1].contains(&1))) {
                out.count("two_premise_streams_where_one_of_two_premises_is_evicted", 1);
            }
        }
        _ => {}
    }
    if let Some(single) = check_single(out, op, w, cfg, stream) {
        if let Some(bound) = mt_bound {
            if sched::available() {
                out.count(&format!("{}_streams_under_schedules", fam), 1);
                check_multi(out, ctx, op, w, cfg, stream, &single, bound);
            }
        }
    }
}

/// Families added after the audit of round 3: wide observability, one window + static part, fat events,
/// query-text / entry-point variants. They continue the global case numbering.
/// `small_first` = true runs only the small, threshold-crossing families (fat events), which must not be
/// starved by the wall-clock cap; false runs the large ones (wide, static, variants).
fn run_new_families(ctx: &Ctx, out: &mut ShardOut, all: &[Config], idx: &mut u64, small_first: bool) {
    let gaps: Vec<usize> = vec![0, 1, 2];
    let thorough = ctx.thorough();
    let mut expired = |out: &mut ShardOut, what: &str| -> bool {
        if ctx.expired() {
            out.capped.push(format!("wall-clock cap hit in the {} family", what));
            true
        } else {
            false
        }
    };
    if !small_first {
    // --- wide: `?s ?p ?o` over the whole store (no rules / two-step chain) and a two-premise rule ---
    let wide: Vec<&Config> = all.iter().filter(|c| c.family == "wide").collect();
    'wide: for (oi, op) in OPS.iter().enumerate() {
        for (wi, w) in WINDOWS.iter().enumerate() {
            for (ci, cfg) in wide.iter().enumerate() {
                // quick: <= 3 items; two_premise needs 4 (both premises inside one firing, then one of them
                // evicted at the next) and gets them for RSTREAM on the windows (3,1) and (4,2)
                let maxlen = if thorough || (cfg.name == "two_premise" && oi == 0 && wi % 2 == 0) { 4 } else { 3 };
                for len in 1..=maxlen {
                    for stream in streams(len, &gaps) {
                        *idx += 1;
                        if !ctx.mine(*idx) {
                            continue;
                        }
                        if *idx % 64 == 0 && expired(out, "wide") {
                            break 'wide;
                        }
                        let mt = if thorough { len <= 3 } else { len <= 2 && (oi + wi + ci) % 2 == 0 };
                        family_case(ctx, out, op, *w, cfg, &stream, if mt { Some(2) } else { None });
                    }
                }
            }
        }
    }
    // --- static: one window + a static pattern, SingleThread (deferred emission, drained) and MultiThread (coordinator) ---
    let stat: Vec<&Config> = all.iter().filter(|c| c.family == "static").collect();
    'stat: for op in OPS.iter() {
        for w in [(3usize, 1usize), (2, 2)] {
            for cfg in stat.iter() {
                for len in 1..=(if thorough { 4 } else { 3 }) {
                    for stream in streams(len, &gaps) {
                        *idx += 1;
                        if !ctx.mine(*idx) {
                            continue;
                        }
                        if *idx % 64 == 0 && expired(out, "static") {
                            break 'stat;
                        }
                        // three threads (producer, window worker, coordinator): quick = every schedule with <= 1
                        // preemption for <= 2 items and every non-preemptive schedule for 3 items (the
                        // coordinator lagging behind two firings needs 3 items)
                        let mt = if thorough {
                            if len <= 2 {
                                Some(2)
                            } else if len == 3 {
                                Some(1)
                            } else {
                                None
                            }
                        } else if len <= 2 {
                            Some(1)
                        } else if w == (2, 2) {
                            Some(0)
                        } else {
                            None
                        };
                        family_case(ctx, out, op, w, cfg, &stream, mt);
                    }
                }
            }
        }
    }
    }
    if small_first {
    // --- fat: one event of 140 triples (70 join rows) ---
    let fat: Vec<&Config> = all.iter().filter(|c| c.family == "fat").collect();
    'fat: for op in OPS.iter() {
        for w in [(2usize, 2usize), (3, 1)] {
            for cfg in fat.iter() {
                for len in 1..=(if thorough { 3 } else { 2 }) {
                    for stream in streams(len, &gaps) {
                        *idx += 1;
                        if !ctx.mine(*idx) {
                            continue;
                        }
                        if expired(out, "fat") {
                            break 'fat;
                        }
                        let mt = thorough && len <= 2;
                        family_case(ctx, out, op, w, cfg, &stream, if mt { Some(1) } else { None });
                    }
                }
            }
        }
    }
    }
    if !small_first {
    // --- variants: other spellings of the same window / other entry points for the same stream ---
    if let Some(base) = all.iter().find(|c| c.name == "join_subclass") {
        'var: for variant in VARIANTS {
            let cfg = Config { variant, ..base.clone() };
            for op in OPS.iter() {
                for w in [(3usize, 1usize), (2, 2)] {
                    if variant == Variant::RangeOnly && w.0 != w.1 {
                        continue; // `[RANGE w]` means slide = width
                    }
                    // the entry-point variants do not depend on the window shape: one window in quick
                    if !thorough && w == (3, 1) && matches!(variant, Variant::LegacyAdd | Variant::BareStreamName) {
                        continue;
                    }
                    // the variants concern window parameters and stream routing, not the stream operator:
                    // quick runs 3-item streams for RSTREAM only
                    for len in 1..=(if thorough { 4 } else if *op == "RSTREAM" { 3 } else { 2 }) {
                        for stream in streams(len, &gaps) {
                            *idx += 1;
                            if !ctx.mine(*idx) {
                                continue;
                            }
                            if *idx % 64 == 0 && expired(out, "variant") {
                                break 'var;
                            }
                            out.count(&format!("variant_{}_streams", variant.name()), 1);
                            let mt = thorough && len <= 2;
                            family_case(ctx, out, op, w, &cfg, &stream, if mt { Some(1) } else { None });
                        }
                    }
                }
            }
        }
    }
    }
}

fn run(ctx: &Ctx) -> ShardOut {
    let mut out = ShardOut::default();
    let all_cfgs = configs();
    let cfgs: Vec<Config> = all_cfgs.iter().filter(|c| c.family == "core").cloned().collect();
    let gaps: Vec<usize> = vec![0, 1, 2];
    let maxlen = if ctx.thorough() { 5 } else { 4 };
    let mut idx = 0u64;
    // The small families that exist to cross a queue depth or a size threshold run FIRST, so that a
    // wall-clock cap on a loaded machine cuts the tail of the big enumerations, never these.
    // Long streams (12 items, one firing per item once the window slides): the producer can run far
    // ahead of the worker, so queue-depth / back-pressure behaviour of the window -> worker channel is
    // exercised. Single-thread oracle + every schedule with <= 1 preemption (thorough 2).
    if sched::available() {
        for (oi, op) in OPS.iter().enumerate() {
            for w in [(3usize, 1usize), (2, 2)] {
                for (ci, cfg) in cfgs.iter().enumerate() {
                    for variant in 0..3usize {
                        idx += 1;
                        if !ctx.mine(idx) {
                            continue;
                        }
                        if !ctx.thorough() && (oi + ci + variant) % 2 == 1 {
                            continue;
                        }
                        if ctx.expired() {
                            out.capped.push("wall-clock cap hit in the long-stream family".into());
                            break;
                        }
                        let n = 12;
                        let stream: Stream = (0..n).map(|k| ((k * (variant + 1) + k / 3) % 3, 1 + k)).collect();
                        out.count("long_streams", 1);
                        if let Some(single) = check_single(&mut out, op, w, cfg, &stream) {
                            check_multi(&mut out, ctx, op, w, cfg, &stream, &single, if ctx.thorough() { 2 } else { 1 });
                        }
                    }
                }
            }
        }
    }
    run_new_families(ctx, &mut out, &all_cfgs, &mut idx, true);
    'all: for (oi, op) in OPS.iter().enumerate() {
        for (wi, w) in WINDOWS.iter().enumerate() {
            for (ci, cfg) in cfgs.iter().enumerate() {
                // quick: half of the (operator, window, configuration) product, chosen so that every
                // operator, window and configuration occurs with every other one pairwise
                for len in 1..=maxlen {
                    for stream in streams(len, &gaps) {
                        idx += 1;
                        if !ctx.mine(idx) {
                            continue;
                        }
                        if idx % 64 == 0 && ctx.expired() {
                            out.capped.push(format!("wall-clock cap hit at {} {:?} {} length {}", op, w, cfg.name, len));
                            break 'all;
                        }
                        let single = check_single(&mut out, op, *w, cfg, &stream);
                        if out.samples.len() < 3 && len == 3 && idx % 977 == 0 {
                            out.sample(case_json(op, *w, cfg, &stream, "single", None));
                        }
                        // multi-thread schedules for short streams
                        let mt_len = if ctx.thorough() { 4 } else { 3 };
                        if let Some(single) = single {
                            // quick: length-3 streams under schedules for half of the (operator, window,
                            // configuration) product (every pair of the three still occurs)
                            let heavy_ok = ctx.thorough() || len < 3 || (oi + wi + ci) % 2 == 0;
                            if len <= mt_len && heavy_ok && sched::available() {
                                let bound = 2;
                                check_multi(&mut out, ctx, op, *w, cfg, &stream, &single, bound);
                            }
                        }
                    }
                }
            }
        }
    }
    // Sparse streams: gaps {1,5} exceed every window width, so windows close EMPTY between non-empty
    // firings (an event landing on a slide boundary after a silence opens an already-closed empty
    // window). ISTREAM / DSTREAM must compare with that empty firing, not with the last non-empty one.
    let sparse: Vec<usize> = vec![1, 5];
    'sparse: for (oi, op) in OPS.iter().enumerate() {
        for (wi, w) in WINDOWS.iter().enumerate() {
            for (ci, cfg) in cfgs.iter().enumerate() {
                for len in 2..=maxlen {
                    for stream in streams(len, &sparse) {
                        if stream.windows(2).all(|p| p[1].1 - p[0].1 < 5) {
                            continue; // no silence: already part of the dense family
                        }
                        idx += 1;
                        if !ctx.mine(idx) {
                            continue;
                        }
                        if idx % 64 == 0 && ctx.expired() {
                            out.capped.push(format!("wall-clock cap hit in the sparse-stream family at {} {:?} {} length {}", op, w, cfg.name, len));
                            break 'sparse;
                        }
                        out.count("sparse_streams", 1);
                        if probe_contents(w.0, w.1, &stream).windows(3).any(|f| !f[0].is_empty() && f[1].is_empty() && !f[2].is_empty()) {
                            out.count("sparse_streams_with_empty_firing_between_non_empty", 1);
                        }
                        let single = check_single(&mut out, op, *w, cfg, &stream);
                        if let Some(single) = single {
                            let heavy_ok = ctx.thorough() || (oi + wi + ci) % 2 == 0;
                            if len <= 3 && heavy_ok && sched::available() {
                                check_multi(&mut out, ctx, op, *w, cfg, &stream, &single, 2);
                            }
                        }
                    }
                }
            }
        }
    }
    run_new_families(ctx, &mut out, &all_cfgs, &mut idx, false);
    if !sched::available() {
        out.machinery_errors.push("hook H1 (kolibrie::verif_sched) is not compiled in: the harness must be built with --cfg kolibrie_verif".into());
    }
    out
}

fn replay(ctx: &Ctx, case: &Value) -> ShardOut {
    let mut out = ShardOut::default();
    let cfgs = configs();
    let Some(cfg) = cfgs.iter().find(|c| Some(c.name) == case["config"].as_str()) else {
        out.machinery_errors.push("replay: unknown config".into());
        return out;
    };
    let cfg = &Config { variant: case["variant"].as_str().and_then(Variant::parse).unwrap_or(Variant::Default), ..cfg.clone() };
    let op = OPS.iter().find(|o| Some(**o) == case["op"].as_str()).copied().unwrap_or("RSTREAM");
    let w = (case["width"].as_u64().unwrap_or(3) as usize, case["slide"].as_u64().unwrap_or(1) as usize);
    let stream: Stream = case["stream"].as_array().map(|a| a.iter().filter_map(|p| Some((p.get(0)?.as_u64()? as usize, p.get(1)?.as_u64()? as usize))).collect()).unwrap_or_default();
    let single = check_single(&mut out, op, w, cfg, &stream);
    if case["mode"].as_str() == Some("multi") {
        if let (Some(single), Some(sch)) = (single, case["schedule"].as_array()) {
            let prefix: Vec<usize> = sch.iter().filter_map(|x| x.as_u64().map(|y| y as usize)).collect();
            let _ = ctx;
            match guarded(|| run_multi(op, w, cfg, &stream, &prefix)) {
                Ok(Ok((rows, trace))) => {
                    out.evaluations += 1;
                    if compare(&expected(op, w.0, w.1, cfg, &stream), &rows).is_err() {
                        out.fail(
                            case_json(op, w, cfg, &stream, "multi", Some(&trace.choices)),
                            "multi_thread_emission_differs",
                            format!("single-thread emitted {:?}\n  multi-thread under schedule {:?} emitted {:?}", single, trace.choices, rows),
                            multi_tags(op, w, cfg, &stream, &rows),
                        );
                    }
                }
                Ok(Err(e)) => {
                    if e.contains("deadlock") {
                        out.fail(case.clone(), "deadlock", e, tags(op, cfg, "multi"));
                    } else {
                        out.machinery_errors.push(e);
                    }
                }
                Err(p) => out.fail(case.clone(), "panic", p, tags(op, cfg, "multi")),
            }
        }
    }
    out
}
