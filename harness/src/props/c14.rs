//! C14 — exported data re-imports to the same dataset.
//! E-in, exhaustive over a character alphabet: every short literal over the delimiter alphabet, in
//! every term context, through every writer/reader pair.
use crate::infra::{guarded, Ctx, PropDef, ShardOut};
use kolibrie::sparql_database::SparqlDatabase;
use serde_json::{json, Value};
use shared::dataset_index::{GraphId, Quad};
use std::collections::{BTreeSet, HashMap};

pub const DEF: PropDef = PropDef {
    id: "C14",
    level: "exploration",
    rule: "literals = EVERY string of length <= 3 (thorough: <= 4) over the 16 characters {a \" \\ LF CR TAB é 😀 space < > . # : @ ^}, including the empty string, minus the strings the quantifier excludes because a lexical store cannot tell them from another term kind: starts with `<<` (quoted triple), starts with `_:` (blank node), or has the RFC 3986 shape `scheme:` = ALPHA *(ALPHA/DIGIT/+/-/.) followed by `:` (absolute IRI; this is the widest test any writer applies — generate_nquads' looks_like_absolute_iri — so nothing a writer would print as an IRI is kept); each literal as object in 10 contexts {IRI subject, blank-node subject, quoted-triple subject, nested quoted-triple subject, IRI subject in a named graph, blank-node subject in a blank-node-named graph, quoted-triple subject in a named graph, two objects + two predicates of one subject (Turtle `,` and `;`), literal as the object INSIDE a quoted-triple subject, database with declared prefixes `:` and `a:`}, each dataset also holding an IRI-object and a urn-object triple; the database is built through Dictionary::encode / QuotedTripleStore::encode / add_quad only (no parser) and observed once to validate the construction; round trips generate_nquads->parse_nquads_and_add, generate_ntriples->parse_ntriples_and_add, generate_turtle->parse_turtle into a NEW empty database; oracle: lexical quad set (decode_any over all_quads) of the re-imported database = that of the source (N-Quads: all graphs; N-Triples/Turtle: the default graph only). non-trivial = literal is empty or contains a character with a syntactic role (anything but a, é, 😀); distinct = distinct (literal, context, format).",
    assumptions: &[
        "alphabet and length bound as stated; IRIs used are http://e/..., urn:x:y (syntactically valid)",
        "source databases are built without any parser (dictionary + quoted-triple store + add_quad) and their observation is checked against the abstract dataset before the round trip (a mismatch is a machinery error)",
        "equality is on lexical quads: Kolibrie stores no term kinds, so an IRI printed as a literal and read back to the same lexical form counts as preserved",
    ],
    run,
    replay,
    cap_s: (50, 850),
    shards: 0,
};

pub const ALPHABET: [char; 16] = ['a', '"', '\\', '\n', '\r', '\t', 'é', '😀', ' ', '<', '>', '.', '#', ':', '@', '^'];

/// all strings over ALPHABET of length 0..=maxlen in shortlex order
pub fn all_strings(maxlen: usize) -> Vec<String> {
    let mut out = vec![String::new()];
    let mut layer = vec![String::new()];
    for _ in 0..maxlen {
        let mut next = Vec::with_capacity(layer.len() * ALPHABET.len());
        for s in &layer {
            for c in ALPHABET {
                let mut t = s.clone();
                t.push(c);
                next.push(t);
            }
        }
        out.extend(next.iter().cloned());
        layer = next;
    }
    out
}

/// The quantifier's exclusion: a literal whose lexical form "can be mistaken for an IRI, blank node or
/// quoted triple". Own implementation (RFC 3986 scheme syntax), deliberately the widest of the tests the
/// three writers apply, so that every literal kept is one every writer prints as a literal.
pub fn mistakable(l: &str) -> Option<&'static str> {
    if l.starts_with("<<") {
        return Some("quoted_triple");
    }
    if l.starts_with("_:") {
        return Some("blank_node");
    }
    if let Some((scheme, _)) = l.split_once(':') {
        let mut cs = scheme.chars();
        if cs.next().map_or(false, |c| c.is_ascii_alphabetic()) && cs.all(|c| c.is_ascii_alphanumeric() || c == '+' || c == '-' || c == '.') {
            return Some("iri");
        }
    }
    None
}

#[derive(Clone, Debug, PartialEq, Eq, Hash, PartialOrd, Ord)]
pub enum T {
    Lex(String),
    Q(Box<(T, T, T)>),
}

impl T {
    fn lex(s: &str) -> T {
        T::Lex(s.to_string())
    }
    fn q(s: T, p: T, o: T) -> T {
        T::Q(Box::new((s, p, o)))
    }
    /// lexical form as rendered by Dictionary::decode_term
    pub fn lexical(&self) -> String {
        match self {
            T::Lex(s) => s.clone(),
            T::Q(b) => format!("<< {} {} {} >>", b.0.lexical(), b.1.lexical(), b.2.lexical()),
        }
    }
}

pub type AQuad = (T, T, T, Option<String>);
pub type LexQuad = (String, String, String, Option<String>);

#[derive(Clone, Copy, Debug, PartialEq, Eq, Hash)]
pub enum Context {
    IriSubject,
    BlankSubject,
    QuotedSubject,
    NestedQuotedSubject,
    NamedGraph,
    BlankSubjectBlankGraph,
    QuotedSubjectNamedGraph,
    TwoObjectsTwoPredicates,
    LiteralInsideQuotedSubject,
    DatabaseHasPrefixes,
}

pub const CONTEXTS: [Context; 10] = [
    Context::IriSubject,
    Context::BlankSubject,
    Context::QuotedSubject,
    Context::NestedQuotedSubject,
    Context::NamedGraph,
    Context::BlankSubjectBlankGraph,
    Context::QuotedSubjectNamedGraph,
    Context::TwoObjectsTwoPredicates,
    Context::LiteralInsideQuotedSubject,
    Context::DatabaseHasPrefixes,
];

impl Context {
    fn name(&self) -> String {
        format!("{:?}", self)
    }
    fn parse(s: &str) -> Option<Context> {
        CONTEXTS.iter().copied().find(|c| c.name() == s)
    }
}

#[derive(Clone, Copy, Debug, PartialEq, Eq, Hash)]
pub enum Fmt {
    NQuads,
    NTriples,
    Turtle,
}

pub const FMTS: [Fmt; 3] = [Fmt::NQuads, Fmt::NTriples, Fmt::Turtle];

impl Fmt {
    fn name(&self) -> &'static str {
        match self {
            Fmt::NQuads => "nquads",
            Fmt::NTriples => "ntriples",
            Fmt::Turtle => "turtle",
        }
    }
    fn parse(s: &str) -> Option<Fmt> {
        FMTS.iter().copied().find(|f| f.name() == s)
    }
}

const S: &str = "http://e/s";
const P: &str = "http://e/p";
const P2: &str = "http://e/p2";
const G: &str = "http://e/g1";

/// the abstract dataset for (literal, context)
pub fn dataset(lit: &str, c: Context) -> Vec<AQuad> {
    let l = T::lex(lit);
    let abq = || T::q(T::lex("http://e/a"), T::lex("http://e/q"), T::lex("http://e/b"));
    let mut d: Vec<AQuad> = vec![
        (T::lex("http://e/s0"), T::lex(P), T::lex("http://e/o"), None),
        (T::lex("http://e/s0"), T::lex(P), T::lex("urn:x:y"), None),
    ];
    match c {
        Context::IriSubject | Context::DatabaseHasPrefixes => d.push((T::lex(S), T::lex(P), l, None)),
        Context::BlankSubject => d.push((T::lex("_:b1"), T::lex(P), l, None)),
        Context::QuotedSubject => d.push((abq(), T::lex(P), l, None)),
        Context::NestedQuotedSubject => d.push((T::q(abq(), T::lex("http://e/q"), T::lex("http://e/c")), T::lex(P), l, None)),
        Context::NamedGraph => d.push((T::lex(S), T::lex(P), l, Some(G.to_string()))),
        Context::BlankSubjectBlankGraph => d.push((T::lex("_:b1"), T::lex(P), l, Some("_:g".to_string()))),
        Context::QuotedSubjectNamedGraph => d.push((abq(), T::lex(P), l, Some(G.to_string()))),
        Context::TwoObjectsTwoPredicates => {
            d.push((T::lex(S), T::lex(P), l.clone(), None));
            d.push((T::lex(S), T::lex(P), T::lex("a"), None));
            d.push((T::lex(S), T::lex(P2), l, None));
        }
        Context::LiteralInsideQuotedSubject => d.push((T::q(T::lex("http://e/a"), T::lex("http://e/q"), l), T::lex(P), T::lex("http://e/o"), None)),
    }
    d
}

fn encode(db: &SparqlDatabase, t: &T) -> u32 {
    match t {
        T::Lex(s) => db.dictionary.write().unwrap().encode(s),
        T::Q(b) => {
            let (s, p, o) = (encode(db, &b.0), encode(db, &b.1), encode(db, &b.2));
            db.quoted_triple_store.write().unwrap().encode(s, p, o)
        }
    }
}

/// build the source database without going through any parser
pub fn build(d: &[AQuad], c: Context) -> SparqlDatabase {
    let mut db = SparqlDatabase::new();
    for (s, p, o, g) in d {
        let quad = Quad {
            subject: encode(&db, s),
            predicate: encode(&db, p),
            object: encode(&db, o),
            graph: match g {
                None => GraphId::Default,
                Some(g) => GraphId::Named(db.dictionary.write().unwrap().encode(g)),
            },
        };
        db.add_quad(quad);
    }
    if c == Context::DatabaseHasPrefixes {
        let mut m = HashMap::new();
        m.insert(String::new(), "http://e/".to_string());
        m.insert("a".to_string(), "http://e/a/".to_string());
        db.set_prefixes(m);
    }
    db
}

pub fn observe(db: &SparqlDatabase) -> BTreeSet<LexQuad> {
    let dec = |id: u32| db.decode_any(id).unwrap_or_else(|| format!("\u{0}<undecodable id {}>", id));
    db.dataset_index
        .all_quads()
        .into_iter()
        .map(|q| {
            let g = match q.graph {
                GraphId::Default => None,
                GraphId::Named(n) => Some(dec(n)),
            };
            (dec(q.subject), dec(q.predicate), dec(q.object), g)
        })
        .collect()
}

pub fn expected(d: &[AQuad], f: Fmt) -> BTreeSet<LexQuad> {
    d.iter().filter(|q| f == Fmt::NQuads || q.3.is_none()).map(|(s, p, o, g)| (s.lexical(), p.lexical(), o.lexical(), g.clone())).collect()
}

/// one round trip from scratch: Ok((text, re-imported quads)) or Err(panic message)
pub fn round_trip(d: &[AQuad], c: Context, f: Fmt) -> Result<(String, BTreeSet<LexQuad>), String> {
    guarded(|| {
        let src = build(d, c);
        let text = match f {
            Fmt::NQuads => src.generate_nquads(),
            Fmt::NTriples => src.generate_ntriples(),
            Fmt::Turtle => src.generate_turtle(),
        };
        let mut dst = SparqlDatabase::new();
        match f {
            Fmt::NQuads => dst.parse_nquads_and_add(&text),
            Fmt::NTriples => dst.parse_ntriples_and_add(&text),
            Fmt::Turtle => dst.parse_turtle(&text),
        }
        (text, observe(&dst))
    })
}

/// structural facts about the literal
pub fn literal_tags(l: &str) -> Vec<String> {
    let mut t = Vec::new();
    let edge_ws = l.trim() != l;
    let starts_quote = l.starts_with('"');
    let angle = l.starts_with('<') && l.ends_with('>') && l.len() >= 2;
    let flags: [(bool, &str); 17] = [
        (l.is_empty(), "lit_empty"),
        (edge_ws, "lit_edge_ws"),
        (starts_quote, "lit_starts_quote"),
        (angle, "lit_angle_wrapped"),
        (edge_ws || l.trim().starts_with('"') || (l.trim().starts_with('<') && l.trim().ends_with('>')), "lit_edge_ws_or_starts_quote_or_angle_wrapped"),
        (l.contains('"'), "lit_has_quote"),
        (l.contains('\\'), "lit_has_backslash"),
        (l.contains('\n') || l.contains('\r'), "lit_has_line_break"),
        (l.contains('"') || l.contains('\\') || l.contains('\n') || l.contains('\r'), "lit_needs_escape"),
        (l.contains('\t'), "lit_has_tab"),
        (l.contains(':'), "lit_has_colon"),
        (l.contains('#'), "lit_has_hash"),
        (l.contains('<') || l.contains('>'), "lit_has_angle"),
        (l.contains('@') || l.contains('^'), "lit_has_at_or_caret"),
        (l.contains(' '), "lit_has_space"),
        (l.contains('.'), "lit_has_dot"),
        (!l.is_ascii(), "lit_non_ascii"),
    ];
    for (b, n) in flags {
        if b {
            t.push(n.to_string());
        }
    }
    t
}

fn nontrivial(l: &str) -> bool {
    l.is_empty() || l.chars().any(|c| !matches!(c, 'a' | 'é' | '😀'))
}

fn case_json(l: &str, c: Context, f: Fmt) -> Value {
    json!({"literal": l, "ctx": c.name(), "format": f.name()})
}

fn diff(got: &BTreeSet<LexQuad>, exp: &BTreeSet<LexQuad>) -> String {
    format!("missing {:?}; unexpected {:?}", exp.difference(got).take(3).collect::<Vec<_>>(), got.difference(exp).take(3).collect::<Vec<_>>())
}

/// evaluate one (literal, context, format); returns true when the case passes
fn evaluate(out: &mut ShardOut, l: &str, c: Context, f: Fmt, progress: Option<&crate::infra::quiet::Progress>) -> bool {
    let d = dataset(l, c);
    let case = case_json(l, c, f);
    if let Some(p) = progress {
        p.mark(&case.to_string());
    }
    let exp = expected(&d, f);
    out.evaluations += 1;
    if nontrivial(l) {
        out.nontrivial(&(l, c, f));
    }
    let r = round_trip(&d, c, f);
    let (symptom, detail) = match &r {
        Err(msg) => ("panic", format!("panic during export/import: {}", msg)),
        Ok((text, got)) => {
            out.outcome(&(f, text));
            if got == &exp {
                out.count(&format!("pass.{}", f.name()), 1);
                if out.samples.len() < 4 && l.chars().count() == 3 && l.contains('"') && l.contains('\n') {
                    out.sample(json!({"case": case, "exported_text": text, "reimported_quads": got.len()}));
                }
                return true;
            }
            ("reimport_differs", format!("exported text {:?}; {}", text, diff(got, &exp)))
        }
    };
    // determinism: once more from scratch
    // (the exported TEXT may list the quads in another order — all_quads iterates hash maps — so only the
    // re-imported quad set is compared; a differing quad set on identical input can only come from the
    // subject, whose export order then changes the result: recorded as a failure with its own tag)
    let r2 = round_trip(&d, c, f);
    let same = match (&r, &r2) {
        (Ok(a), Ok(b)) => a.1 == b.1,
        (Err(_), Err(_)) => true,
        _ => false,
    };
    let mut tags = literal_tags(l);
    if !same {
        tags.push("result_depends_on_export_order".into());
        out.count("result_depends_on_export_order", 1);
    }
    tags.push(format!("format={}", f.name()));
    tags.push(format!("ctx={}", c.name()));
    out.count(&format!("failing.{}", f.name()), 1);
    out.count(&format!("failing.{}.{}", f.name(), c.name()), 1);
    if let Ok(path) = std::env::var("VCHECK_C14_DUMP") {
        // triage aid: one JSON line per failing case
        use std::io::Write;
        if let Ok(mut fh) = std::fs::OpenOptions::new().create(true).append(true).open(format!("{}.{}", path, std::process::id())) {
            let _ = writeln!(fh, "{}", json!({"case": case, "tags": tags, "detail": detail}));
        }
    }
    out.fail(case, symptom, detail, tags);
    false
}

fn run(ctx: &Ctx) -> ShardOut {
    let mut out = ShardOut::default();
    let maxlen = if ctx.thorough() { 4 } else { 3 };
    let all = all_strings(maxlen);
    let mut idx = 0u64;
    let mut done = 0u64;
    for l in &all {
        if let Some(why) = mistakable(l) {
            if ctx.shard == 0 {
                out.count(&format!("excluded_mistakable_for_{}", why), 1);
            }
            continue;
        }
        if ctx.shard == 0 {
            out.count("literals_admitted", 1);
        }
        idx += 1;
        if !ctx.mine(idx) {
            continue;
        }
        if ctx.expired() {
            out.capped.push(format!("wall-clock cap: shard {} completed {} literals (shortlex order, so all lengths below the current one are complete)", ctx.shard, done));
            break;
        }
        // validate the construction of the source database once per (literal, context)
        for c in CONTEXTS {
            let d = dataset(l, c);
            match guarded(|| observe(&build(&d, c))) {
                Ok(o) if o == expected(&d, Fmt::NQuads) => {}
                other => {
                    out.machinery_errors.push(format!("source database for literal {:?} ctx {:?} does not decode to the abstract dataset: {:?}", l, c, other));
                    continue;
                }
            }
            for f in FMTS {
                evaluate(&mut out, l, c, f, ctx.progress.as_ref());
            }
        }
        done += 1;
    }
    out
}

fn replay(_ctx: &Ctx, case: &Value) -> ShardOut {
    let mut out = ShardOut::default();
    let parsed = (|| Some((case["literal"].as_str()?.to_string(), Context::parse(case["ctx"].as_str()?)?, Fmt::parse(case["format"].as_str()?)?)))();
    match parsed {
        Some((l, c, f)) => {
            evaluate(&mut out, &l, c, f, None);
        }
        None => out.machinery_errors.push(format!("unreadable C14 case {}", case)),
    }
    out
}
