//! C14 — exported data re-imports to the same dataset.
//! E-in, exhaustive over a character alphabet: every short literal over the delimiter alphabet, in
//! every term context, through every writer/reader pair; plus an IRI-shape family (every IRI of a small
//! alphabet of syntactically valid shapes in every quad position under every prefix-declaration set).
use crate::infra::{guarded, Ctx, PropDef, ShardOut};
use kolibrie::sparql_database::SparqlDatabase;
use serde_json::{json, Value};
use shared::dataset_index::{GraphId, Quad};
use std::collections::{BTreeSet, HashMap};

pub const DEF: PropDef = PropDef {
    id: "C14",
    level: "exploration",
    rule: "FAMILY literal: literals = EVERY string of length <= 3 (thorough: <= 4) over the 22 characters {a \" \\ LF CR TAB é 😀 space < > . # : @ ^ { | } ; , '} (the last six cross parse_turtle's annotation scan `{| |}` and its `;` `,` statement punctuation), including the empty string, plus an explicit list of longer/rarer literals (EXTRA: the control and Unicode-space characters NUL, U+0001, VT, FF, NEL, NBSP, LS alone and beside `a`; annotation look-alikes `{||}`, `a{|a a|}`, `{|a a|}`, `a {| a a |}`, `|}{|`, `{|a`, `a|}`; `'a'`, `'''`), minus the strings the quantifier excludes because a lexical store cannot tell them from another term kind: starts with `<<` (quoted triple), starts with `_:` (blank node), or has the RFC 3986 shape `scheme:` = ALPHA *(ALPHA/DIGIT/+/-/.) followed by `:` (absolute IRI; this is the widest test any writer applies — generate_nquads' looks_like_absolute_iri — so nothing a writer would print as an IRI is kept); each literal as object in 14 contexts {IRI subject, blank-node subject, quoted-triple subject, nested quoted-triple subject, IRI subject in a named graph, blank-node subject in a blank-node-named graph, quoted-triple subject in a named graph, two objects + two predicates of one subject (Turtle `,` and `;`), literal as the object INSIDE a quoted-triple subject, database with declared prefixes `:` and `a:`, literal beside a QUOTED-TRIPLE OBJECT under the same predicate (the reader meets `<< >>` after `,`), literal beside a BLANK-NODE OBJECT, quoted-triple subject with two predicates (`;` after a `<< >>` subject), NESTED quoted-triple object in a named graph and in the default graph}, each dataset also holding an IRI-object and a urn-object triple. FAMILY iri: every IRI of {http://e/a#f, http://e/a?x=1,2;3, http://e/a., http://e/é, mailto:a@b, a:s1, urn:x:y, http://e/a/s1} (all syntactically valid RFC 3986 IRIs: fragment, query with `,` `;` `=`, trailing dot, non-ASCII, non-http schemes, a scheme that EQUALS a declared prefix name) in every quad position {subject, predicate, object, graph name} x declared prefix sets {none; `:`->http://e/ and `a:`->http://e/a/; `urn:`->http://u/ and `mailto:`->http://m/}. Both families: the database is built through Dictionary::encode / QuotedTripleStore::encode / add_quad / set_prefixes only (no parser) and observed once to validate the construction; round trips generate_nquads->parse_nquads_and_add, generate_ntriples->parse_ntriples_and_add, generate_turtle->parse_turtle into a NEW empty database; oracle: lexical quad set (decode_any over all_quads) of the re-imported database = that of the source (N-Quads: all graphs; N-Triples/Turtle: the default graph only). non-trivial (literal family) = the literal is empty or contains a character with a syntactic role (anything but a, é, 😀) AND the quad carrying it is part of what the format exports (named-graph contexts under N-Triples/Turtle only check that nothing of the named graph is exported and are not counted); (iri family) every case; distinct = distinct (literal, context, format) / (iri, position, prefix set, format).",
    assumptions: &[
        "alphabet and length bound as stated; IRIs used in the literal family are http://e/..., urn:x:y; the iri family's IRIs are listed in the rule (all syntactically valid)",
        "source databases are built without any parser (dictionary + quoted-triple store + add_quad) and their observation is checked against the abstract dataset before the round trip (a mismatch is a machinery error)",
        "equality is on lexical quads: Kolibrie stores no term kinds, so an IRI printed as a literal and read back to the same lexical form counts as preserved",
    ],
    run,
    replay,
    cap_s: (50, 850),
    shards: 0,
};

pub const ALPHABET: [char; 22] = ['a', '"', '\\', '\n', '\r', '\t', 'é', '😀', ' ', '<', '>', '.', '#', ':', '@', '^', '{', '|', '}', ';', ',', '\''];

/// all strings over ALPHABET of length 0..=maxlen in shortlex order
pub fn all_strings(maxlen: usize) -> Vec<String> {
    let mut out = vec![String::new()];
    let mut layer = vec![String::new()];
    for _ in 0..maxlen {
        let mut next = Vec::with_capacity(layer.len() * ALPHABET.len());
        for s in &layer {
            for c in ALPHABET {
                let mut t = s.clone();
                t.push(c);
                next.push(t);
            }
        }
        out.extend(next.iter().cloned());
        layer = next;
    }
    out
}

/// literals outside the alphabet/length bound that cross a specific reader branch (see DEF.rule)
pub fn extra_literals() -> Vec<String> {
    let mut v: Vec<String> = Vec::new();
    for c in ['\u{0}', '\u{1}', '\u{b}', '\u{c}', '\u{85}', '\u{a0}', '\u{2028}'] {
        v.push(format!("{}", c));
        v.push(format!("a{}", c));
        v.push(format!("{}a", c));
        v.push(format!("a{}a", c));
    }
    for s in ["{||}", "a{|a a|}", "{|a a|}", "a {| a a |}", "|}{|", "{|a", "a|}", "'a'", "'''"] {
        v.push(s.to_string());
    }
    v
}

/// The quantifier's exclusion: a literal whose lexical form "can be mistaken for an IRI, blank node or
/// quoted triple". Own implementation (RFC 3986 scheme syntax), deliberately the widest of the tests the
/// three writers apply, so that every literal kept is one every writer prints as a literal.
pub fn mistakable(l: &str) -> Option<&'static str> {
    if l.starts_with("<<") {
        return Some("quoted_triple");
    }
    if l.starts_with("_:") {
        return Some("blank_node");
    }
    if let Some((scheme, _)) = l.split_once(':') {
        let mut cs = scheme.chars();
        if cs.next().map_or(false, |c| c.is_ascii_alphabetic()) && cs.all(|c| c.is_ascii_alphanumeric() || c == '+' || c == '-' || c == '.') {
            return Some("iri");
        }
    }
    None
}

#[derive(Clone, Debug, PartialEq, Eq, Hash, PartialOrd, Ord)]
pub enum T {
    Lex(String),
    Q(Box<(T, T, T)>),
}

impl T {
    fn lex(s: &str) -> T {
        T::Lex(s.to_string())
    }
    fn q(s: T, p: T, o: T) -> T {
        T::Q(Box::new((s, p, o)))
    }
    /// lexical form as rendered by Dictionary::decode_term
    pub fn lexical(&self) -> String {
        match self {
            T::Lex(s) => s.clone(),
            T::Q(b) => format!("<< {} {} {} >>", b.0.lexical(), b.1.lexical(), b.2.lexical()),
        }
    }
}

pub type AQuad = (T, T, T, Option<String>);
pub type LexQuad = (String, String, String, Option<String>);

#[derive(Clone, Copy, Debug, PartialEq, Eq, Hash)]
pub enum Context {
    IriSubject,
    BlankSubject,
    QuotedSubject,
    NestedQuotedSubject,
    NamedGraph,
    BlankSubjectBlankGraph,
    QuotedSubjectNamedGraph,
    TwoObjectsTwoPredicates,
    LiteralInsideQuotedSubject,
    DatabaseHasPrefixes,
    QuotedObjectBesideLiteral,
    BlankObjectBesideLiteral,
    QuotedSubjectTwoPredicates,
    NestedQuotedObjectNamedAndDefault,
}

pub const CONTEXTS: [Context; 14] = [
    Context::IriSubject,
    Context::BlankSubject,
    Context::QuotedSubject,
    Context::NestedQuotedSubject,
    Context::NamedGraph,
    Context::BlankSubjectBlankGraph,
    Context::QuotedSubjectNamedGraph,
    Context::TwoObjectsTwoPredicates,
    Context::LiteralInsideQuotedSubject,
    Context::DatabaseHasPrefixes,
    Context::QuotedObjectBesideLiteral,
    Context::BlankObjectBesideLiteral,
    Context::QuotedSubjectTwoPredicates,
    Context::NestedQuotedObjectNamedAndDefault,
];

impl Context {
    fn name(&self) -> String {
        format!("{:?}", self)
    }
    fn parse(s: &str) -> Option<Context> {
        CONTEXTS.iter().copied().find(|c| c.name() == s)
    }
    fn prefixes(&self) -> PrefixSet {
        if *self == Context::DatabaseHasPrefixes {
            PrefixSet::ColonAndA
        } else {
            PrefixSet::None
        }
    }
}

#[derive(Clone, Copy, Debug, PartialEq, Eq, Hash)]
pub enum Fmt {
    NQuads,
    NTriples,
    Turtle,
}

pub const FMTS: [Fmt; 3] = [Fmt::NQuads, Fmt::NTriples, Fmt::Turtle];

impl Fmt {
    fn name(&self) -> &'static str {
        match self {
            Fmt::NQuads => "nquads",
            Fmt::NTriples => "ntriples",
            Fmt::Turtle => "turtle",
        }
    }
    fn parse(s: &str) -> Option<Fmt> {
        FMTS.iter().copied().find(|f| f.name() == s)
    }
}

/// prefix declarations held by the SOURCE database (generate_turtle prints them, parse_turtle reads them back)
#[derive(Clone, Copy, Debug, PartialEq, Eq, Hash)]
pub enum PrefixSet {
    None,
    ColonAndA,
    UrnAndMailto,
}

pub const PREFIX_SETS: [PrefixSet; 3] = [PrefixSet::None, PrefixSet::ColonAndA, PrefixSet::UrnAndMailto];

impl PrefixSet {
    fn name(&self) -> String {
        format!("{:?}", self)
    }
    fn parse(s: &str) -> Option<PrefixSet> {
        PREFIX_SETS.iter().copied().find(|c| c.name() == s)
    }
    fn pairs(&self) -> Vec<(&'static str, &'static str)> {
        match self {
            PrefixSet::None => vec![],
            PrefixSet::ColonAndA => vec![("", "http://e/"), ("a", "http://e/a/")],
            PrefixSet::UrnAndMailto => vec![("urn", "http://u/"), ("mailto", "http://m/")],
        }
    }
}

/// IRI shapes of the iri family (all syntactically valid)
pub const IRIS: [&str; 8] = ["http://e/a#f", "http://e/a?x=1,2;3", "http://e/a.", "http://e/é", "mailto:a@b", "a:s1", "urn:x:y", "http://e/a/s1"];

#[derive(Clone, Copy, Debug, PartialEq, Eq, Hash)]
pub enum Pos {
    S,
    P,
    O,
    G,
}

pub const POSITIONS: [Pos; 4] = [Pos::S, Pos::P, Pos::O, Pos::G];

impl Pos {
    fn name(&self) -> &'static str {
        match self {
            Pos::S => "s",
            Pos::P => "p",
            Pos::O => "o",
            Pos::G => "g",
        }
    }
    fn parse(s: &str) -> Option<Pos> {
        POSITIONS.iter().copied().find(|c| c.name() == s)
    }
}

const S: &str = "http://e/s";
const P: &str = "http://e/p";
const P2: &str = "http://e/p2";
const G: &str = "http://e/g1";

fn base() -> Vec<AQuad> {
    vec![
        (T::lex("http://e/s0"), T::lex(P), T::lex("http://e/o"), None),
        (T::lex("http://e/s0"), T::lex(P), T::lex("urn:x:y"), None),
    ]
}

/// the abstract dataset for (literal, context)
pub fn dataset(lit: &str, c: Context) -> Vec<AQuad> {
    let l = T::lex(lit);
    let abq = || T::q(T::lex("http://e/a"), T::lex("http://e/q"), T::lex("http://e/b"));
    let nested = || T::q(abq(), T::lex("http://e/q"), T::lex("http://e/c"));
    let mut d = base();
    match c {
        Context::IriSubject | Context::DatabaseHasPrefixes => d.push((T::lex(S), T::lex(P), l, None)),
        Context::BlankSubject => d.push((T::lex("_:b1"), T::lex(P), l, None)),
        Context::QuotedSubject => d.push((abq(), T::lex(P), l, None)),
        Context::NestedQuotedSubject => d.push((nested(), T::lex(P), l, None)),
        Context::NamedGraph => d.push((T::lex(S), T::lex(P), l, Some(G.to_string()))),
        Context::BlankSubjectBlankGraph => d.push((T::lex("_:b1"), T::lex(P), l, Some("_:g".to_string()))),
        Context::QuotedSubjectNamedGraph => d.push((abq(), T::lex(P), l, Some(G.to_string()))),
        Context::TwoObjectsTwoPredicates => {
            d.push((T::lex(S), T::lex(P), l.clone(), None));
            d.push((T::lex(S), T::lex(P), T::lex("a"), None));
            d.push((T::lex(S), T::lex(P2), l, None));
        }
        Context::LiteralInsideQuotedSubject => d.push((T::q(T::lex("http://e/a"), T::lex("http://e/q"), l), T::lex(P), T::lex("http://e/o"), None)),
        Context::QuotedObjectBesideLiteral => {
            d.push((T::lex(S), T::lex(P), l, None));
            d.push((T::lex(S), T::lex(P), abq(), None));
        }
        Context::BlankObjectBesideLiteral => {
            d.push((T::lex(S), T::lex(P), l, None));
            d.push((T::lex(S), T::lex(P), T::lex("_:b2"), None));
        }
        Context::QuotedSubjectTwoPredicates => {
            d.push((abq(), T::lex(P), l.clone(), None));
            d.push((abq(), T::lex(P2), l, None));
        }
        Context::NestedQuotedObjectNamedAndDefault => {
            d.push((T::lex(S), T::lex(P), l.clone(), Some(G.to_string())));
            d.push((T::lex(S), T::lex(P), nested(), Some(G.to_string())));
            d.push((T::lex(S), T::lex(P2), nested(), None));
            d.push((T::lex(S), T::lex(P2), l, None));
        }
    }
    d
}

/// does the quad that carries the literal belong to what format `f` exports?
fn literal_exported(c: Context, f: Fmt) -> bool {
    f == Fmt::NQuads || !matches!(c, Context::NamedGraph | Context::BlankSubjectBlankGraph | Context::QuotedSubjectNamedGraph)
}

/// the abstract dataset of the iri family: the IRI `u` in quad position `pos`
pub fn dataset_iri(u: &str, pos: Pos) -> Vec<AQuad> {
    let mut d = base();
    d.push(match pos {
        Pos::S => (T::lex(u), T::lex(P), T::lex("a"), None),
        Pos::P => (T::lex(S), T::lex(u), T::lex("a"), None),
        Pos::O => (T::lex(S), T::lex(P), T::lex(u), None),
        Pos::G => (T::lex(S), T::lex(P), T::lex("a"), Some(u.to_string())),
    });
    d
}

fn encode(db: &SparqlDatabase, t: &T) -> u32 {
    match t {
        T::Lex(s) => db.dictionary.write().unwrap().encode(s),
        T::Q(b) => {
            let (s, p, o) = (encode(db, &b.0), encode(db, &b.1), encode(db, &b.2));
            db.quoted_triple_store.write().unwrap().encode(s, p, o)
        }
    }
}

/// build the source database without going through any parser
pub fn build(d: &[AQuad], prefixes: PrefixSet) -> SparqlDatabase {
    let mut db = SparqlDatabase::new();
    for (s, p, o, g) in d {
        let quad = Quad {
            subject: encode(&db, s),
            predicate: encode(&db, p),
            object: encode(&db, o),
            graph: match g {
                None => GraphId::Default,
                Some(g) => GraphId::Named(db.dictionary.write().unwrap().encode(g)),
            },
        };
        db.add_quad(quad);
    }
    let pairs = prefixes.pairs();
    if !pairs.is_empty() {
        let mut m = HashMap::new();
        for (k, v) in pairs {
            m.insert(k.to_string(), v.to_string());
        }
        db.set_prefixes(m);
    }
    db
}

pub fn observe(db: &SparqlDatabase) -> BTreeSet<LexQuad> {
    let dec = |id: u32| db.decode_any(id).unwrap_or_else(|| format!("\u{0}<undecodable id {}>", id));
    db.dataset_index
        .all_quads()
        .into_iter()
        .map(|q| {
            let g = match q.graph {
                GraphId::Default => None,
                GraphId::Named(n) => Some(dec(n)),
            };
            (dec(q.subject), dec(q.predicate), dec(q.object), g)
        })
        .collect()
}

pub fn expected(d: &[AQuad], f: Fmt) -> BTreeSet<LexQuad> {
    d.iter().filter(|q| f == Fmt::NQuads || q.3.is_none()).map(|(s, p, o, g)| (s.lexical(), p.lexical(), o.lexical(), g.clone())).collect()
}

/// one round trip from scratch: Ok((text, re-imported quads)) or Err(panic message)
pub fn round_trip(d: &[AQuad], prefixes: PrefixSet, f: Fmt) -> Result<(String, BTreeSet<LexQuad>), String> {
    guarded(|| {
        let src = build(d, prefixes);
        let text = match f {
            Fmt::NQuads => src.generate_nquads(),
            Fmt::NTriples => src.generate_ntriples(),
            Fmt::Turtle => src.generate_turtle(),
        };
        let mut dst = SparqlDatabase::new();
        match f {
            Fmt::NQuads => dst.parse_nquads_and_add(&text),
            Fmt::NTriples => dst.parse_ntriples_and_add(&text),
            Fmt::Turtle => dst.parse_turtle(&text),
        }
        (text, observe(&dst))
    })
}

/// structural facts about the literal
pub fn literal_tags(l: &str) -> Vec<String> {
    let mut t = Vec::new();
    let edge_ws = l.trim() != l;
    let starts_quote = l.starts_with('"');
    let angle = l.starts_with('<') && l.ends_with('>') && l.len() >= 2;
    let ann_open = l.contains("{|");
    let ann_close = l.contains("|}");
    let flags: [(bool, &str); 25] = [
        (l.is_empty(), "lit_empty"),
        (edge_ws, "lit_edge_ws"),
        (starts_quote, "lit_starts_quote"),
        (angle, "lit_angle_wrapped"),
        (edge_ws || l.trim().starts_with('"') || (l.trim().starts_with('<') && l.trim().ends_with('>')), "lit_edge_ws_or_starts_quote_or_angle_wrapped"),
        (l.contains('"'), "lit_has_quote"),
        (l.contains('\\'), "lit_has_backslash"),
        (l.contains('\n') || l.contains('\r'), "lit_has_line_break"),
        (l.contains('"') || l.contains('\\') || l.contains('\n') || l.contains('\r'), "lit_needs_escape"),
        (l.contains('\t'), "lit_has_tab"),
        (l.contains(':'), "lit_has_colon"),
        (l.contains('#'), "lit_has_hash"),
        (l.contains('<') || l.contains('>'), "lit_has_angle"),
        (l.contains('@') || l.contains('^'), "lit_has_at_or_caret"),
        (l.contains(' '), "lit_has_space"),
        (l.contains('.'), "lit_has_dot"),
        (!l.is_ascii(), "lit_non_ascii"),
        (l.contains('{') || l.contains('|') || l.contains('}'), "lit_has_brace_or_pipe"),
        (ann_open, "lit_has_annotation_open"),
        (ann_close, "lit_has_annotation_close"),
        (ann_open && ann_close, "lit_has_annotation_open_and_close"),
        (l.contains(';') || l.contains(','), "lit_has_semicolon_or_comma"),
        (l.contains('\''), "lit_has_apostrophe"),
        (l.chars().any(|c| c.is_control() && !matches!(c, '\n' | '\r' | '\t')), "lit_has_other_control"),
        (l.chars().any(|c| c.is_whitespace() && !c.is_ascii()), "lit_has_unicode_space"),
    ];
    for (b, n) in flags {
        if b {
            t.push(n.to_string());
        }
    }
    t
}

/// structural facts about an iri-family case
fn iri_tags(u: &str, pos: Pos, ps: PrefixSet) -> Vec<String> {
    let mut t = vec!["family=iri".to_string(), format!("iri_pos={}", pos.name()), format!("prefixes={}", ps.name())];
    let scheme = u.split_once(':').map(|x| x.0).unwrap_or("");
    let flags: [(bool, &str); 7] = [
        (u.contains('#'), "iri_has_fragment"),
        (u.contains('?') || u.contains(',') || u.contains(';'), "iri_has_query_punctuation"),
        (u.ends_with('.'), "iri_ends_with_dot"),
        (!u.is_ascii(), "iri_non_ascii"),
        (scheme != "http" && scheme != "https", "iri_scheme_not_http"),
        (ps.pairs().iter().any(|(k, _)| *k == scheme), "iri_scheme_is_declared_prefix"),
        (ps != PrefixSet::None, "source_declares_prefixes"),
    ];
    for (b, n) in flags {
        if b {
            t.push(n.to_string());
        }
    }
    t
}

fn nontrivial(l: &str) -> bool {
    l.is_empty() || l.chars().any(|c| !matches!(c, 'a' | 'é' | '😀'))
}

fn case_json(l: &str, c: Context, f: Fmt) -> Value {
    json!({"literal": l, "ctx": c.name(), "format": f.name()})
}

fn diff(got: &BTreeSet<LexQuad>, exp: &BTreeSet<LexQuad>) -> String {
    format!("missing {:?}; unexpected {:?}", exp.difference(got).take(3).collect::<Vec<_>>(), got.difference(exp).take(3).collect::<Vec<_>>())
}

/// the part shared by both families: run the round trip, compare, re-execute, record. `tags` are the
/// structural tags of the case (format added here); returns true when the case passes
#[allow(clippy::too_many_arguments)]
fn judge_round_trip(out: &mut ShardOut, d: &[AQuad], ps: PrefixSet, f: Fmt, case: Value, mut tags: Vec<String>, fail_key: &str, sample_ok: bool) -> bool {
    let exp = expected(d, f);
    let r = round_trip(d, ps, f);
    let (symptom, detail) = match &r {
        Err(msg) => ("panic", format!("panic during export/import: {}", msg)),
        Ok((text, got)) => {
            out.outcome(&(f, text));
            if got == &exp {
                out.count(&format!("pass.{}", f.name()), 1);
                if sample_ok && out.samples.len() < 4 {
                    out.sample(json!({"case": case, "exported_text": text, "reimported_quads": got.len()}));
                }
                return true;
            }
            ("reimport_differs", format!("exported text {:?}; {}", text, diff(got, &exp)))
        }
    };
    // determinism: once more from scratch
    // (the exported TEXT may list the quads in another order — all_quads iterates hash maps — so only the
    // re-imported quad set is compared; a differing quad set on identical input can only come from the
    // subject, whose export order then changes the result: recorded as a failure with its own tag)
    let r2 = round_trip(d, ps, f);
    let same = match (&r, &r2) {
        (Ok(a), Ok(b)) => a.1 == b.1,
        (Err(_), Err(_)) => true,
        _ => false,
    };
    if !same {
        tags.push("result_depends_on_export_order".into());
        out.count("result_depends_on_export_order", 1);
    }
    tags.push(format!("format={}", f.name()));
    out.count(&format!("failing.{}", f.name()), 1);
    out.count(&format!("failing.{}.{}", f.name(), fail_key), 1);
    if let Ok(path) = std::env::var("VCHECK_C14_DUMP") {
        // triage aid: one JSON line per failing case
        use std::io::Write;
        if let Ok(mut fh) = std::fs::OpenOptions::new().create(true).append(true).open(format!("{}.{}", path, std::process::id())) {
            let _ = writeln!(fh, "{}", json!({"case": case, "symptom": symptom, "tags": tags, "detail": detail}));
        }
    }
    out.fail(case, symptom, detail, tags);
    false
}

/// evaluate one (literal, context, format); returns true when the case passes
fn evaluate(out: &mut ShardOut, l: &str, c: Context, f: Fmt, progress: Option<&crate::infra::quiet::Progress>) -> bool {
    let d = dataset(l, c);
    let case = case_json(l, c, f);
    if let Some(p) = progress {
        p.mark(&case.to_string());
    }
    out.evaluations += 1;
    if nontrivial(l) && literal_exported(c, f) {
        out.nontrivial(&(l, c, f));
    }
    if !literal_exported(c, f) {
        out.count("literal_quad_in_named_graph_not_exported_by_format", 1);
    }
    // vacuity counters of the reader branches the alphabet is meant to cross
    if f == Fmt::Turtle && literal_exported(c, f) {
        if l.contains("{|") {
            out.count("turtle_literal_with_annotation_open", 1);
        }
        if l.contains(';') || l.contains(',') {
            out.count("turtle_literal_with_statement_punctuation", 1);
        }
    }
    let mut tags = literal_tags(l);
    tags.push(format!("ctx={}", c.name()));
    let sample_ok = l.chars().count() == 3 && l.contains('"') && l.contains('\n');
    judge_round_trip(out, &d, c.prefixes(), f, case, tags, &c.name(), sample_ok)
}

fn iri_case_json(u: &str, pos: Pos, ps: PrefixSet, f: Fmt) -> Value {
    json!({"family": "iri", "iri": u, "pos": pos.name(), "prefixes": ps.name(), "format": f.name()})
}

/// evaluate one iri-family case
fn evaluate_iri(out: &mut ShardOut, u: &str, pos: Pos, ps: PrefixSet, f: Fmt, progress: Option<&crate::infra::quiet::Progress>) -> bool {
    let d = dataset_iri(u, pos);
    let case = iri_case_json(u, pos, ps, f);
    if let Some(p) = progress {
        p.mark(&case.to_string());
    }
    out.evaluations += 1;
    out.nontrivial(&("iri", u, pos, ps, f));
    out.count("iri_family_cases", 1);
    let tags = iri_tags(u, pos, ps);
    if tags.iter().any(|t| t == "iri_scheme_is_declared_prefix") {
        out.count("iri_family_scheme_equals_declared_prefix", 1);
    }
    judge_round_trip(out, &d, ps, f, case, tags, &format!("iri_{}", pos.name()), pos == Pos::S && ps != PrefixSet::None)
}

/// validate the construction of a source database; false = machinery error recorded
fn construction_ok(out: &mut ShardOut, d: &[AQuad], ps: PrefixSet, what: &str) -> bool {
    match guarded(|| observe(&build(d, ps))) {
        Ok(o) if o == expected(d, Fmt::NQuads) => true,
        other => {
            out.machinery_errors.push(format!("source database for {} does not decode to the abstract dataset: {:?}", what, other));
            false
        }
    }
}

fn run(ctx: &Ctx) -> ShardOut {
    let mut out = ShardOut::default();
    let maxlen = if ctx.thorough() { 4 } else { 3 };
    let mut all = all_strings(maxlen);
    let in_bound = all.len();
    for e in extra_literals() {
        if !all.contains(&e) {
            all.push(e);
        }
    }
    let mut idx = 0u64;
    let mut done = 0u64;
    // iri family first (small): one case per (iri, position, prefix set, format)
    for u in IRIS {
        for pos in POSITIONS {
            for ps in PREFIX_SETS {
                idx += 1;
                if !ctx.mine(idx) {
                    continue;
                }
                let d = dataset_iri(u, pos);
                if !construction_ok(&mut out, &d, ps, &format!("iri {:?} at {:?} prefixes {:?}", u, pos, ps)) {
                    continue;
                }
                for f in FMTS {
                    evaluate_iri(&mut out, u, pos, ps, f, ctx.progress.as_ref());
                }
            }
        }
    }
    for (k, l) in all.iter().enumerate() {
        if let Some(why) = mistakable(l) {
            if ctx.shard == 0 {
                out.count(&format!("excluded_mistakable_for_{}", why), 1);
            }
            continue;
        }
        if ctx.shard == 0 {
            out.count("literals_admitted", 1);
            if k >= in_bound {
                out.count("literals_admitted_extra_list", 1);
            }
        }
        idx += 1;
        if !ctx.mine(idx) {
            continue;
        }
        if ctx.expired() {
            out.capped.push(format!("wall-clock cap: shard {} completed {} literals (shortlex order, so all lengths below the current one are complete)", ctx.shard, done));
            break;
        }
        // validate the construction of the source database once per (literal, context)
        for c in CONTEXTS {
            let d = dataset(l, c);
            if !construction_ok(&mut out, &d, c.prefixes(), &format!("literal {:?} ctx {:?}", l, c)) {
                continue;
            }
            for f in FMTS {
                evaluate(&mut out, l, c, f, ctx.progress.as_ref());
            }
        }
        done += 1;
    }
    out
}

fn replay(_ctx: &Ctx, case: &Value) -> ShardOut {
    let mut out = ShardOut::default();
    if case.get("family").and_then(|v| v.as_str()) == Some("iri") {
        let parsed = (|| Some((case["iri"].as_str()?.to_string(), Pos::parse(case["pos"].as_str()?)?, PrefixSet::parse(case["prefixes"].as_str()?)?, Fmt::parse(case["format"].as_str()?)?)))();
        match parsed {
            Some((u, pos, ps, f)) => {
                evaluate_iri(&mut out, &u, pos, ps, f, None);
            }
            None => out.machinery_errors.push(format!("unreadable C14 iri case {}", case)),
        }
        return out;
    }
    let parsed = (|| Some((case["literal"].as_str()?.to_string(), Context::parse(case["ctx"].as_str()?)?, Fmt::parse(case["format"].as_str()?)?)))();
    match parsed {
        Some((l, c, f)) => {
            evaluate(&mut out, &l, c, f, None);
        }
        None => out.machinery_errors.push(format!("unreadable C14 case {}", case)),
    }
    out
}
