//! C11 — multi-window results are joins of what each window itself reported.
//! E-in over pairs of in-order streams (every interleaving) on real two-window RSP engines
//! (SingleThread; policies Wait and Steal; with and without static data; window blocks sharing or
//! not sharing vocabulary), oracle = per-window probe windows + BGP evaluation.
use crate::explore::sched;
use crate::infra::{guarded, Ctx, PropDef, ShardOut};
use crate::reference::sparql_ast::*;
use crate::reference::sparql_eval::{eval_group, Dataset, View};
use kolibrie::rsp::s2r::{CSPARQLWindow, ContentContainer, Report, ReportStrategy, Tick};
use kolibrie::rsp_engine::{OperationMode, QueryExecutionMode, RSPBuilder, RSPEngine, ResultConsumer, SimpleR2R};
use serde_json::{json, Value};
use shared::query::{Fallback, SyncPolicy};
use shared::triple::Triple;
use std::collections::{BTreeMap, BTreeSet};
use std::sync::{Arc, Mutex};

pub const DEF: PropDef = PropDef {
    id: "C11",
    level: "exploration",
    rule: "single-thread cases = (vocabulary variant, window parameters, sync policy, static data yes/no, two in-order streams, interleaving): two-window engines built with RSPBuilder in SingleThread mode; variants: both blocks over the same predicate (shared vocabulary), disjoint predicates, blocks sharing a join variable, blocks joining on TWO variables over prefix-related literal values (value pairs that differ while their concatenations coincide, events carrying two triples), and a static part joining with a block on two variables; (width,slide) of each window from {(2,1),(2,2)}; policies Wait and Steal; static background data (a triple over the same predicate) present or not, with a static pattern in the WHERE clause; streams of <=3 items each over a 2-triple alphabet per stream with gaps {1} (thorough {1,2}); EVERY interleaving of the two streams. Oracle, per emitted row and per window i: the row restricted to block i's variables must be an answer of block i over SOME content that a probe window with window i's parameters, fed only stream i, has reported so far; the restriction to the static variables must be an answer over the static data alone. A failing row is tagged explained_by=other_windows_content_visible when it becomes an answer once the contents reported by the OTHER window (or the static data) are added to window i's content - the shared-store defect - and explained_by=nothing otherwise. Multi-thread family (hook H1 baton scheduler with one worker per window and the coordinator thread, channels named per window plus the results channel, deadline expiry of the coordinator's timed receive enumerated as a scheduling choice): disjoint-, two-join-variable and shared-vocabulary variants x policies {Wait, Steal, Timeout+Steal, Timeout+Drop} x every interleaving of two streams of <=2 items each (quick: <=3 items in total) under EVERY schedule with <=1 (thorough 2) preemptions; every emitted row must bind the variables of both blocks and each block part must be an answer over a content its own window reports. Non-trivial = single-thread case in which both windows reported a non-empty content, multi-thread case that emits rows; distinct by case.",
    assumptions: &[
        "stop()'s flush is excluded (engines are dropped); multi-thread scheduling points: channel sends/receives, thread start/end, after each window processor, the coordinator's timed receive (deadline expiry is a choice), no points inside mutexes",
        "the probe windows are real CSPARQLWindows (C09's subject)",
        "'reported so far' is taken generously (any content the probe reported up to and including the current stream item), so the oracle is not stricter than the statement",
    ],
    run,
    replay,
    cap_s: (55, 900),
    shards: 0,
};

const E: &str = "http://e/";

fn iri(l: &str) -> String {
    format!("{}{}", E, l)
}
fn v(n: &str) -> T {
    T::var(n)
}
fn c(l: &str) -> T {
    T::iri(&iri(l))
}

#[derive(Clone, Debug)]
pub struct Variant {
    pub name: &'static str,
    pub block1: Vec<TP>,
    pub block2: Vec<TP>,
    /// stream alphabets: one event = the triples that arrive together under one timestamp
    pub alpha1: Vec<Vec<(String, String, String)>>,
    pub alpha2: Vec<Vec<(String, String, String)>>,
    pub static_pattern: Vec<TP>,
    pub static_data: Vec<(String, String, String)>,
    /// objects are plain literals (lexical form = the string itself) instead of IRIs
    pub literal_objects: bool,
}

fn t3(s: &str, p: &str, o: &str) -> (String, String, String) {
    (iri(s), iri(p), iri(o))
}
fn e1(s: &str, p: &str, o: &str) -> Vec<(String, String, String)> {
    vec![t3(s, p, o)]
}
/// event carrying two literal-valued triples of one subject
fn e2(s: &str, p1: &str, o1: &str, p2: &str, o2: &str) -> Vec<(String, String, String)> {
    vec![(iri(s), iri(p1), o1.to_string()), (iri(s), iri(p2), o2.to_string())]
}

pub fn variants() -> Vec<Variant> {
    vec![
        Variant {
            name: "shared_vocabulary",
            block1: vec![tp(v("a"), c("p"), v("b"))],
            block2: vec![tp(v("c"), c("p"), v("d"))],
            alpha1: vec![e1("x1", "p", "y1"), e1("x2", "p", "y1")],
            alpha2: vec![e1("u1", "p", "v1"), e1("u2", "p", "v1")],
            static_pattern: vec![tp(v("m"), c("p"), v("n"))],
            static_data: vec![t3("k1", "p", "k2")],
            literal_objects: false,
        },
        Variant {
            name: "disjoint_vocabulary",
            block1: vec![tp(v("a"), c("p"), v("b"))],
            block2: vec![tp(v("c"), c("q"), v("d"))],
            alpha1: vec![e1("x1", "p", "y1"), e1("x2", "p", "y1")],
            alpha2: vec![e1("u1", "q", "v1"), e1("u2", "q", "v1")],
            static_pattern: vec![tp(v("m"), c("r"), v("n"))],
            static_data: vec![t3("k1", "r", "k2")],
            literal_objects: false,
        },
        Variant {
            name: "join_variable_shared_vocabulary",
            block1: vec![tp(v("a"), c("p"), v("j"))],
            block2: vec![tp(v("j"), c("p"), v("d"))],
            alpha1: vec![e1("x1", "p", "y1"), e1("y1", "p", "z1")],
            alpha2: vec![e1("y1", "p", "z1"), e1("z1", "p", "x1")],
            static_pattern: vec![tp(v("m"), c("p"), v("n"))],
            static_data: vec![t3("z1", "p", "k2")],
            literal_objects: false,
        },
        // two join variables over literal values chosen so that the value pairs differ but their
        // concatenations coincide ("1"+"23" = "12"+"3"): a join keyed on anything coarser than the
        // pair of values merges rows that do not agree. Events x1/u2 and x2/u1 genuinely join.
        Variant {
            name: "two_join_variables_prefix_related_values",
            block1: vec![tp(v("a"), c("p"), v("j")), tp(v("a"), c("q"), v("k"))],
            block2: vec![tp(v("d"), c("r"), v("j")), tp(v("d"), c("s"), v("k"))],
            alpha1: vec![e2("x1", "p", "1", "q", "23"), e2("x2", "p", "12", "q", "3")],
            alpha2: vec![e2("u1", "r", "12", "s", "3"), e2("u2", "r", "1", "s", "23")],
            static_pattern: vec![tp(v("m"), c("t"), v("n"))],
            static_data: vec![(iri("k1"), iri("t"), "7".to_string())],
            literal_objects: true,
        },
        // the static part joins with a window block on two variables (same value design)
        Variant {
            name: "static_join_on_two_variables",
            block1: vec![tp(v("a"), c("p"), v("j")), tp(v("a"), c("q"), v("k"))],
            block2: vec![tp(v("c"), c("r"), v("d"))],
            alpha1: vec![e2("x1", "p", "1", "q", "23"), e2("x2", "p", "12", "q", "3")],
            alpha2: vec![e1("u1", "r", "v1"), e1("u2", "r", "v1")],
            static_pattern: vec![tp(v("m"), c("t"), v("j")), tp(v("m"), c("u"), v("k"))],
            static_data: vec![(iri("k1"), iri("t"), "12".to_string()), (iri("k1"), iri("u"), "3".to_string())],
            literal_objects: true,
        },
    ]
}

pub const WIN: [(usize, usize); 2] = [(2, 1), (2, 2)];

fn pat(ts: &[TP]) -> String {
    ts.iter().map(|t| format!("{} {} {} .", print_term(&t.s), print_term(&t.p), print_term(&t.o))).collect::<Vec<_>>().join(" ")
}

fn line(t: &(String, String, String)) -> String {
    if t.2.starts_with("http://") {
        format!("<{}> <{}> <{}> .", t.0, t.1, t.2)
    } else {
        format!("<{}> <{}> \"{}\" .", t.0, t.1, t.2)
    }
}

pub type Row = Vec<(String, String)>;
/// (stream 0|1, alphabet index, timestamp)
pub type Feed = Vec<(usize, usize, usize)>;

#[derive(Clone, Debug)]
pub struct Case {
    pub variant: usize,
    pub w1: (usize, usize),
    pub w2: (usize, usize),
    pub steal: bool,
    pub with_static: bool,
    pub feed: Feed,
}

fn build(case: &Case, var: &Variant) -> Result<(RSPEngine<Triple, Row>, Arc<Mutex<Vec<Row>>>), String> {
    let sink: Arc<Mutex<Vec<Row>>> = Arc::new(Mutex::new(Vec::new()));
    let s2 = Arc::clone(&sink);
    let consumer = ResultConsumer {
        function: Arc::new(move |r: Row| {
            s2.lock().unwrap().push(r);
        }),
    };
    let static_part = if case.with_static { pat(&var.static_pattern) } else { String::new() };
    let q = format!(
        "REGISTER RSTREAM <http://out/stream> AS SELECT * FROM NAMED WINDOW :w1 ON :s1 [RANGE {} STEP {}] FROM NAMED WINDOW :w2 ON :s2 [RANGE {} STEP {}] WHERE {{ WINDOW :w1 {{ {} }} WINDOW :w2 {{ {} }} {} }}",
        case.w1.0,
        case.w1.1,
        case.w2.0,
        case.w2.1,
        pat(&var.block1),
        pat(&var.block2),
        static_part
    );
    let q: &'static str = Box::leak(q.into_boxed_str());
    let r2r = Box::new(SimpleR2R::with_execution_mode(QueryExecutionMode::Volcano));
    let mut engine = RSPBuilder::new()
        .add_rsp_ql_query(q)
        .add_consumer(consumer)
        .add_r2r(r2r)
        .set_operation_mode(OperationMode::SingleThread)
        .set_sync_policy(if case.steal { SyncPolicy::Steal } else { SyncPolicy::Wait })
        .build()?;
    if case.with_static {
        let data: String = var.static_data.iter().map(|t| line(t) + "\n").collect();
        engine.add_static_ntriples(&data);
    }
    Ok((engine, sink))
}

fn norm(r: &Row) -> BTreeMap<String, String> {
    r.iter().map(|(k, v)| (k.trim_start_matches('?').to_string(), v.trim_start_matches('<').trim_end_matches('>').trim_matches('"').to_string())).collect()
}

fn probe(w: (usize, usize)) -> (CSPARQLWindow<usize>, Arc<Mutex<Vec<BTreeSet<usize>>>>) {
    let mut report = Report::new();
    report.add(ReportStrategy::OnWindowClose);
    let mut win: CSPARQLWindow<usize> = CSPARQLWindow::new(w.0, w.1, report, Tick::TimeDriven, "probe".to_string());
    let sink: Arc<Mutex<Vec<BTreeSet<usize>>>> = Arc::new(Mutex::new(Vec::new()));
    let s2 = Arc::clone(&sink);
    win.register_callback(Box::new(move |cc: ContentContainer<usize>| {
        s2.lock().unwrap().push(cc.iter().cloned().collect());
    }));
    (win, sink)
}

fn answers(block: &[TP], facts: &BTreeSet<(String, String, String)>) -> BTreeSet<BTreeMap<String, String>> {
    let mut ds = Dataset::default();
    ds.default = facts.clone();
    let view = View::of(&ds, &[], &[]);
    eval_group(&Group(vec![Elem::Triples(block.to_vec())]), &view, None).unwrap_or_default().into_iter().collect()
}

fn block_vars(block: &[TP]) -> BTreeSet<String> {
    let mut s = BTreeSet::new();
    for t in block {
        for x in [&t.s, &t.p, &t.o] {
            if let T::Var(n) = x {
                s.insert(n.clone());
            }
        }
    }
    s
}

pub struct Verdict {
    pub symptom: &'static str,
    pub detail: String,
    pub explained: bool,
}

/// Execute one case; returns (verdicts, both windows reported non-empty content, rows emitted)
pub fn execute(case: &Case) -> Result<(Vec<Verdict>, bool, usize), String> {
    let vars = variants();
    let var = &vars[case.variant];
    let (mut engine, sink) = build(case, var)?;
    let tr1: Vec<Vec<Triple>> = var.alpha1.iter().map(|ev| ev.iter().flat_map(|t| engine.parse_data(&line(t))).collect()).collect();
    let tr2: Vec<Vec<Triple>> = var.alpha2.iter().map(|ev| ev.iter().flat_map(|t| engine.parse_data(&line(t))).collect()).collect();
    let (mut p1, c1) = probe(case.w1);
    let (mut p2, c2) = probe(case.w2);
    let static_facts: BTreeSet<(String, String, String)> = if case.with_static { var.static_data.iter().cloned().collect() } else { BTreeSet::new() };
    let mut verdicts = Vec::new();
    let mut seen_rows = 0usize;
    let (v1, v2) = (block_vars(&var.block1), block_vars(&var.block2));
    let vs = block_vars(&var.static_pattern);
    for (stream, ai, ts) in &case.feed {
        if *stream == 0 {
            for t in &tr1[*ai] {
                engine.add_to_stream(":s1", t.clone(), *ts);
            }
            p1.add_to_window(*ai, *ts);
        } else {
            for t in &tr2[*ai] {
                engine.add_to_stream(":s2", t.clone(), *ts);
            }
            p2.add_to_window(*ai, *ts);
        }
        let rows: Vec<BTreeMap<String, String>> = sink.lock().unwrap().iter().skip(seen_rows).map(norm).collect();
        seen_rows += rows.len();
        if rows.is_empty() {
            continue;
        }
        let contents1: Vec<BTreeSet<(String, String, String)>> = c1.lock().unwrap().iter().map(|s| s.iter().flat_map(|i| var.alpha1[*i].iter().cloned()).collect()).collect();
        let contents2: Vec<BTreeSet<(String, String, String)>> = c2.lock().unwrap().iter().map(|s| s.iter().flat_map(|i| var.alpha2[*i].iter().cloned()).collect()).collect();
        let all1: BTreeSet<_> = contents1.iter().flatten().cloned().collect();
        let all2: BTreeSet<_> = contents2.iter().flatten().cloned().collect();
        for row in &rows {
            for (wi, (block, bv, own, other)) in [(&var.block1, &v1, &contents1, &all2), (&var.block2, &v2, &contents2, &all1)].into_iter().enumerate() {
                let part: BTreeMap<String, String> = row.iter().filter(|(k, _)| bv.contains(*k)).map(|(k, v)| (k.clone(), v.clone())).collect();
                if part.len() != bv.len() {
                    verdicts.push(Verdict { symptom: "row_misses_block_variable", detail: format!("row {:?} does not bind all variables {:?} of window block {}", row, bv, wi + 1), explained: false });
                    continue;
                }
                let ok = own.iter().any(|content| answers(block, content).contains(&part));
                if !ok {
                    // would it be an answer if the other window's items / the static data were visible?
                    let mut widened: BTreeSet<(String, String, String)> = own.iter().flatten().cloned().collect();
                    widened.extend(other.iter().cloned());
                    widened.extend(static_facts.iter().cloned());
                    let explained = answers(block, &widened).contains(&part);
                    verdicts.push(Verdict {
                        symptom: "block_answer_not_from_own_window",
                        detail: format!("emitted row {:?}: its part {:?} for WINDOW block {} is not an answer over any content window {} reported so far ({:?}); other window's items {:?}", row, part, wi + 1, wi + 1, own, other),
                        explained,
                    });
                }
            }
            if case.with_static {
                let part: BTreeMap<String, String> = row.iter().filter(|(k, _)| vs.contains(*k)).map(|(k, v)| (k.clone(), v.clone())).collect();
                if part.len() != vs.len() || !answers(&var.static_pattern, &static_facts).contains(&part) {
                    let mut widened = static_facts.clone();
                    widened.extend(all1.iter().cloned());
                    widened.extend(all2.iter().cloned());
                    let explained = part.len() == vs.len() && answers(&var.static_pattern, &widened).contains(&part);
                    verdicts.push(Verdict { symptom: "static_part_not_from_static_data", detail: format!("emitted row {:?}: static part {:?} is not an answer over the static data {:?}", row, part, static_facts), explained });
                }
            }
        }
    }
    let both = c1.lock().unwrap().iter().any(|s| !s.is_empty()) && c2.lock().unwrap().iter().any(|s| !s.is_empty());
    drop(engine);
    Ok((verdicts, both, seen_rows))
}

/// all in-order item sequences of one stream with length <= maxlen: (alphabet index, timestamp)
fn stream_seqs(maxlen: usize, gaps: &[usize]) -> Vec<Vec<(usize, usize)>> {
    let mut out = vec![vec![]];
    let mut level: Vec<Vec<(usize, usize)>> = vec![vec![]];
    for _ in 0..maxlen {
        let mut next = Vec::new();
        for s in &level {
            let last = s.last().map_or(0, |x| x.1);
            for ai in 0..2 {
                for &gap in gaps {
                    let mut n = s.clone();
                    n.push((ai, last + gap));
                    next.push(n);
                }
            }
        }
        out.extend(next.iter().cloned());
        level = next;
    }
    out
}

fn interleavings(a: &[(usize, usize)], b: &[(usize, usize)]) -> Vec<Feed> {
    fn rec(a: &[(usize, usize)], b: &[(usize, usize)], cur: &mut Feed, out: &mut Vec<Feed>) {
        if a.is_empty() && b.is_empty() {
            out.push(cur.clone());
            return;
        }
        if let Some((x, rest)) = a.split_first() {
            cur.push((0, x.0, x.1));
            rec(rest, b, cur, out);
            cur.pop();
        }
        if let Some((x, rest)) = b.split_first() {
            cur.push((1, x.0, x.1));
            rec(a, rest, cur, out);
            cur.pop();
        }
    }
    let mut out = Vec::new();
    rec(a, b, &mut Vec::new(), &mut out);
    out
}

fn case_json(c: &Case) -> Value {
    json!({"variant": variants()[c.variant].name, "w1": [c.w1.0, c.w1.1], "w2": [c.w2.0, c.w2.1], "policy": if c.steal { "steal" } else { "wait" }, "static": c.with_static, "feed": c.feed})
}

fn record(out: &mut ShardOut, case: &Case) {
    out.evaluations += 1;
    let res = guarded(|| execute(case));
    let (verdicts, both, rows) = match res {
        Err(p) => {
            out.fail(case_json(case), "panic", p, vec![format!("variant={}", variants()[case.variant].name)]);
            return;
        }
        Ok(Err(e)) => {
            out.machinery_errors.push(format!("engine build failed: {}", e));
            return;
        }
        Ok(Ok(x)) => x,
    };
    if both {
        out.nontrivial(&format!("{:?}", case));
    }
    out.outcome(&(rows, verdicts.len()));
    out.count("rows_emitted", rows as u64);
    out.count(&format!("rows_emitted:{}", variants()[case.variant].name), rows as u64);
    for vd in verdicts {
        let tags = vec![
            format!("variant={}", variants()[case.variant].name),
            format!("policy={}", if case.steal { "steal" } else { "wait" }),
            format!("static={}", case.with_static),
            format!("explained_by={}", if vd.explained { "other_windows_content_visible" } else { "nothing" }),
        ];
        out.fail(case_json(case), vd.symptom, vd.detail, tags);
    }
}


// --- MultiThread mode under the baton scheduler (hook H1): worker per window + coordinator ---------

#[derive(Clone, Copy, Debug, PartialEq, Eq)]
pub enum MtPolicy {
    Wait,
    Steal,
    TimeoutSteal,
    TimeoutDrop,
}

pub const MT_POLICIES: [MtPolicy; 4] = [MtPolicy::Wait, MtPolicy::Steal, MtPolicy::TimeoutSteal, MtPolicy::TimeoutDrop];

impl MtPolicy {
    fn name(&self) -> &'static str {
        match self {
            MtPolicy::Wait => "wait",
            MtPolicy::Steal => "steal",
            MtPolicy::TimeoutSteal => "timeout_steal",
            MtPolicy::TimeoutDrop => "timeout_drop",
        }
    }
    fn sync(&self) -> SyncPolicy {
        // the real duration is irrelevant under the scheduler: the timeout seam decides when it fires
        let d = std::time::Duration::from_millis(50);
        match self {
            MtPolicy::Wait => SyncPolicy::Wait,
            MtPolicy::Steal => SyncPolicy::Steal,
            MtPolicy::TimeoutSteal => SyncPolicy::Timeout { duration: d, fallback: Fallback::Steal },
            MtPolicy::TimeoutDrop => SyncPolicy::Timeout { duration: d, fallback: Fallback::Drop },
        }
    }
}

fn build_mt(variant: &Variant, w1: (usize, usize), w2: (usize, usize), policy: MtPolicy) -> Result<(RSPEngine<Triple, Row>, Arc<Mutex<Vec<Row>>>), String> {
    let sink: Arc<Mutex<Vec<Row>>> = Arc::new(Mutex::new(Vec::new()));
    let s2 = Arc::clone(&sink);
    let consumer = ResultConsumer {
        function: Arc::new(move |r: Row| {
            s2.lock().unwrap().push(r);
        }),
    };
    let q = format!(
        "REGISTER RSTREAM <http://out/stream> AS SELECT * FROM NAMED WINDOW :w1 ON :s1 [RANGE {} STEP {}] FROM NAMED WINDOW :w2 ON :s2 [RANGE {} STEP {}] WHERE {{ WINDOW :w1 {{ {} }} WINDOW :w2 {{ {} }} }}",
        w1.0,
        w1.1,
        w2.0,
        w2.1,
        pat(&variant.block1),
        pat(&variant.block2)
    );
    let q: &'static str = Box::leak(q.into_boxed_str());
    let r2r = Box::new(SimpleR2R::with_execution_mode(QueryExecutionMode::Volcano));
    let engine = RSPBuilder::new().add_rsp_ql_query(q).add_consumer(consumer).add_r2r(r2r).set_operation_mode(OperationMode::MultiThread).set_sync_policy(policy.sync()).build()?;
    Ok((engine, sink))
}

/// one execution under a schedule prefix; returns the emitted rows and the trace
fn run_mt(variant: usize, w1: (usize, usize), w2: (usize, usize), policy: MtPolicy, feed: &Feed, prefix: &[usize]) -> Result<(Vec<BTreeMap<String, String>>, sched::Trace), String> {
    let var = variants()[variant].clone();
    let feed2 = feed.clone();
    let rows_out: Arc<Mutex<Vec<BTreeMap<String, String>>>> = Arc::new(Mutex::new(Vec::new()));
    let ro = Arc::clone(&rows_out);
    let trace = sched::run_controlled(prefix, move || {
        let (mut engine, sink) = build_mt(&var, w1, w2, policy).expect("engine build");
        let tr1: Vec<Vec<Triple>> = var.alpha1.iter().map(|ev| ev.iter().flat_map(|t| engine.parse_data(&line(t))).collect()).collect();
        let tr2: Vec<Vec<Triple>> = var.alpha2.iter().map(|ev| ev.iter().flat_map(|t| engine.parse_data(&line(t))).collect()).collect();
        for (stream, ai, ts) in &feed2 {
            let (name, trs) = if *stream == 0 { (":s1", &tr1) } else { (":s2", &tr2) };
            for t in &trs[*ai] {
                engine.add_to_stream(name, t.clone(), *ts);
            }
        }
        sched::main_wait_quiescent();
        *ro.lock().unwrap() = sink.lock().unwrap().iter().map(norm).collect();
        drop(engine);
    })?;
    let rows = rows_out.lock().unwrap().clone();
    Ok((rows, trace))
}

fn mt_case_json(variant: usize, w1: (usize, usize), w2: (usize, usize), policy: MtPolicy, feed: &Feed, schedule: &[usize]) -> Value {
    json!({"mode": "multi", "variant": variants()[variant].name, "w1": [w1.0, w1.1], "w2": [w2.0, w2.1], "policy": policy.name(), "feed": feed, "schedule": schedule})
}

/// oracle for one multi-thread execution: every emitted row binds all variables of both blocks and
/// each block part is an answer over some content the probe window of that block reports over
/// the whole feed (generous: the interleaving of worker progress with the feed is schedule-dependent)
fn mt_verdicts(variant: usize, w1: (usize, usize), w2: (usize, usize), feed: &Feed, rows: &[BTreeMap<String, String>]) -> Vec<Verdict> {
    let vars = variants();
    let var = &vars[variant];
    let (mut p1, c1) = probe(w1);
    let (mut p2, c2) = probe(w2);
    for (stream, ai, ts) in feed {
        if *stream == 0 {
            p1.add_to_window(*ai, *ts);
        } else {
            p2.add_to_window(*ai, *ts);
        }
    }
    let contents1: Vec<BTreeSet<(String, String, String)>> = c1.lock().unwrap().iter().map(|s| s.iter().flat_map(|i| var.alpha1[*i].iter().cloned()).collect()).collect();
    let contents2: Vec<BTreeSet<(String, String, String)>> = c2.lock().unwrap().iter().map(|s| s.iter().flat_map(|i| var.alpha2[*i].iter().cloned()).collect()).collect();
    let all1: BTreeSet<_> = contents1.iter().flatten().cloned().collect();
    let all2: BTreeSet<_> = contents2.iter().flatten().cloned().collect();
    let (v1, v2) = (block_vars(&var.block1), block_vars(&var.block2));
    let mut out = Vec::new();
    for row in rows {
        for (wi, (block, bv, own, other)) in [(&var.block1, &v1, &contents1, &all2), (&var.block2, &v2, &contents2, &all1)].into_iter().enumerate() {
            let part: BTreeMap<String, String> = row.iter().filter(|(k, _)| bv.contains(*k)).map(|(k, v)| (k.clone(), v.clone())).collect();
            if part.len() != bv.len() {
                out.push(Verdict { symptom: "row_misses_block_variable", detail: format!("emitted row {:?} does not bind the variables {:?} of WINDOW block {}: it is not a join of what both windows reported", row, bv, wi + 1), explained: false });
                continue;
            }
            if !own.iter().any(|content| answers(block, content).contains(&part)) {
                let mut widened: BTreeSet<(String, String, String)> = own.iter().flatten().cloned().collect();
                widened.extend(other.iter().cloned());
                let explained = answers(block, &widened).contains(&part);
                out.push(Verdict { symptom: "block_answer_not_from_own_window", detail: format!("emitted row {:?}: part {:?} for WINDOW block {} is not an answer over any content window {} reports ({:?})", row, part, wi + 1, wi + 1, own), explained });
            }
        }
    }
    out
}

fn record_mt(out: &mut ShardOut, ctx: &Ctx, variant: usize, w1: (usize, usize), w2: (usize, usize), policy: MtPolicy, feed: &Feed, bound: usize) {
    let mut first_rows: Option<usize> = None;
    let n = sched::dfs(
        bound,
        || ctx.expired(),
        |prefix| {
            out.evaluations += 1;
            out.count("mt_schedules_explored", 1);
            let res = guarded(|| run_mt(variant, w1, w2, policy, feed, prefix));
            let tagv = |explained: bool| vec![format!("variant={}", variants()[variant].name), format!("policy={}", policy.name()), "mode=multi".to_string(), format!("explained_by={}", if explained { "other_windows_content_visible" } else { "nothing" })];
            match res {
                Err(p) => {
                    out.fail(mt_case_json(variant, w1, w2, policy, feed, prefix), "panic", p, tagv(false));
                    None
                }
                Ok(Err(e)) => {
                    if e.contains("deadlock") {
                        out.fail(mt_case_json(variant, w1, w2, policy, feed, prefix), "deadlock", e, tagv(false));
                    } else if e.contains("stuck") {
                        match guarded(|| run_mt(variant, w1, w2, policy, feed, prefix)) {
                            Ok(Err(e2)) if e2.contains("stuck") => out.fail(mt_case_json(variant, w1, w2, policy, feed, prefix), "thread_never_reaches_next_point", format!("{} (reproduced twice)", e), tagv(false)),
                            _ => out.machinery_errors.push(format!("one-off scheduler stall: {}", e)),
                        }
                    } else {
                        out.machinery_errors.push(format!("scheduler error on {:?} prefix {:?}: {}", feed, prefix, e));
                    }
                    None
                }
                Ok(Ok((rows, trace))) => {
                    out.max("max_mt_scheduling_points", trace.points.len() as u64);
                    out.outcome(&(variant, policy.name(), rows.len()));
                    if first_rows.is_none() {
                        first_rows = Some(rows.len());
                    }
                    out.count("mt_rows_emitted", rows.len() as u64);
                    for vd in mt_verdicts(variant, w1, w2, feed, &rows) {
                        // determinism before verdict: the same schedule must fail again
                        let again = guarded(|| run_mt(variant, w1, w2, policy, feed, &trace.choices));
                        match again {
                            Ok(Ok((r2, _))) if !mt_verdicts(variant, w1, w2, feed, &r2).is_empty() => {
                                out.fail(mt_case_json(variant, w1, w2, policy, feed, &trace.choices), vd.symptom, vd.detail, tagv(vd.explained));
                            }
                            _ => out.machinery_errors.push(format!("schedule replay diverged for {:?} {:?}", feed, trace.choices)),
                        }
                        break;
                    }
                    Some(trace)
                }
            }
        },
    );
    out.max("max_mt_schedules_per_case", n);
    if first_rows.map_or(false, |r| r > 0) {
        out.nontrivial(&format!("mt {:?} {:?} {:?} {:?} {:?}", variant, w1, w2, policy, feed));
    }
}

fn run_multi_thread_family(ctx: &Ctx, out: &mut ShardOut, idx: &mut u64) {
    if !sched::available() {
        return;
    }
    let seqs = stream_seqs(2, &[1]);
    let bound = if ctx.thorough() { 2 } else { 1 };
    for variant in [1usize, 3, 0] {
        // disjoint vocabulary first (no known-finding noise), then shared vocabulary
        for (w1, w2) in [((2usize, 1usize), (2usize, 1usize)), ((2, 2), (2, 1))] {
            for policy in MT_POLICIES {
                for a in &seqs {
                    for b in &seqs {
                        if a.is_empty() && b.is_empty() {
                            continue;
                        }
                        for feed in interleavings(a, b) {
                            *idx += 1;
                            if !ctx.mine(*idx) {
                                continue;
                            }
                            if !ctx.thorough() && (a.len() + b.len() > 3 || w1 != w2) {
                                continue; // quick: feeds of <= 3 items, equal window parameters
                            }
                            if ctx.expired() {
                                if !out.capped.iter().any(|c| c.contains("multi-thread")) {
                                    out.capped.push("wall-clock cap hit in the multi-thread family".into());
                                }
                                return;
                            }
                            record_mt(out, ctx, variant, w1, w2, policy, &feed, bound);
                        }
                    }
                }
            }
        }
    }
}

fn run(ctx: &Ctx) -> ShardOut {
    let mut out = ShardOut::default();
    let maxlen = 3;
    let gaps: Vec<usize> = if ctx.thorough() { vec![1, 2] } else { vec![1] };
    let seqs = stream_seqs(maxlen, &gaps);
    let mut idx = 0u64;
    'all: for variant in 0..variants().len() {
        for w1 in WIN {
            for w2 in WIN {
                for steal in [false, true] {
                    for with_static in [false, true] {
                        for a in &seqs {
                            for b in &seqs {
                                for feed in interleavings(a, b) {
                                    idx += 1;
                                    if !ctx.mine(idx) {
                                        continue;
                                    }
                                    if idx % 64 == 0 && ctx.expired() {
                                        out.capped.push("wall-clock cap hit".into());
                                        break 'all;
                                    }
                                    let case = Case { variant, w1, w2, steal, with_static, feed };
                                    record(&mut out, &case);
                                    if out.samples.len() < 3 && case.feed.len() == 4 && idx % 1777 == 0 {
                                        out.sample(case_json(&case));
                                    }
                                }
                            }
                        }
                    }
                }
            }
        }
    }
    run_multi_thread_family(ctx, &mut out, &mut idx);
    out
}

fn replay(_ctx: &Ctx, case: &Value) -> ShardOut {
    let mut out = ShardOut::default();
    let vars = variants();
    let Some(variant) = vars.iter().position(|v| Some(v.name) == case["variant"].as_str()) else {
        out.machinery_errors.push("replay: unknown variant".into());
        return out;
    };
    let pair = |k: &str| (case[k][0].as_u64().unwrap_or(2) as usize, case[k][1].as_u64().unwrap_or(1) as usize);
    let feed: Feed = case["feed"].as_array().map(|a| a.iter().filter_map(|p| Some((p.get(0)?.as_u64()? as usize, p.get(1)?.as_u64()? as usize, p.get(2)?.as_u64()? as usize))).collect()).unwrap_or_default();
    if case["mode"].as_str() == Some("multi") {
        let policy = MT_POLICIES.iter().copied().find(|p| Some(p.name()) == case["policy"].as_str()).unwrap_or(MtPolicy::Wait);
        let schedule: Vec<usize> = case["schedule"].as_array().map(|a| a.iter().filter_map(|x| x.as_u64().map(|y| y as usize)).collect()).unwrap_or_default();
        out.evaluations += 1;
        match guarded(|| run_mt(variant, pair("w1"), pair("w2"), policy, &feed, &schedule)) {
            Ok(Ok((rows, trace))) => {
                for vd in mt_verdicts(variant, pair("w1"), pair("w2"), &feed, &rows) {
                    let tags = vec![format!("variant={}", vars[variant].name), format!("policy={}", policy.name()), "mode=multi".to_string(), format!("explained_by={}", if vd.explained { "other_windows_content_visible" } else { "nothing" })];
                    out.fail(mt_case_json(variant, pair("w1"), pair("w2"), policy, &feed, &trace.choices), vd.symptom, vd.detail, tags);
                    break;
                }
            }
            Ok(Err(e)) => {
                if e.contains("deadlock") || e.contains("stuck") {
                    out.fail(case.clone(), if e.contains("deadlock") { "deadlock" } else { "thread_never_reaches_next_point" }, e, vec!["mode=multi".into()]);
                } else {
                    out.machinery_errors.push(e);
                }
            }
            Err(p) => out.fail(case.clone(), "panic", p, vec!["mode=multi".into()]),
        }
        return out;
    }
    let c = Case { variant, w1: pair("w1"), w2: pair("w2"), steal: case["policy"].as_str() == Some("steal"), with_static: case["static"].as_bool().unwrap_or(false), feed };
    record(&mut out, &c);
    out
}
