//! C11 — multi-window results are joins of what each window itself reported.
//! E-in over tuples of in-order streams (every interleaving) on real multi-window RSP engines
//! (SingleThread and, under the baton scheduler, MultiThread; every synchronisation policy; with and
//! without static data; window blocks sharing or not sharing vocabulary; two and three windows;
//! alternative spellings of the same query), oracle = per-window probe windows + BGP evaluation.
use crate::explore::sched;
use crate::infra::{guarded, Ctx, PropDef, ShardOut};
use crate::reference::sparql_ast::*;
use crate::reference::sparql_eval::{eval_group, Dataset, View};
use kolibrie::rsp::s2r::{CSPARQLWindow, ContentContainer, Report, ReportStrategy, Tick};
use kolibrie::rsp_engine::{OperationMode, QueryExecutionMode, RSPBuilder, RSPEngine, ResultConsumer, SimpleR2R};
use serde_json::{json, Value};
use shared::query::{Fallback, SyncPolicy};
use shared::triple::Triple;
use std::collections::{BTreeMap, BTreeSet};
use std::sync::{Arc, Mutex};

pub const DEF: PropDef = PropDef {
    id: "C11",
    level: "exploration",
    rule: "single-thread cases = (vocabulary variant, window parameters, sync policy, static data yes/no, query spelling, in-order streams, interleaving) on engines built with RSPBuilder in SingleThread mode. MAIN family: two-window variants: both blocks over the same predicate (shared vocabulary), disjoint predicates, blocks sharing a join variable, blocks joining on TWO variables over prefix-related literal values (value pairs that differ while their concatenations coincide, events carrying two triples), a static part joining with a block on two variables (its static data also holds triples over the block predicates that answer no static pattern), and window blocks over disjoint predicates while the STATIC pattern and data use the predicate of block 1 (static data can only show up in a block, and window items in the static part, by leaking); (width,slide) of each window from {(2,1),(2,2)}; policies Wait and Steal; static background data present or not, with a static pattern in the WHERE clause (the static-shares-vocabulary variant only with: without static data it is the disjoint variant); streams of <=3 items each over a 2-event alphabet per stream with gaps {1} (thorough {1,2}); EVERY interleaving of the streams. After the last item the pending window results are drained through the public process_single_thread_window_results() and the rows it emits are judged like all others (otherwise the last firing is never observed). CONFIG family (streams of <=2 items each, every interleaving, static yes/no, window pairs (2,1)x(2,1) and (2,2)x(2,1), variants shared / disjoint / two-join-variables / static-shares-vocabulary; thorough: all four pairs and the full product of the dimensions, incl. ISTREAM/DSTREAM, under Wait and Steal, the timeout policies wherever the policy is in the text): the same queries under other spellings/configurations: prefix-related stream and window names (:s/:s1/:s12, :w/:w1/:w12) and <http://e/s>-style stream IRIs (always fed under exactly the spelling used in the query), WINDOW blocks written in reverse order with the static pattern first, the policy given as WITH POLICY in the query text (on the last FROM NAMED WINDOW clause) instead of set_sync_policy (all four policies), policies Timeout+Steal and Timeout+Drop through the builder (single-thread: no timer), and prefix-related names + reversed blocks + policy in the text + ISTREAM together. OPS family: ISTREAM and DSTREAM instead of RSTREAM on the static-shares-vocabulary variant with static data, policies Wait and Steal, streams of <=3 items with gap 2 (items at t=2,4,6, so that consecutive reported contents differ and DSTREAM really emits), every interleaving. THREE-WINDOW family: three windows over three streams with disjoint predicates whose blocks join in a chain (?a p ?j . / ?j q ?k . / ?k s ?f .), streams of <=2 items each (alphabets of 2,2,1 events), every interleaving of the three streams, window triples (2,1)^3 and (2,2)(2,1)(2,1) (thorough: all eight), policies Wait and Steal, static yes/no. SPARSE family (thorough only): gaps {1,3} (items at t,t+1,t+4: the window reports an EMPTY content after a non-empty one), one event per stream, streams of <=3 items each, disjoint-vocabulary and static-shares-vocabulary variants, static present, all four window pairs. Oracle, per emitted row and per window i (all three stream operators: an ISTREAM/DSTREAM row is a row of the current/previous join): the row must bind every variable of block i; window i's probe must have reported at least once (symptom row_emitted_before_own_window_reported otherwise - no content of that window exists yet; a feed in which one stream is silent must therefore emit nothing); the row restricted to block i's variables must be an answer of block i over SOME content that a probe window with window i's parameters, fed only stream i, has reported so far; the restriction to the static variables must be an answer over the static data alone. A failing block part is tagged explained_by=other_windows_content_visible when it becomes an answer once the contents reported by the OTHER windows are added to window i's content - the shared-store defect -, explained_by=static_data_visible when it becomes an answer once the static data (and not the other windows' items) are added, explained_by=other_windows_content_and_static_data_visible when it needs both, and explained_by=nothing otherwise. Multi-thread family (hook H1 baton scheduler with one worker per window and the coordinator thread, channels named per window plus the results channel, deadline expiry of the coordinator's timed receive enumerated as a scheduling choice): MAIN sub-family: disjoint- and shared-vocabulary (thorough: also two-join-variable) variants x policies {Wait, Steal, Timeout+Steal, Timeout+Drop} x every interleaving of two streams of <=2 items each (quick: <=3 items in total - no engine whose blocks are over disjoint predicates can emit a row there, because both windows must have reported a non-empty content) under EVERY schedule with <=1 (thorough 2) preemptions; a ROWS sub-family in which both streams carry two items at t=1,2 (every interleaving), so that both windows report a non-empty content and engines over disjoint predicates really emit joined rows in MultiThread mode: two-join-variable variant (stream 2 in both event orders: the genuinely joining pair and the pair whose concatenated values collide), and static-join-on-two-variables WITH static data and the policy given as WITH POLICY in the query text, all four policies, <=1 preemption in both tiers (thorough adds the window pair (2,2)x(2,1)); a REFIRE sub-family (two-join-variable variant, stream 1 with two items and stream 2 with three, every interleaving, so that window 2 reports twice and results of both windows can be pending together while the coordinator holds an older result; quick: policies Steal and Timeout+Steal, thorough: all four and the mirrored feed; <=1 preemption); a THREE-WINDOW sub-family (three workers + coordinator, chain-join variant, one event per stream, two items per stream; quick: the six block orders of the streams under every NON-PREEMPTIVE schedule, thorough: every interleaving non-preemptively and the block orders with <=1 preemption); every emitted row must bind the variables of all blocks, each block part must be an answer over a content its own window reports over the whole feed, the static part an answer over the static data. Non-trivial = single-thread case in which every window reported a non-empty content AND rows were emitted, multi-thread case that emits rows; distinct by case.",
    assumptions: &[
        "stop()'s flush is excluded (engines are dropped); multi-thread scheduling points: channel sends/receives, thread start/end, after each window processor, the coordinator's timed receive (deadline expiry is a choice), no points inside mutexes",
        "the probe windows are real CSPARQLWindows (C09's subject)",
        "'reported so far' is taken generously (any content the probe reported up to and including the current stream item), so the oracle is not stricter than the statement; this also makes it valid for ISTREAM and DSTREAM (their rows are rows of the current or of the previous join)",
        "streams are always fed under exactly the name spelled in the query (whether ':s1' and 's1' denote the same stream is not decided by the statement)",
        "the final drain uses the public RSPEngine::process_single_thread_window_results(), which add_to_stream itself calls first thing in SingleThread mode",
    ],
    run,
    replay,
    cap_s: (55, 900),
    shards: 0,
};

const E: &str = "http://e/";

fn iri(l: &str) -> String {
    format!("{}{}", E, l)
}
fn v(n: &str) -> T {
    T::var(n)
}
fn c(l: &str) -> T {
    T::iri(&iri(l))
}

pub type Fact = (String, String, String);
/// one event = the triples that arrive together under one timestamp
pub type Event = Vec<Fact>;

#[derive(Clone, Debug)]
pub struct Variant {
    pub name: &'static str,
    /// one WINDOW block per window
    pub blocks: Vec<Vec<TP>>,
    /// one event alphabet per stream (stream i feeds window i)
    pub alphas: Vec<Vec<Event>>,
    pub static_pattern: Vec<TP>,
    pub static_data: Vec<Fact>,
}

fn t3(s: &str, p: &str, o: &str) -> Fact {
    (iri(s), iri(p), iri(o))
}
fn e1(s: &str, p: &str, o: &str) -> Event {
    vec![t3(s, p, o)]
}
/// event carrying two literal-valued triples of one subject
fn e2(s: &str, p1: &str, o1: &str, p2: &str, o2: &str) -> Event {
    vec![(iri(s), iri(p1), o1.to_string()), (iri(s), iri(p2), o2.to_string())]
}

pub const V_SHARED: usize = 0;
pub const V_DISJOINT: usize = 1;
pub const V_TWO_JOIN: usize = 3;
pub const V_STATIC_TWO: usize = 4;
pub const V_STATIC_SHARES: usize = 5;
pub const V_THREE: usize = 6;
/// number of two-window variants (indices 0..N2)
pub const N2: usize = 6;

pub fn variants() -> Vec<Variant> {
    vec![
        Variant {
            name: "shared_vocabulary",
            blocks: vec![vec![tp(v("a"), c("p"), v("b"))], vec![tp(v("c"), c("p"), v("d"))]],
            alphas: vec![vec![e1("x1", "p", "y1"), e1("x2", "p", "y1")], vec![e1("u1", "p", "v1"), e1("u2", "p", "v1")]],
            static_pattern: vec![tp(v("m"), c("p"), v("n"))],
            static_data: vec![t3("k1", "p", "k2")],
        },
        Variant {
            name: "disjoint_vocabulary",
            blocks: vec![vec![tp(v("a"), c("p"), v("b"))], vec![tp(v("c"), c("q"), v("d"))]],
            alphas: vec![vec![e1("x1", "p", "y1"), e1("x2", "p", "y1")], vec![e1("u1", "q", "v1"), e1("u2", "q", "v1")]],
            static_pattern: vec![tp(v("m"), c("r"), v("n"))],
            static_data: vec![t3("k1", "r", "k2")],
        },
        Variant {
            name: "join_variable_shared_vocabulary",
            blocks: vec![vec![tp(v("a"), c("p"), v("j"))], vec![tp(v("j"), c("p"), v("d"))]],
            alphas: vec![vec![e1("x1", "p", "y1"), e1("y1", "p", "z1")], vec![e1("y1", "p", "z1"), e1("z1", "p", "x1")]],
            static_pattern: vec![tp(v("m"), c("p"), v("n"))],
            static_data: vec![t3("z1", "p", "k2")],
        },
        // two join variables over literal values chosen so that the value pairs differ but their
        // concatenations coincide ("1"+"23" = "12"+"3"): a join keyed on anything coarser than the
        // pair of values merges rows that do not agree. Events x1/u2 and x2/u1 genuinely join.
        Variant {
            name: "two_join_variables_prefix_related_values",
            blocks: vec![vec![tp(v("a"), c("p"), v("j")), tp(v("a"), c("q"), v("k"))], vec![tp(v("d"), c("r"), v("j")), tp(v("d"), c("s"), v("k"))]],
            alphas: vec![vec![e2("x1", "p", "1", "q", "23"), e2("x2", "p", "12", "q", "3")], vec![e2("u1", "r", "12", "s", "3"), e2("u2", "r", "1", "s", "23")]],
            static_pattern: vec![tp(v("m"), c("t"), v("n"))],
            static_data: vec![(iri("k1"), iri("t"), "7".to_string())],
        },
        // the static part joins with a window block on two variables (same value design)
        Variant {
            name: "static_join_on_two_variables",
            blocks: vec![vec![tp(v("a"), c("p"), v("j")), tp(v("a"), c("q"), v("k"))], vec![tp(v("c"), c("r"), v("d"))]],
            alphas: vec![vec![e2("x1", "p", "1", "q", "23"), e2("x2", "p", "12", "q", "3")], vec![e1("u1", "r", "v1"), e1("u2", "r", "v1")]],
            static_pattern: vec![tp(v("m"), c("t"), v("j")), tp(v("m"), c("u"), v("k"))],
            // (k1 t "12")(k1 u "3") join block 1's event x2; the other three triples answer no static
            // pattern: they are over the predicates of the window blocks, so they can only appear in a
            // row if static data leaks into the window store
            static_data: vec![(iri("k1"), iri("t"), "12".to_string()), (iri("k1"), iri("u"), "3".to_string()), t3("k3", "r", "k4"), (iri("k5"), iri("p"), "9".to_string()), (iri("k5"), iri("q"), "8".to_string())],
        },
        // the window blocks do not share vocabulary with each other (so the shared-store defect is
        // silent), but the static pattern/data use block 1's predicate (and the static data also
        // holds a triple over block 2's predicate): a static triple showing up in a block, or a
        // window item showing up in the static part, can only be a leak between the two stores.
        Variant {
            name: "static_shares_vocabulary_windows_disjoint",
            blocks: vec![vec![tp(v("a"), c("p"), v("b"))], vec![tp(v("c"), c("q"), v("d"))]],
            alphas: vec![vec![e1("x1", "p", "y1"), e1("x2", "p", "y1")], vec![e1("u1", "q", "v1"), e1("u2", "q", "v1")]],
            static_pattern: vec![tp(v("m"), c("p"), v("n"))],
            static_data: vec![t3("k1", "p", "k2"), t3("k3", "q", "k4")],
        },
        // three windows over three streams, disjoint predicates, blocks joining in a chain:
        // (x1 p y1)(y1 q z1)(z1 s v1) joins, (x2 p y2)/(y2 q z1) join each other but x1/y2 do not
        Variant {
            name: "three_windows_chain_join_disjoint_vocabulary",
            blocks: vec![vec![tp(v("a"), c("p"), v("j"))], vec![tp(v("j"), c("q"), v("k"))], vec![tp(v("k"), c("s"), v("f"))]],
            alphas: vec![vec![e1("x1", "p", "y1"), e1("x2", "p", "y2")], vec![e1("y1", "q", "z1"), e1("y2", "q", "z1")], vec![e1("z1", "s", "v1")]],
            static_pattern: vec![tp(v("m"), c("t"), v("f"))],
            static_data: vec![t3("k1", "t", "v1"), t3("k1", "t", "v2")],
        },
    ]
}

pub const WIN: [(usize, usize); 2] = [(2, 1), (2, 2)];

/// spellings of the stream / window names; scheme 1 is prefix-related, scheme 2 uses <IRI> streams
pub const STREAM_NAMES: [[&str; 3]; 3] = [[":s1", ":s2", ":s3"], [":s", ":s1", ":s12"], ["<http://e/s>", "<http://e/s1>", "<http://e/s12>"]];
pub const WINDOW_NAMES: [[&str; 3]; 3] = [[":w1", ":w2", ":w3"], [":w", ":w1", ":w12"], [":w1", ":w2", ":w3"]];
pub const NAMES_TAG: [&str; 3] = ["plain", "prefix_related", "angle_iri"];
pub const OPS: [&str; 3] = ["RSTREAM", "ISTREAM", "DSTREAM"];

/// spelling / configuration of the query text (all denote the same continuous query)
#[derive(Clone, Copy, Debug, PartialEq, Eq, Hash)]
pub struct Cfg {
    pub names: usize,
    /// 0: WINDOW blocks in FROM order, static pattern last; 1: blocks reversed, static pattern first
    pub layout: usize,
    /// policy written as WITH POLICY on the last FROM NAMED WINDOW clause instead of set_sync_policy
    pub policy_in_text: bool,
    pub op: usize,
}
pub const BASE: Cfg = Cfg { names: 0, layout: 0, policy_in_text: false, op: 0 };

fn pat(ts: &[TP]) -> String {
    ts.iter().map(|t| format!("{} {} {} .", print_term(&t.s), print_term(&t.p), print_term(&t.o))).collect::<Vec<_>>().join(" ")
}

fn line(t: &Fact) -> String {
    if t.2.starts_with("http://") {
        format!("<{}> <{}> <{}> .", t.0, t.1, t.2)
    } else {
        format!("<{}> <{}> \"{}\" .", t.0, t.1, t.2)
    }
}

pub type Row = Vec<(String, String)>;
/// (stream index, alphabet index, timestamp)
pub type Feed = Vec<(usize, usize, usize)>;

#[derive(Clone, Copy, Debug, PartialEq, Eq, Hash)]
pub enum Policy {
    Wait,
    Steal,
    TimeoutSteal,
    TimeoutDrop,
}

pub const POLICIES: [Policy; 4] = [Policy::Wait, Policy::Steal, Policy::TimeoutSteal, Policy::TimeoutDrop];

impl Policy {
    fn name(&self) -> &'static str {
        match self {
            Policy::Wait => "wait",
            Policy::Steal => "steal",
            Policy::TimeoutSteal => "timeout_steal",
            Policy::TimeoutDrop => "timeout_drop",
        }
    }
    fn sync(&self) -> SyncPolicy {
        // the real duration is irrelevant: single-thread engines have no timer, and under the
        // scheduler the timeout seam decides when it fires
        let d = std::time::Duration::from_millis(50);
        match self {
            Policy::Wait => SyncPolicy::Wait,
            Policy::Steal => SyncPolicy::Steal,
            Policy::TimeoutSteal => SyncPolicy::Timeout { duration: d, fallback: Fallback::Steal },
            Policy::TimeoutDrop => SyncPolicy::Timeout { duration: d, fallback: Fallback::Drop },
        }
    }
    /// the same policy in RSP-QL text
    fn text(&self) -> &'static str {
        match self {
            Policy::Wait => "wait",
            Policy::Steal => "steal",
            Policy::TimeoutSteal => "(timeout=50ms, fallback=steal)",
            Policy::TimeoutDrop => "(timeout=50ms, fallback=drop)",
        }
    }
    fn parse(s: Option<&str>) -> Policy {
        POLICIES.iter().copied().find(|p| Some(p.name()) == s).unwrap_or(Policy::Wait)
    }
}

#[derive(Clone, Debug)]
pub struct Case {
    pub variant: usize,
    pub wins: Vec<(usize, usize)>,
    pub policy: Policy,
    pub with_static: bool,
    pub cfg: Cfg,
    pub feed: Feed,
}

pub fn query_text(var: &Variant, wins: &[(usize, usize)], with_static: bool, cfg: Cfg, policy: Policy) -> String {
    let n = var.blocks.len();
    let (sn, wn) = (STREAM_NAMES[cfg.names], WINDOW_NAMES[cfg.names]);
    let mut q = format!("REGISTER {} <http://out/stream> AS SELECT * ", OPS[cfg.op]);
    for i in 0..n {
        q += &format!("FROM NAMED WINDOW {} ON {} [RANGE {} STEP {}]", wn[i], sn[i], wins[i].0, wins[i].1);
        if cfg.policy_in_text && i == n - 1 {
            q += &format!(" WITH POLICY {}", policy.text());
        }
        q += " ";
    }
    let mut blocks: Vec<String> = (0..n).map(|i| format!("WINDOW {} {{ {} }}", wn[i], pat(&var.blocks[i]))).collect();
    let static_part = if with_static { pat(&var.static_pattern) } else { String::new() };
    if cfg.layout == 1 {
        blocks.reverse();
        q += &format!("WHERE {{ {} {} }}", static_part, blocks.join(" "));
    } else {
        q += &format!("WHERE {{ {} {} }}", blocks.join(" "), static_part);
    }
    q
}

fn build_engine(var: &Variant, wins: &[(usize, usize)], with_static: bool, cfg: Cfg, policy: Policy, mode: OperationMode) -> Result<(RSPEngine<Triple, Row>, Arc<Mutex<Vec<Row>>>), String> {
    let sink: Arc<Mutex<Vec<Row>>> = Arc::new(Mutex::new(Vec::new()));
    let s2 = Arc::clone(&sink);
    let consumer = ResultConsumer {
        function: Arc::new(move |r: Row| {
            s2.lock().unwrap().push(r);
        }),
    };
    let q: &'static str = Box::leak(query_text(var, wins, with_static, cfg, policy).into_boxed_str());
    let r2r = Box::new(SimpleR2R::with_execution_mode(QueryExecutionMode::Volcano));
    let mut b = RSPBuilder::new().add_rsp_ql_query(q).add_consumer(consumer).add_r2r(r2r).set_operation_mode(mode);
    if !cfg.policy_in_text {
        b = b.set_sync_policy(policy.sync());
    }
    let mut engine = b.build()?;
    if with_static {
        let data: String = var.static_data.iter().map(|t| line(t) + "\n").collect();
        engine.add_static_ntriples(&data);
    }
    Ok((engine, sink))
}

fn norm(r: &Row) -> BTreeMap<String, String> {
    r.iter().map(|(k, v)| (k.trim_start_matches('?').to_string(), v.trim_start_matches('<').trim_end_matches('>').trim_matches('"').to_string())).collect()
}

fn probe(w: (usize, usize)) -> (CSPARQLWindow<usize>, Arc<Mutex<Vec<BTreeSet<usize>>>>) {
    let mut report = Report::new();
    report.add(ReportStrategy::OnWindowClose);
    let mut win: CSPARQLWindow<usize> = CSPARQLWindow::new(w.0, w.1, report, Tick::TimeDriven, "probe".to_string());
    let sink: Arc<Mutex<Vec<BTreeSet<usize>>>> = Arc::new(Mutex::new(Vec::new()));
    let s2 = Arc::clone(&sink);
    win.register_callback(Box::new(move |cc: ContentContainer<usize>| {
        s2.lock().unwrap().push(cc.iter().cloned().collect());
    }));
    (win, sink)
}

fn answers(block: &[TP], facts: &BTreeSet<Fact>) -> BTreeSet<BTreeMap<String, String>> {
    let mut ds = Dataset::default();
    ds.default = facts.clone();
    let view = View::of(&ds, &[], &[]);
    eval_group(&Group(vec![Elem::Triples(block.to_vec())]), &view, None).unwrap_or_default().into_iter().collect()
}

fn block_vars(block: &[TP]) -> BTreeSet<String> {
    let mut s = BTreeSet::new();
    for t in block {
        for x in [&t.s, &t.p, &t.o] {
            if let T::Var(n) = x {
                s.insert(n.clone());
            }
        }
    }
    s
}

pub struct Verdict {
    pub symptom: &'static str,
    pub detail: String,
    /// value of the explained_by tag
    pub explained: &'static str,
}

/// the contents (as fact sets) the probe of window i has reported
fn contents_of(var: &Variant, i: usize, sink: &Arc<Mutex<Vec<BTreeSet<usize>>>>) -> Vec<BTreeSet<Fact>> {
    sink.lock().unwrap().iter().map(|s| s.iter().flat_map(|ai| var.alphas[i][*ai].iter().cloned()).collect()).collect()
}

/// The oracle: judge emitted rows against the contents each window's probe has reported
/// (`contents[i]` = list of reported contents of window i, possibly empty sets) and the static data.
fn judge_rows(var: &Variant, with_static: bool, static_facts: &BTreeSet<Fact>, contents: &[Vec<BTreeSet<Fact>>], rows: &[BTreeMap<String, String>], when: &str) -> Vec<Verdict> {
    let n = var.blocks.len();
    let bvs: Vec<BTreeSet<String>> = var.blocks.iter().map(|b| block_vars(b)).collect();
    let vs = block_vars(&var.static_pattern);
    let alls: Vec<BTreeSet<Fact>> = contents.iter().map(|cs| cs.iter().flatten().cloned().collect()).collect();
    let mut out = Vec::new();
    for row in rows {
        for wi in 0..n {
            let (block, bv, own) = (&var.blocks[wi], &bvs[wi], &contents[wi]);
            let part: BTreeMap<String, String> = row.iter().filter(|(k, _)| bv.contains(*k)).map(|(k, v)| (k.clone(), v.clone())).collect();
            if part.len() != bv.len() {
                out.push(Verdict { symptom: "row_misses_block_variable", detail: format!("row {:?} emitted {} does not bind all variables {:?} of WINDOW block {}: it is not a join of what every window reported", row, when, bv, wi + 1), explained: "nothing" });
                continue;
            }
            if own.is_empty() {
                out.push(Verdict {
                    symptom: "row_emitted_before_own_window_reported",
                    detail: format!("row {:?} emitted {} although window {} (fed only its own stream) has not reported any content: its part {:?} for WINDOW block {} cannot come from content of that window", row, when, wi + 1, part, wi + 1),
                    explained: "nothing",
                });
                continue;
            }
            let ok = own.iter().any(|content| answers(block, content).contains(&part));
            if !ok {
                // would it be an answer if the other windows' items / the static data were visible?
                let mut others: BTreeSet<Fact> = BTreeSet::new();
                for (wj, a) in alls.iter().enumerate() {
                    if wj != wi {
                        others.extend(a.iter().cloned());
                    }
                }
                let mut with_others = alls[wi].clone();
                with_others.extend(others.iter().cloned());
                let mut with_stat = alls[wi].clone();
                with_stat.extend(static_facts.iter().cloned());
                let mut with_both = with_others.clone();
                with_both.extend(static_facts.iter().cloned());
                let explained = if answers(block, &with_others).contains(&part) {
                    "other_windows_content_visible"
                } else if answers(block, &with_stat).contains(&part) {
                    "static_data_visible"
                } else if answers(block, &with_both).contains(&part) {
                    "other_windows_content_and_static_data_visible"
                } else {
                    "nothing"
                };
                out.push(Verdict {
                    symptom: "block_answer_not_from_own_window",
                    detail: format!("row {:?} emitted {}: its part {:?} for WINDOW block {} is not an answer over any content window {} reported ({:?}); other windows' items {:?}; static data {:?}", row, when, part, wi + 1, wi + 1, own, others, static_facts),
                    explained,
                });
            }
        }
        if with_static {
            let part: BTreeMap<String, String> = row.iter().filter(|(k, _)| vs.contains(*k)).map(|(k, v)| (k.clone(), v.clone())).collect();
            if part.len() != vs.len() || !answers(&var.static_pattern, static_facts).contains(&part) {
                let mut widened = static_facts.clone();
                for a in &alls {
                    widened.extend(a.iter().cloned());
                }
                let explained = part.len() == vs.len() && answers(&var.static_pattern, &widened).contains(&part);
                out.push(Verdict {
                    symptom: "static_part_not_from_static_data",
                    detail: format!("row {:?} emitted {}: static part {:?} is not an answer over the static data {:?}", row, when, part, static_facts),
                    explained: if explained { "other_windows_content_visible" } else { "nothing" },
                });
            }
        }
    }
    out
}

pub struct Exec {
    pub verdicts: Vec<Verdict>,
    /// every window's probe reported a non-empty content
    pub all_nonempty: bool,
    pub rows: usize,
    pub rows_at_drain: usize,
    /// number of EMPTY contents reported after a non-empty one (per case, summed over windows)
    pub empty_after_nonempty: usize,
    /// number of windows whose probe never reported
    pub never_reported: usize,
}

/// Execute one single-thread case
pub fn execute(case: &Case) -> Result<Exec, String> {
    let vars = variants();
    let var = &vars[case.variant];
    let n = var.blocks.len();
    if case.wins.len() != n {
        return Err(format!("case has {} window parameter pairs, variant {} has {} windows", case.wins.len(), var.name, n));
    }
    let (mut engine, sink) = build_engine(var, &case.wins, case.with_static, case.cfg, case.policy, OperationMode::SingleThread)?;
    let trs: Vec<Vec<Vec<Triple>>> = var.alphas.iter().map(|al| al.iter().map(|ev| ev.iter().flat_map(|t| engine.parse_data(&line(t))).collect()).collect()).collect();
    let mut probes = Vec::new();
    let mut psinks = Vec::new();
    for i in 0..n {
        let (p, s) = probe(case.wins[i]);
        probes.push(p);
        psinks.push(s);
    }
    let names = STREAM_NAMES[case.cfg.names];
    let static_facts: BTreeSet<Fact> = if case.with_static { var.static_data.iter().cloned().collect() } else { BTreeSet::new() };
    let mut verdicts = Vec::new();
    let mut seen_rows = 0usize;
    for (stream, ai, ts) in &case.feed {
        for t in &trs[*stream][*ai] {
            engine.add_to_stream(names[*stream], t.clone(), *ts);
        }
        probes[*stream].add_to_window(*ai, *ts);
        let rows: Vec<BTreeMap<String, String>> = sink.lock().unwrap().iter().skip(seen_rows).map(norm).collect();
        seen_rows += rows.len();
        if rows.is_empty() {
            continue;
        }
        let contents: Vec<Vec<BTreeSet<Fact>>> = (0..n).map(|i| contents_of(var, i, &psinks[i])).collect();
        verdicts.extend(judge_rows(var, case.with_static, &static_facts, &contents, &rows, &format!("at item ({},{},{})", stream, ai, ts)));
    }
    // the last firing(s): add_to_stream drains pending window results only at the start of the NEXT call
    engine.process_single_thread_window_results();
    let rows: Vec<BTreeMap<String, String>> = sink.lock().unwrap().iter().skip(seen_rows).map(norm).collect();
    let rows_at_drain = rows.len();
    seen_rows += rows.len();
    let contents: Vec<Vec<BTreeSet<Fact>>> = (0..n).map(|i| contents_of(var, i, &psinks[i])).collect();
    if !rows.is_empty() {
        verdicts.extend(judge_rows(var, case.with_static, &static_facts, &contents, &rows, "at the final drain"));
    }
    let all_nonempty = contents.iter().all(|cs| cs.iter().any(|s| !s.is_empty()));
    let mut empty_after_nonempty = 0;
    for cs in &contents {
        let mut seen = false;
        for s in cs {
            if !s.is_empty() {
                seen = true;
            } else if seen {
                empty_after_nonempty += 1;
            }
        }
    }
    let never_reported = contents.iter().filter(|cs| cs.is_empty()).count();
    drop(engine);
    Ok(Exec { verdicts, all_nonempty, rows: seen_rows, rows_at_drain, empty_after_nonempty, never_reported })
}

/// all in-order item sequences of one stream with length <= maxlen over an alphabet of `nalpha`
/// events: (alphabet index, timestamp)
fn stream_seqs(maxlen: usize, gaps: &[usize], nalpha: usize) -> Vec<Vec<(usize, usize)>> {
    let mut out = vec![vec![]];
    let mut level: Vec<Vec<(usize, usize)>> = vec![vec![]];
    for _ in 0..maxlen {
        let mut next = Vec::new();
        for s in &level {
            let last = s.last().map_or(0, |x| x.1);
            for ai in 0..nalpha {
                for &gap in gaps {
                    let mut n = s.clone();
                    n.push((ai, last + gap));
                    next.push(n);
                }
            }
        }
        out.extend(next.iter().cloned());
        level = next;
    }
    out
}

/// every interleaving of the given in-order streams
fn interleavings(seqs: &[&[(usize, usize)]]) -> Vec<Feed> {
    fn rec(seqs: &[&[(usize, usize)]], pos: &mut Vec<usize>, cur: &mut Feed, out: &mut Vec<Feed>) {
        let mut done = true;
        for s in 0..seqs.len() {
            if pos[s] < seqs[s].len() {
                done = false;
                let x = seqs[s][pos[s]];
                cur.push((s, x.0, x.1));
                pos[s] += 1;
                rec(seqs, pos, cur, out);
                pos[s] -= 1;
                cur.pop();
            }
        }
        if done {
            out.push(cur.clone());
        }
    }
    let mut out = Vec::new();
    rec(seqs, &mut vec![0; seqs.len()], &mut Vec::new(), &mut out);
    out
}

fn wins_json(m: &mut serde_json::Map<String, Value>, wins: &[(usize, usize)]) {
    for (i, w) in wins.iter().enumerate() {
        m.insert(format!("w{}", i + 1), json!([w.0, w.1]));
    }
}

fn case_json(c: &Case) -> Value {
    let mut m = serde_json::Map::new();
    m.insert("variant".into(), json!(variants()[c.variant].name));
    wins_json(&mut m, &c.wins);
    m.insert("policy".into(), json!(c.policy.name()));
    m.insert("static".into(), json!(c.with_static));
    if c.cfg != BASE {
        m.insert("names".into(), json!(c.cfg.names));
        m.insert("layout".into(), json!(c.cfg.layout));
        m.insert("policy_in_text".into(), json!(c.cfg.policy_in_text));
        m.insert("op".into(), json!(OPS[c.cfg.op]));
    }
    m.insert("feed".into(), json!(c.feed));
    Value::Object(m)
}

fn cfg_tags(cfg: Cfg, nwin: usize) -> Vec<String> {
    let mut t = Vec::new();
    if cfg.names != 0 {
        t.push(format!("names={}", NAMES_TAG[cfg.names]));
    }
    if cfg.layout != 0 {
        t.push("layout=blocks_reversed_static_first".to_string());
    }
    if cfg.policy_in_text {
        t.push("policy_src=query_text".to_string());
    }
    if cfg.op != 0 {
        t.push(format!("op={}", OPS[cfg.op]));
    }
    if nwin != 2 {
        t.push(format!("windows={}", nwin));
    }
    t
}

fn record(out: &mut ShardOut, case: &Case, family: &str) {
    out.evaluations += 1;
    let vname = variants()[case.variant].name;
    let res = guarded(|| execute(case));
    let ex = match res {
        Err(p) => {
            let mut tags = vec![format!("variant={}", vname), format!("policy={}", case.policy.name()), format!("static={}", case.with_static)];
            tags.extend(cfg_tags(case.cfg, case.wins.len()));
            out.fail(case_json(case), "panic", p, tags);
            return;
        }
        Ok(Err(e)) => {
            out.machinery_errors.push(format!("engine build failed: {} (case {})", e, case_json(case)));
            return;
        }
        Ok(Ok(x)) => x,
    };
    if ex.all_nonempty && ex.rows > 0 {
        out.nontrivial(&format!("{:?}", case));
    }
    out.outcome(&(ex.rows, ex.verdicts.len()));
    out.count(&format!("st_runs:family={}", family), 1);
    out.count("rows_emitted", ex.rows as u64);
    out.count(&format!("rows_emitted:{}", vname), ex.rows as u64);
    out.count(&format!("rows_emitted:family={}", family), ex.rows as u64);
    out.count("rows_emitted_only_at_final_drain", ex.rows_at_drain as u64);
    if ex.rows > 0 && ex.rows == ex.rows_at_drain {
        out.count("cases_whose_only_rows_come_from_final_drain", 1);
    }
    if ex.all_nonempty {
        out.count("cases_every_window_reported_nonempty", 1);
        if ex.rows == 0 {
            out.count("cases_every_window_reported_nonempty_but_no_rows", 1);
        }
    }
    if ex.never_reported > 0 {
        out.count("cases_with_a_window_that_never_reports", 1);
        // any row here is a violation (row_emitted_before_own_window_reported)
        out.count("rows_in_cases_with_a_window_that_never_reports", ex.rows as u64);
    }
    if ex.empty_after_nonempty > 0 {
        out.count("cases_with_empty_content_reported_after_nonempty", 1);
        out.count(&format!("rows_emitted:empty_report_cases:policy={}", case.policy.name()), ex.rows as u64);
    }
    if case.cfg != BASE {
        out.count(&format!("st_runs:names={}", NAMES_TAG[case.cfg.names]), 1);
        out.count(&format!("rows_emitted:names={}", NAMES_TAG[case.cfg.names]), ex.rows as u64);
        out.count(&format!("rows_emitted:layout={}", case.cfg.layout), ex.rows as u64);
        out.count(&format!("rows_emitted:op={}", OPS[case.cfg.op]), ex.rows as u64);
        out.count(&format!("rows_emitted:policy_src={}:{}", if case.cfg.policy_in_text { "query_text" } else { "builder" }, case.policy.name()), ex.rows as u64);
    }
    if case.wins.len() == 3 {
        out.count("rows_emitted:three_windows", ex.rows as u64);
    }
    if case.with_static && case.variant == V_STATIC_SHARES {
        out.count("rows_judged_for_static_leak", ex.rows as u64);
    }
    for vd in ex.verdicts {
        let mut tags = vec![format!("variant={}", vname), format!("policy={}", case.policy.name()), format!("static={}", case.with_static), format!("explained_by={}", vd.explained)];
        tags.extend(cfg_tags(case.cfg, case.wins.len()));
        out.fail(case_json(case), vd.symptom, vd.detail, tags);
    }
}

// --- MultiThread mode under the baton scheduler (hook H1): worker per window + coordinator ---------

#[derive(Clone, Debug)]
pub struct MtCase {
    pub variant: usize,
    pub wins: Vec<(usize, usize)>,
    pub policy: Policy,
    pub with_static: bool,
    pub policy_in_text: bool,
    pub feed: Feed,
}

impl MtCase {
    fn cfg(&self) -> Cfg {
        Cfg { policy_in_text: self.policy_in_text, ..BASE }
    }
}

/// one execution under a schedule prefix; returns the emitted rows and the trace
fn run_mt(mc: &MtCase, prefix: &[usize]) -> Result<(Vec<BTreeMap<String, String>>, sched::Trace), String> {
    let var = variants()[mc.variant].clone();
    let mc2 = mc.clone();
    let rows_out: Arc<Mutex<Vec<BTreeMap<String, String>>>> = Arc::new(Mutex::new(Vec::new()));
    let ro = Arc::clone(&rows_out);
    let trace = sched::run_controlled(prefix, move || {
        let (mut engine, sink) = build_engine(&var, &mc2.wins, mc2.with_static, mc2.cfg(), mc2.policy, OperationMode::MultiThread).expect("engine build");
        let trs: Vec<Vec<Vec<Triple>>> = var.alphas.iter().map(|al| al.iter().map(|ev| ev.iter().flat_map(|t| engine.parse_data(&line(t))).collect()).collect()).collect();
        let names = STREAM_NAMES[0];
        for (stream, ai, ts) in &mc2.feed {
            for t in &trs[*stream][*ai] {
                engine.add_to_stream(names[*stream], t.clone(), *ts);
            }
        }
        sched::main_wait_quiescent();
        *ro.lock().unwrap() = sink.lock().unwrap().iter().map(norm).collect();
        drop(engine);
    })?;
    let rows = rows_out.lock().unwrap().clone();
    Ok((rows, trace))
}

fn mt_case_json(mc: &MtCase, schedule: &[usize]) -> Value {
    let mut m = serde_json::Map::new();
    m.insert("mode".into(), json!("multi"));
    m.insert("variant".into(), json!(variants()[mc.variant].name));
    wins_json(&mut m, &mc.wins);
    m.insert("policy".into(), json!(mc.policy.name()));
    if mc.with_static {
        m.insert("static".into(), json!(true));
    }
    if mc.policy_in_text {
        m.insert("policy_in_text".into(), json!(true));
    }
    m.insert("feed".into(), json!(mc.feed));
    m.insert("schedule".into(), json!(schedule));
    Value::Object(m)
}

fn mt_tags(mc: &MtCase, explained: &str) -> Vec<String> {
    let mut t = vec![format!("variant={}", variants()[mc.variant].name), format!("policy={}", mc.policy.name()), "mode=multi".to_string(), format!("explained_by={}", explained)];
    if mc.with_static {
        t.push("static=true".to_string());
    }
    t.extend(cfg_tags(mc.cfg(), mc.wins.len()));
    t
}

/// oracle for one multi-thread execution: every emitted row binds all variables of every block, each
/// block part is an answer over some content the probe window of that block reports over the whole
/// feed (generous: the interleaving of worker progress with the feed is schedule-dependent), and the
/// static part is an answer over the static data
fn mt_verdicts(mc: &MtCase, rows: &[BTreeMap<String, String>]) -> Vec<Verdict> {
    if rows.is_empty() {
        return Vec::new();
    }
    let vars = variants();
    let var = &vars[mc.variant];
    let n = var.blocks.len();
    let mut probes = Vec::new();
    let mut psinks = Vec::new();
    for i in 0..n {
        let (p, s) = probe(mc.wins[i]);
        probes.push(p);
        psinks.push(s);
    }
    for (stream, ai, ts) in &mc.feed {
        probes[*stream].add_to_window(*ai, *ts);
    }
    let contents: Vec<Vec<BTreeSet<Fact>>> = (0..n).map(|i| contents_of(var, i, &psinks[i])).collect();
    let static_facts: BTreeSet<Fact> = if mc.with_static { var.static_data.iter().cloned().collect() } else { BTreeSet::new() };
    judge_rows(var, mc.with_static, &static_facts, &contents, rows, "in multi-thread mode (contents: whole feed)")
}

fn record_mt(out: &mut ShardOut, ctx: &Ctx, mc: &MtCase, bound: usize, family: &str) {
    let mut first_rows: Option<usize> = None;
    let n = sched::dfs(
        bound,
        || ctx.expired(),
        |prefix| {
            out.evaluations += 1;
            out.count("mt_schedules_explored", 1);
            out.count(&format!("mt_schedules_explored:family={}", family), 1);
            let mut res = guarded(|| run_mt(mc, prefix));
            // "stuck" = the baton holder did not reach its next point within 10 s, which on a heavily
            // loaded machine can be CPU starvation: re-execute the same prefix (up to twice); a one-off
            // stall is counted and the successful re-execution is used, a reproduced one is judged below
            for _ in 0..2 {
                match &res {
                    Ok(Err(e)) if e.contains("stuck") => {
                        let again = guarded(|| run_mt(mc, prefix));
                        match &again {
                            Ok(Err(e2)) if e2.contains("stuck") => break,
                            _ => {
                                out.count("one_off_scheduler_stalls_re_executed", 1);
                                res = again;
                            }
                        }
                    }
                    _ => break,
                }
            }
            match res {
                Err(p) => {
                    out.fail(mt_case_json(mc, prefix), "panic", p, mt_tags(mc, "nothing"));
                    None
                }
                Ok(Err(e)) => {
                    if e.contains("deadlock") {
                        out.fail(mt_case_json(mc, prefix), "deadlock", e, mt_tags(mc, "nothing"));
                    } else if e.contains("stuck") {
                        match guarded(|| run_mt(mc, prefix)) {
                            Ok(Err(e2)) if e2.contains("stuck") => out.fail(mt_case_json(mc, prefix), "thread_never_reaches_next_point", format!("{} (reproduced twice)", e), mt_tags(mc, "nothing")),
                            _ => out.machinery_errors.push(format!("one-off scheduler stall: {}", e)),
                        }
                    } else {
                        out.machinery_errors.push(format!("scheduler error on {:?} prefix {:?}: {}", mc.feed, prefix, e));
                    }
                    None
                }
                Ok(Ok((rows, trace))) => {
                    out.max("max_mt_scheduling_points", trace.points.len() as u64);
                    out.outcome(&(mc.variant, mc.policy.name(), rows.len()));
                    if first_rows.is_none() {
                        first_rows = Some(rows.len());
                    }
                    out.count("mt_rows_emitted", rows.len() as u64);
                    out.count(&format!("mt_rows_emitted:family={}", family), rows.len() as u64);
                    out.count(&format!("mt_rows_emitted:{}", variants()[mc.variant].name), rows.len() as u64);
                    for vd in mt_verdicts(mc, &rows) {
                        // determinism before verdict: the same schedule must fail again
                        let again = guarded(|| run_mt(mc, &trace.choices));
                        match again {
                            Ok(Ok((r2, _))) if !mt_verdicts(mc, &r2).is_empty() => {
                                out.fail(mt_case_json(mc, &trace.choices), vd.symptom, vd.detail, mt_tags(mc, vd.explained));
                            }
                            _ => out.machinery_errors.push(format!("schedule replay diverged for {:?} {:?}", mc.feed, trace.choices)),
                        }
                        break;
                    }
                    Some(trace)
                }
            }
        },
    );
    out.max("max_mt_schedules_per_case", n);
    out.max(&format!("max_mt_schedules_per_case:family={}", family), n);
    if first_rows.map_or(false, |r| r > 0) {
        out.nontrivial(&format!("mt {:?}", mc));
    }
}

/// returns false when the wall-clock cap was hit
fn mt_step(ctx: &Ctx, out: &mut ShardOut, idx: &mut u64, mc: MtCase, bound: usize, family: &str) -> bool {
    *idx += 1;
    if !ctx.mine(*idx) {
        return true;
    }
    if ctx.expired() {
        if !out.capped.iter().any(|c| c.contains("multi-thread")) {
            out.capped.push(format!("wall-clock cap hit in the multi-thread family ({})", family));
        }
        return false;
    }
    record_mt(out, ctx, &mc, bound, family);
    true
}

/// the two small multi-thread sub-families (ROWS, THREE-WINDOW)
fn mt_small(ctx: &Ctx, out: &mut ShardOut, idx: &mut u64) -> bool {
    if !sched::available() {
        return true;
    }
    // <= 1 preemption in both tiers (a 4-item case has ~600 such schedules, tens of thousands with 2)
    let bound = 1;
    // ROWS sub-family: two items on each stream, so both windows report a non-empty content (the
    // first item of each stream). Stream 1 carries event 1 first (it joins the static data of
    // static_join_on_two_variables); stream 2 carries its events in the given order(s): for the
    // two-join-variable variant event 0 first gives a genuine join, event 1 first the pair whose
    // concatenated values collide without joining.
    let s1: Vec<(usize, usize)> = vec![(1, 1), (0, 2)];
    let s2a: Vec<(usize, usize)> = vec![(0, 1), (1, 2)];
    let s2b: Vec<(usize, usize)> = vec![(1, 1), (0, 2)];
    for (variant, with_static, both_orders) in [(V_TWO_JOIN, false, true), (V_STATIC_TWO, true, false)] {
        for wins in [vec![(2usize, 1usize), (2, 1)], vec![(2, 2), (2, 1)]] {
            for policy in POLICIES {
                for s2 in [&s2a, &s2b] {
                    for feed in interleavings(&[&s1, s2]) {
                        if (!ctx.thorough() && wins[0] != wins[1]) || (!both_orders && s2 == &s2b) {
                            *idx += 1;
                            continue;
                        }
                        let mc = MtCase { variant, wins: wins.clone(), policy, with_static, policy_in_text: with_static, feed };
                        if !mt_step(ctx, out, idx, mc, bound, "rows") {
                            return false;
                        }
                    }
                }
            }
        }
    }
    // REFIRE sub-family: stream 1 carries two items, stream 2 three (t = 1,2,3), so window 2 reports TWICE
    // and a result of each window can be pending on the results channel at the same time while the
    // coordinator already holds an older result of window 2 (policies whose coordinator path drains or
    // replaces pending results: Steal and Timeout+Steal; thorough: all four and the mirrored 3+2 feed).
    {
        let s1: Vec<(usize, usize)> = vec![(1, 1), (0, 2)];
        let s2: Vec<(usize, usize)> = vec![(0, 1), (1, 2), (0, 3)];
        let s1l: Vec<(usize, usize)> = vec![(1, 1), (0, 2), (1, 3)];
        let s2s: Vec<(usize, usize)> = vec![(0, 1), (1, 2)];
        for (a, b, mirrored) in [(&s1, &s2, false), (&s1l, &s2s, true)] {
            for policy in POLICIES {
                for feed in interleavings(&[a, b]) {
                    let quick_ok = !mirrored && matches!(policy, Policy::Steal | Policy::TimeoutSteal);
                    if !ctx.thorough() && !quick_ok {
                        *idx += 1;
                        continue;
                    }
                    let mc = MtCase { variant: V_TWO_JOIN, wins: vec![(2, 1), (2, 1)], policy, with_static: false, policy_in_text: false, feed };
                    if !mt_step(ctx, out, idx, mc, bound, "refire") {
                        return false;
                    }
                }
            }
        }
    }
    // THREE-WINDOW sub-family: three workers + coordinator, one event per stream, two items per stream.
    // One such case has thousands of schedules with a single preemption, so: quick = the six block
    // orders of the streams under every NON-PREEMPTIVE schedule (bound 0: every choice at a point
    // where the running thread blocks or ends); thorough = the block orders with <= 1 preemption and
    // every interleaving of the three streams non-preemptively.
    {
        let a: Vec<(usize, usize)> = vec![(0, 1), (0, 2)];
        let mut blocks: Vec<Feed> = Vec::new();
        for perm in [[0usize, 1, 2], [0, 2, 1], [1, 0, 2], [1, 2, 0], [2, 0, 1], [2, 1, 0]] {
            let mut f: Feed = Vec::new();
            for s in perm {
                for x in &a {
                    f.push((s, x.0, x.1));
                }
            }
            blocks.push(f);
        }
        let mut plan: Vec<(Vec<Feed>, usize)> = vec![(blocks.clone(), 0)];
        if ctx.thorough() {
            plan = vec![(interleavings(&[&a, &a, &a]), 0), (blocks, 1)];
        }
        for (feeds, b3) in &plan {
            for policy in POLICIES {
                for feed in feeds {
                    let mc = MtCase { variant: V_THREE, wins: vec![(2, 1), (2, 1), (2, 1)], policy, with_static: false, policy_in_text: false, feed: feed.clone() };
                    if !mt_step(ctx, out, idx, mc, *b3, if *b3 == 0 { "three_windows_nonpreemptive" } else { "three_windows" }) {
                        return false;
                    }
                }
            }
        }
    }
    true
}

/// the MAIN multi-thread sub-family
fn mt_main(ctx: &Ctx, out: &mut ShardOut, idx: &mut u64) -> bool {
    if !sched::available() {
        return true;
    }
    let bound = if ctx.thorough() { 2 } else { 1 };
    let seqs = stream_seqs(2, &[1], 2);
    for variant in [V_DISJOINT, V_SHARED, V_TWO_JOIN] {
        // disjoint vocabulary first (no known-finding noise), then shared vocabulary
        for (w1, w2) in [((2usize, 1usize), (2usize, 1usize)), ((2, 2), (2, 1))] {
            for policy in POLICIES {
                for a in &seqs {
                    for b in &seqs {
                        if a.is_empty() && b.is_empty() {
                            continue;
                        }
                        for feed in interleavings(&[a, b]) {
                            // quick: feeds of <= 3 items, equal window parameters; the two-join-variable
                            // variant cannot emit a row with <= 3 items (both windows must have reported a
                            // non-empty content), it is in the ROWS sub-family instead
                            if !ctx.thorough() && (a.len() + b.len() > 3 || w1 != w2 || variant == V_TWO_JOIN) {
                                *idx += 1;
                                continue;
                            }
                            let mc = MtCase { variant, wins: vec![w1, w2], policy, with_static: false, policy_in_text: false, feed };
                            if !mt_step(ctx, out, idx, mc, bound, "main") {
                                return false;
                            }
                        }
                    }
                }
            }
        }
    }
    true
}

/// returns false when the wall-clock cap was hit
fn st_step(ctx: &Ctx, out: &mut ShardOut, idx: &mut u64, case: Case, family: &str) -> bool {
    *idx += 1;
    if !ctx.mine(*idx) {
        return true;
    }
    if ctx.expired() {
        if !out.capped.iter().any(|c| c.contains("single-thread")) {
            out.capped.push(format!("wall-clock cap hit in the single-thread families ({})", family));
        }
        return false;
    }
    record(out, &case, family);
    if out.samples.len() < 3 && case.feed.len() == 4 && *idx % 1777 == 0 {
        out.sample(case_json(&case));
    }
    true
}

/// the configurations of the CONFIG family with the policies each is run under
fn config_list(thorough: bool) -> Vec<(Cfg, Vec<Policy>)> {
    let ws = vec![Policy::Wait, Policy::Steal];
    let ts = vec![Policy::TimeoutSteal, Policy::TimeoutDrop];
    if thorough {
        let mut l = Vec::new();
        for names in 0..3 {
            for layout in 0..2 {
                for policy_in_text in [false, true] {
                    for op in 0..3 {
                        let cfg = Cfg { names, layout, policy_in_text, op };
                        // the base configuration under Wait/Steal is the MAIN family; the timeout
                        // policies (no timer in single-thread mode) only where the policy source matters
                        l.push((cfg, if cfg == BASE { ts.clone() } else if policy_in_text || cfg == (Cfg { op, ..BASE }) { POLICIES.to_vec() } else { ws.clone() }));
                    }
                }
            }
        }
        return l;
    }
    vec![
        (Cfg { names: 1, ..BASE }, ws.clone()),
        (Cfg { names: 2, ..BASE }, ws.clone()),
        (Cfg { layout: 1, ..BASE }, ws.clone()),
        (Cfg { policy_in_text: true, ..BASE }, POLICIES.to_vec()),
        (BASE, ts.clone()),
        (Cfg { names: 1, layout: 1, policy_in_text: true, op: 1 }, ws.clone()),
    ]
}

/// MAIN: the two-window variants in the base spelling, streams of <= 3 items
fn st_main(ctx: &Ctx, out: &mut ShardOut, idx: &mut u64) -> bool {
    let gaps: Vec<usize> = if ctx.thorough() { vec![1, 2] } else { vec![1] };
    let seqs = stream_seqs(3, &gaps, 2);
    for variant in 0..N2 {
        for w1 in WIN {
            for w2 in WIN {
                for policy in [Policy::Wait, Policy::Steal] {
                    for with_static in [false, true] {
                        if variant == V_STATIC_SHARES && !with_static {
                            continue; // identical to disjoint_vocabulary without static data
                        }
                        for a in &seqs {
                            for b in &seqs {
                                for feed in interleavings(&[a, b]) {
                                    let case = Case { variant, wins: vec![w1, w2], policy, with_static, cfg: BASE, feed };
                                    if !st_step(ctx, out, idx, case, "main") {
                                        return false;
                                    }
                                }
                            }
                        }
                    }
                }
            }
        }
    }
    true
}

fn win_pairs(thorough: bool) -> Vec<((usize, usize), (usize, usize))> {
    if thorough {
        vec![((2, 1), (2, 1)), ((2, 1), (2, 2)), ((2, 2), (2, 1)), ((2, 2), (2, 2))]
    } else {
        vec![((2, 1), (2, 1)), ((2, 2), (2, 1))]
    }
}

/// CONFIG: other spellings / configurations of the same queries, streams of <= 2 items
fn st_config(ctx: &Ctx, out: &mut ShardOut, idx: &mut u64) -> bool {
    let seqs2 = stream_seqs(2, &[1], 2);
    let variants: Vec<usize> = vec![V_SHARED, V_DISJOINT, V_TWO_JOIN, V_STATIC_SHARES];
    for (cfg, policies) in config_list(ctx.thorough()) {
        for &variant in &variants {
            for (w1, w2) in win_pairs(ctx.thorough()) {
                for policy in &policies {
                    for with_static in [false, true] {
                        for a in &seqs2 {
                            for b in &seqs2 {
                                for feed in interleavings(&[a, b]) {
                                    let case = Case { variant, wins: vec![w1, w2], policy: *policy, with_static, cfg, feed };
                                    if !st_step(ctx, out, idx, case, "config") {
                                        return false;
                                    }
                                }
                            }
                        }
                    }
                }
            }
        }
    }
    true
}

/// OPS: ISTREAM / DSTREAM need at least two emissions to show anything, DSTREAM in addition a row
/// that disappears: streams of <= 3 items with gap 2 (items at t=2,4,6: a window of width 2 then
/// reports {item@2} and later {item@4}, so the second join lacks rows of the first)
fn st_ops(ctx: &Ctx, out: &mut ShardOut, idx: &mut u64) -> bool {
    let seqs = stream_seqs(3, &[2], 2);
    for op in [1usize, 2] {
        for variant in [V_STATIC_SHARES] {
            for (w1, w2) in win_pairs(ctx.thorough()) {
                for policy in [Policy::Wait, Policy::Steal] {
                    for a in &seqs {
                        for b in &seqs {
                            for feed in interleavings(&[a, b]) {
                                let case = Case { variant, wins: vec![w1, w2], policy, with_static: true, cfg: Cfg { op, ..BASE }, feed };
                                if !st_step(ctx, out, idx, case, "ops") {
                                    return false;
                                }
                            }
                        }
                    }
                }
            }
        }
    }
    true
}

/// THREE WINDOWS over three streams
fn st_three(ctx: &Ctx, out: &mut ShardOut, idx: &mut u64) -> bool {
    let s12 = stream_seqs(2, &[1], 2);
    let s3 = stream_seqs(2, &[1], 1);
    let mut triples: Vec<Vec<(usize, usize)>> = vec![vec![(2, 1), (2, 1), (2, 1)], vec![(2, 2), (2, 1), (2, 1)]];
    if ctx.thorough() {
        triples.clear();
        for w1 in WIN {
            for w2 in WIN {
                for w3 in WIN {
                    triples.push(vec![w1, w2, w3]);
                }
            }
        }
    }
    for wins in &triples {
        for policy in [Policy::Wait, Policy::Steal] {
            for with_static in [false, true] {
                for a in &s12 {
                    for b in &s12 {
                        for d in &s3 {
                            for feed in interleavings(&[a, b, d]) {
                                let case = Case { variant: V_THREE, wins: wins.clone(), policy, with_static, cfg: BASE, feed };
                                if !st_step(ctx, out, idx, case, "three_windows") {
                                    return false;
                                }
                            }
                        }
                    }
                }
            }
        }
    }
    true
}

/// SPARSE (thorough only): a gap of 3 exceeds every width, so a window reports an empty content
/// after a non-empty one (items at t, t+1, t+4); one event per stream, streams of <= 3 items
fn st_sparse(ctx: &Ctx, out: &mut ShardOut, idx: &mut u64) -> bool {
    let sp = stream_seqs(3, &[1, 3], 1);
    for variant in [V_DISJOINT, V_STATIC_SHARES] {
        for (w1, w2) in win_pairs(true) {
            for policy in [Policy::Wait, Policy::Steal] {
                for a in &sp {
                    for b in &sp {
                        for feed in interleavings(&[a, b]) {
                            let case = Case { variant, wins: vec![w1, w2], policy, with_static: true, cfg: BASE, feed };
                            if !st_step(ctx, out, idx, case, "sparse") {
                                return false;
                            }
                        }
                    }
                }
            }
        }
    }
    true
}

fn run(ctx: &Ctx) -> ShardOut {
    let mut out = ShardOut::default();
    let mut idx = 0u64;
    // cheapest families first, so that a cap cuts the largest one
    let mut fams: Vec<(&str, fn(&Ctx, &mut ShardOut, &mut u64) -> bool)> = vec![("st_three_windows", st_three), ("st_config", st_config), ("st_ops", st_ops)];
    if ctx.thorough() {
        fams.push(("st_sparse", st_sparse));
    }
    fams.push(("mt_rows_and_three_windows", mt_small));
    fams.push(("st_main", st_main));
    fams.push(("mt_main", mt_main));
    for (name, f) in fams {
        let t0 = std::time::Instant::now();
        let ok = f(ctx, &mut out, &mut idx);
        out.max(&format!("max_shard_ms:{}", name), t0.elapsed().as_millis() as u64);
        if !ok {
            break;
        }
    }
    out
}

fn replay(ctx: &Ctx, case: &Value) -> ShardOut {
    let mut out = ShardOut::default();
    let vars = variants();
    let Some(variant) = vars.iter().position(|v| Some(v.name) == case["variant"].as_str()) else {
        out.machinery_errors.push("replay: unknown variant".into());
        return out;
    };
    let n = vars[variant].blocks.len();
    let pair = |k: &str| (case[k][0].as_u64().unwrap_or(2) as usize, case[k][1].as_u64().unwrap_or(1) as usize);
    let wins: Vec<(usize, usize)> = (0..n).map(|i| pair(&format!("w{}", i + 1))).collect();
    let feed: Feed = case["feed"].as_array().map(|a| a.iter().filter_map(|p| Some((p.get(0)?.as_u64()? as usize, p.get(1)?.as_u64()? as usize, p.get(2)?.as_u64()? as usize))).collect()).unwrap_or_default();
    if feed.iter().any(|(s, ai, _)| *s >= n || *ai >= vars[variant].alphas[*s].len()) {
        out.machinery_errors.push("replay: feed refers to a stream or event the variant does not have".into());
        return out;
    }
    let policy = Policy::parse(case["policy"].as_str());
    let with_static = case["static"].as_bool().unwrap_or(false);
    let policy_in_text = case["policy_in_text"].as_bool().unwrap_or(false);
    if case["mode"].as_str() == Some("multi") {
        let mc = MtCase { variant, wins, policy, with_static, policy_in_text, feed };
        let schedule: Vec<usize> = case["schedule"].as_array().map(|a| a.iter().filter_map(|x| x.as_u64().map(|y| y as usize)).collect()).unwrap_or_default();
        out.evaluations += 1;
        match guarded(|| run_mt(&mc, &schedule)) {
            Ok(Ok((rows, trace))) => {
                for vd in mt_verdicts(&mc, &rows) {
                    out.fail(mt_case_json(&mc, &trace.choices), vd.symptom, vd.detail, mt_tags(&mc, vd.explained));
                    break;
                }
            }
            Ok(Err(e)) => {
                if e.contains("deadlock") || e.contains("stuck") {
                    out.fail(case.clone(), if e.contains("deadlock") { "deadlock" } else { "thread_never_reaches_next_point" }, e, mt_tags(&mc, "nothing"));
                } else {
                    out.machinery_errors.push(e);
                }
            }
            Err(p) => out.fail(case.clone(), "panic", p, mt_tags(&mc, "nothing")),
        }
        return out;
    }
    let _ = ctx;
    let cfg = Cfg {
        names: (case["names"].as_u64().unwrap_or(0) as usize).min(2),
        layout: (case["layout"].as_u64().unwrap_or(0) as usize).min(1),
        policy_in_text,
        op: OPS.iter().position(|o| Some(*o) == case["op"].as_str()).unwrap_or(0),
    };
    let c = Case { variant, wins, policy, with_static, cfg, feed };
    record(&mut out, &c, "replay");
    out
}
