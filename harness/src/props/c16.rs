//! C16 — the query parser is total and faithful.
//! Totality: every token string up to a length bound and every single (double) mutation of a seed
//! corpus through the four parser entry points under catch_unwind in crash-isolated workers.
//! Faithfulness: every AST of the generator grammar printed in six layouts parses to a tree with
//! the same structure.
use super::qgen::{self, Scope};
use super::ugen;
use crate::infra::{guarded, Ctx, PropDef, ShardOut};
use crate::reference::sparql_ast::*;
use kolibrie::parser::{parse_combined_query, parse_combined_query_with_options, parse_group_graph_pattern, parse_sparql_query};
use serde_json::{json, Value};
use shared::query as kq;

pub const DEF: PropDef = PropDef {
    id: "C16",
    level: "exploration",
    rule: "totality: (i) every string of <=3 (thorough <=4) tokens over a 34-token alphabet (keywords, braces, variables, IRIs, prefixed names, literals incl. multi-byte, triple quotes, << >>, ^^, @, backslash, #, bare multi-byte char, newline) joined with and without spaces; (ii) every single mutation (delete char at i / insert or substitute each of 14 special chars incl. multi-byte at i / truncate at i) of a seed corpus of ~60 requests covering SELECT forms, all six update forms and the RULE / REGISTER / RETRIEVE / ML.PREDICT extensions, and every double mutation of the shortest seeds (thorough); each input goes through parse_combined_query, parse_combined_query_with_options(_, true), parse_sparql_query and parse_group_graph_pattern under catch_unwind: never a panic, and Ok from the three whole-request parsers implies nothing but whitespace/comments remains. Literal escape matrix: every escape kind (\\t \\n \\\" \\\\ \\' \\b \\f \\r \\uXXXX \\UXXXXXXXX) followed by every kind of next character (closing quote, ASCII, multi-byte, another escape) after three prefixes, as triple object, FILTER operand and VALUES term: accepted, fully consumed, and the token handed on verbatim. Faithfulness: every query of the C01 generator list and every update of the C03 alphabet, printed in 6 layouts (canonical, minimal whitespace, newlines+comments, lower-case and mixed-case keywords, ;/, abbreviations with optional dots omitted), must parse, and the parsed tree converted to the reference AST must equal the generated AST (nesting, pattern order, lexical terms, filter tree, modifiers) for every layout. Round 3 additions. Totality: the token alphabet is extended by 11 tokens ($x % | [ ] = ex:a%41 ex:a\\.b a && !); ~35 further seeds cover the grammars no seed reached (MODEL / NEURAL RELATION / TRAIN NEURAL RELATION with DATA and QUERY, PROB hybrid incl. auto:cost, RSP rules, window specs with PT durations / STEP / REPORT / TICK / WITH POLICY steal|wait|timeout, NOT atoms, RULE+ML.PREDICT, RETRIEVE EVERY LATENT, FILTER functions, bare-arithmetic FILTER, $-variables, %HH and backslash escapes in prefixed names, WHERE omitted, FROM with prefixed names, aggregates without wrapper / alias, ORDER BY closed by '}', trailing ';' before . } GRAPH, ';' ',' inside quad blocks, a dot after FILTER); every seed (old and new) additionally gets the single-character mutations with 8 more special characters (% $ | [ ] = , ;) and TOKEN-LEVEL mutations: a harness-side lexer splits the seed into tokens and, at every token boundary, each of the ~75 tokens of a vocabulary (every keyword of the SPARQL and extension grammars, brackets, punctuation, a variable, an IRI, a literal, a multi-byte char, a junk token) is inserted, and every token is deleted, duplicated and swapped with its successor (thorough: also every PAIR of token-level mutations of the four shortest seeds and of one seed per extension grammar). Faithfulness: five more text variants of every generated query and update, derived from the canonical print by token rewriting - Glued (no whitespace wherever two tokens cannot merge: SELECT?s{?s<http://e/p>?o}), NoWhere (WHERE keyword omitted in SELECT and sub-SELECT), Prefixed (a PREFIX prologue, every IRI as a prefixed name, in every position incl. FROM / GRAPH / VALUES / FILTER; the parsed tree is compared after expanding the names with the prologue the parser returned), TrailSemi (a ';' after every property list, before '.' and before '}'), Dollar ($ sigil: tree must be that of the ?-text modulo the sigil) - plus ';' ',' abbreviations inside update quad blocks, extra updates with shared subjects, and extra queries whose sub-SELECT ends in ORDER BY. Operator precedence: every binary tree of <= 3 operators over && and || on four comparison atoms (plain, first / last atom negated, whole negated), printed with only the parentheses the grammar requires (a || b && c, (a || b) && c, a && b && c): the parsed filter must equal the generated one modulo associativity of chains of one operator (both sides flattened). Term matrix: besides the verbatim-token clause, the whole tree of each matrix request is compared with the tree built by hand from the request shape (token in the right position, both occurrences, nothing else). Forms: hand-written requests for constructs the generator AST cannot print (FILTER functions, bare arithmetic with precedence and left-associativity, aggregates without wrapper/alias, 'a', prefixed FROM, ';' before GRAPH, ORDER BY closed by '}', $-variables, %HH / backslash local names, quad-block abbreviations, WHERE omitted, multi-column VALUES with UNDEF) in canonical / lower-case / glued spelling against hand-built trees. Report-only (counters, no verdict): a junk token inserted at every token boundary of every accepted seed, counting the inputs that are still accepted with an identical tree (text the parser skipped). Non-trivial = mutation/token inputs that are accepted by at least one parser, and every faithfulness case; distinct by input text.",
    assumptions: &[
        "nesting deeper than the generator produces (stack exhaustion) is outside the explored space",
        "tree comparison is modulo the two normalisations the grammar itself makes unobservable: adjacent triples blocks merge, and a braced group with a single non-FILTER/BIND element is the element",
        "the clause 'Ok implies nothing but whitespace/comments remains' cannot fail for the three whole-request parsers as they are written today (they return Err on a non-empty remainder); it is kept as a guard against a change of that convention. Text that is skipped INSIDE an accepted request (e.g. after the OUTPUT block of a MODEL declaration) is only counted (junk_token_ignored_same_tree): the statement's 'whole input was consumed' does not fix whether that is a violation",
        "chains of one logical operator are compared modulo associativity (SPARQL's grammar makes them flat lists); precedence between && and || and the scope of ! are compared exactly",
        "keyword-case independence is demanded for the SPARQL fragment only; the extension grammars (RULE, REGISTER, MODEL, ...) match their keywords case-sensitively and are exercised for totality, not faithfulness",
    ],
    run,
    replay,
    cap_s: (55, 900),
    shards: 0,
};

// ---------------------------------------------------------------------------------------
// conversion of Kolibrie's syntax tree into the reference AST
// ---------------------------------------------------------------------------------------

fn unescape(s: &str) -> String {
    let mut o = String::new();
    let mut it = s.chars();
    while let Some(c) = it.next() {
        if c == '\\' {
            match it.next() {
                Some('n') => o.push('\n'),
                Some('r') => o.push('\r'),
                Some('t') => o.push('\t'),
                Some('"') => o.push('"'),
                Some('\\') => o.push('\\'),
                Some(x) => {
                    o.push('\\');
                    o.push(x)
                }
                None => o.push('\\'),
            }
        } else {
            o.push(c);
        }
    }
    o
}

fn term(s: &str) -> T {
    let s = s.trim();
    if let Some(n) = s.strip_prefix('?').or_else(|| s.strip_prefix('$')) {
        T::Var(n.to_string())
    } else if s.starts_with('<') && s.ends_with('>') && !s.starts_with("<<") {
        T::Iri(s[1..s.len() - 1].to_string())
    } else if s.starts_with('"') && s.ends_with('"') && s.len() >= 2 {
        T::Lit(unescape(&s[1..s.len() - 1]))
    } else if let Some(l) = s.strip_prefix("_:") {
        T::Bnode(l.to_string())
    } else {
        T::Num(s.to_string())
    }
}

/// parse the raw text of a comparison operand ("?v", "2", "(?v + 1) * 2") into arithmetic
fn parse_arith(text: &str) -> Option<Arith> {
    fn toks(text: &str) -> Vec<String> {
        let mut out = Vec::new();
        let mut cur = String::new();
        let mut in_lit = false;
        let mut in_comment = false;
        for c in text.chars() {
            // the operand text is a raw source slice: comments between its tokens belong to the layout
            if in_comment {
                if c == '\n' || c == '\r' {
                    in_comment = false;
                }
                continue;
            }
            if c == '#' && !in_lit && !cur.starts_with('<') {
                if !cur.is_empty() {
                    out.push(std::mem::take(&mut cur));
                }
                in_comment = true;
                continue;
            }
            if in_lit {
                cur.push(c);
                if c == '"' && !cur.ends_with("\\\"") {
                    in_lit = false;
                    out.push(std::mem::take(&mut cur));
                }
                continue;
            }
            match c {
                '"' => {
                    if !cur.is_empty() {
                        out.push(std::mem::take(&mut cur));
                    }
                    cur.push(c);
                    in_lit = true;
                }
                '(' | ')' | '+' | '*' | '/' => {
                    if !cur.is_empty() {
                        out.push(std::mem::take(&mut cur));
                    }
                    out.push(c.to_string());
                }
                '-' if cur.is_empty() || !cur.starts_with('<') => {
                    if !cur.is_empty() {
                        out.push(std::mem::take(&mut cur));
                    }
                    out.push(c.to_string());
                }
                c if c.is_whitespace() => {
                    if !cur.is_empty() {
                        out.push(std::mem::take(&mut cur));
                    }
                }
                c => cur.push(c),
            }
        }
        if !cur.is_empty() {
            out.push(cur);
        }
        out
    }
    fn operand(t: &[String], i: &mut usize) -> Option<Arith> {
        let tok = t.get(*i)?;
        if tok == "(" {
            *i += 1;
            let e = sum(t, i)?;
            if t.get(*i)? != ")" {
                return None;
            }
            *i += 1;
            return Some(e);
        }
        if matches!(tok.as_str(), ")" | "+" | "-" | "*" | "/") {
            return None;
        }
        *i += 1;
        Some(Arith::Operand(term(tok)))
    }
    fn product(t: &[String], i: &mut usize) -> Option<Arith> {
        let mut e = operand(t, i)?;
        while let Some(op) = t.get(*i) {
            if op == "*" || op == "/" {
                let mul = op == "*";
                *i += 1;
                let r = operand(t, i)?;
                e = if mul { Arith::Mul(Box::new(e), Box::new(r)) } else { Arith::Div(Box::new(e), Box::new(r)) };
            } else {
                break;
            }
        }
        Some(e)
    }
    fn sum(t: &[String], i: &mut usize) -> Option<Arith> {
        let mut e = product(t, i)?;
        while let Some(op) = t.get(*i) {
            if op == "+" || op == "-" {
                let add = op == "+";
                *i += 1;
                let r = product(t, i)?;
                e = if add { Arith::Add(Box::new(e), Box::new(r)) } else { Arith::Sub(Box::new(e), Box::new(r)) };
            } else {
                break;
            }
        }
        Some(e)
    }
    let t = toks(text);
    let mut i = 0;
    let e = sum(&t, &mut i)?;
    if i == t.len() {
        Some(e)
    } else {
        None
    }
}

fn conv_expr(f: &kq::FilterExpression) -> Result<Expr, String> {
    Ok(match f {
        kq::FilterExpression::Comparison(a, op, b) => {
            let op = match *op {
                "=" => Cmp::Eq,
                "!=" => Cmp::Ne,
                "<" => Cmp::Lt,
                "<=" => Cmp::Le,
                ">" => Cmp::Gt,
                ">=" => Cmp::Ge,
                o => return Err(format!("operator {}", o)),
            };
            match (parse_arith(a), parse_arith(b)) {
                (Some(Arith::Operand(x)), Some(Arith::Operand(y))) => Expr::Cmp(x, op, y),
                (Some(x), Some(y)) => Expr::ArithCmp(x, op, y),
                _ => Expr::Cmp(term(a), op, term(b)),
            }
        }
        kq::FilterExpression::And(a, b) => Expr::And(Box::new(conv_expr(a)?), Box::new(conv_expr(b)?)),
        kq::FilterExpression::Or(a, b) => Expr::Or(Box::new(conv_expr(a)?), Box::new(conv_expr(b)?)),
        kq::FilterExpression::Not(a) => Expr::Not(Box::new(conv_expr(a)?)),
        other => return Err(format!("unexpected filter node {:?}", other)),
    })
}

/// a pattern in "group position" (body of braces)
fn conv_group(p: &kq::GroupGraphPattern) -> Result<Group, String> {
    Ok(match p {
        kq::GroupGraphPattern::Unit => Group(vec![]),
        kq::GroupGraphPattern::Join(list) => {
            let mut v = Vec::new();
            for x in list {
                v.push(conv_elem(x)?);
            }
            Group(v)
        }
        single => Group(vec![conv_elem(single)?]),
    })
}

/// a pattern in "element position" (member of a group)
fn conv_elem(p: &kq::GroupGraphPattern) -> Result<Elem, String> {
    Ok(match p {
        kq::GroupGraphPattern::Unit => Elem::Nested(Group(vec![])),
        kq::GroupGraphPattern::Bgp(ts) => Elem::Triples(ts.iter().map(|(s, p, o)| tp(term(s), term(p), term(o))).collect()),
        kq::GroupGraphPattern::Join(_) => Elem::Nested(conv_group(p)?),
        kq::GroupGraphPattern::Union(bs) => {
            let mut v = Vec::new();
            for b in bs {
                v.push(conv_group(b)?);
            }
            Elem::Union(v)
        }
        kq::GroupGraphPattern::Graph { name, pattern } => Elem::Graph(term(name), conv_group(pattern)?),
        kq::GroupGraphPattern::Filter(f) => Elem::Filter(conv_expr(f)?),
        kq::GroupGraphPattern::Bind((func, args, out)) => {
            if *func != "CONCAT" {
                return Err(format!("bind function {}", func));
            }
            Elem::Bind(args.iter().map(|a| if a.starts_with('?') { term(a) } else { T::Lit(a.to_string()) }).collect(), out.trim_start_matches('?').to_string())
        }
        kq::GroupGraphPattern::Values(vc) => Elem::Values(
            vc.variables.iter().map(|v| v.trim_start_matches('?').to_string()).collect(),
            vc.values
                .iter()
                .map(|r| {
                    r.iter()
                        .map(|c| match c {
                            kq::Value::Undef => None,
                            kq::Value::Term(t) => Some(term(t)),
                        })
                        .collect()
                })
                .collect(),
        ),
        kq::GroupGraphPattern::SubQuery(sq) => Elem::Sub(Box::new(conv_select(&sq.query)?)),
    })
}

pub fn conv_select(q: &kq::SelectQuery) -> Result<Select, String> {
    let proj = if q.variables == vec![("*", "*", None)] {
        Proj::Star
    } else {
        let mut items = Vec::new();
        for (kind, var, alias) in &q.variables {
            let v = var.trim_start_matches('?').to_string();
            items.push(match *kind {
                "VAR" => ProjItem::Var(v),
                k => {
                    let f = match k {
                        "SUM" => Agg::Sum,
                        "MIN" => Agg::Min,
                        "MAX" => Agg::Max,
                        "AVG" => Agg::Avg,
                        o => return Err(format!("aggregate {}", o)),
                    };
                    ProjItem::Agg(f, v, alias.map(|a| a.trim_start_matches('?').to_string()).unwrap_or_default())
                }
            });
        }
        Proj::Items(items)
    };
    let strip_iri = |s: &&str| s.trim().trim_start_matches('<').trim_end_matches('>').to_string();
    Ok(Select {
        distinct: q.distinct,
        proj,
        from: q.from.iter().map(strip_iri).collect(),
        from_named: q.from_named.iter().map(strip_iri).collect(),
        pattern: conv_group(&q.pattern)?,
        group_by: q.group_vars.iter().map(|v| v.trim_start_matches('?').to_string()).collect(),
        order_by: q.order_conditions.iter().map(|c| (c.variable.trim_start_matches('?').to_string(), c.direction == kq::SortDirection::Desc)).collect(),
        limit: q.limit,
    })
}

fn conv_quads(qs: &[kq::LexicalQuadPattern]) -> Vec<QuadT> {
    qs.iter().map(|q| QuadT { g: q.graph.map(term), t: tp(term(q.triple.0), term(q.triple.1), term(q.triple.2)) }).collect()
}

pub fn conv_update(u: &kq::UpdateOperation) -> Result<Update, String> {
    Ok(match u {
        kq::UpdateOperation::InsertData(c) => Update::InsertData(conv_quads(&c.quads)),
        kq::UpdateOperation::DeleteData(c) => Update::DeleteData(conv_quads(&c.quads)),
        kq::UpdateOperation::InsertWhere { insert, where_pattern } => Update::Modify { delete: None, insert: Some(conv_quads(&insert.quads)), pattern: conv_group(where_pattern)? },
        kq::UpdateOperation::DeleteWhere { delete, where_pattern } => Update::Modify { delete: Some(conv_quads(&delete.quads)), insert: None, pattern: conv_group(where_pattern)? },
        kq::UpdateOperation::DeleteInsertWhere { delete, insert, where_pattern } => {
            Update::Modify { delete: Some(conv_quads(&delete.quads)), insert: Some(conv_quads(&insert.quads)), pattern: conv_group(where_pattern)? }
        }
        kq::UpdateOperation::DeleteWhereShorthand { delete, .. } => Update::DeleteWhere(conv_quads(&delete.quads)),
    })
}

// normalisation applied to both sides

fn norm_group(g: &Group) -> Group {
    let mut out: Vec<Elem> = Vec::new();
    fn push(out: &mut Vec<Elem>, e: Elem) {
        if let Elem::Triples(ts) = &e {
            if let Some(Elem::Triples(prev)) = out.last_mut() {
                prev.extend(ts.iter().cloned());
                return;
            }
        }
        out.push(e);
    }
    for e in &g.0 {
        match e {
            Elem::Nested(inner) => {
                let n = norm_group(inner);
                if n.0.len() == 1 && !matches!(n.0[0], Elem::Filter(_) | Elem::Bind(..)) {
                    push(&mut out, n.0[0].clone());
                } else {
                    out.push(Elem::Nested(n));
                }
            }
            Elem::Graph(t, inner) => out.push(Elem::Graph(t.clone(), norm_group(inner))),
            Elem::Union(bs) => out.push(Elem::Union(bs.iter().map(norm_group).collect())),
            Elem::Sub(s) => out.push(Elem::Sub(Box::new(norm_select(s)))),
            Elem::Triples(ts) => push(&mut out, Elem::Triples(ts.clone())),
            other => out.push(other.clone()),
        }
    }
    // a group that consists of exactly one nested group is that group
    if out.len() == 1 {
        if let Elem::Nested(inner) = &out[0] {
            return inner.clone();
        }
    }
    Group(out)
}

pub fn norm_select(s: &Select) -> Select {
    let mut s = s.clone();
    s.pattern = norm_group(&s.pattern);
    s
}

fn norm_quads(q: &[QuadT]) -> Vec<QuadT> {
    q.to_vec()
}

fn norm_update(u: &Update) -> Update {
    match u {
        Update::Modify { delete, insert, pattern } => Update::Modify { delete: delete.as_ref().map(|d| norm_quads(d)), insert: insert.as_ref().map(|d| norm_quads(d)), pattern: norm_group(pattern) },
        other => other.clone(),
    }
}

// ---------------------------------------------------------------------------------------
// totality
// ---------------------------------------------------------------------------------------

pub const TOKENS: [&str; 34] = [
    "\"\\u0041\"", "\"x\\u00e9\"", "\"\\U0001F600é\"", "<http://e/\\u0041>",
    "SELECT", "WHERE", "{", "}", "?x", "<http://e/a>", "ex:a", "\"lit\"", "\"é\"", "'''", "<<", ">>", "^^", "@en", "\\", "#", "é", "\n", ".", ";", ",", "(", ")", "FILTER", "GRAPH", "UNION", "INSERT", "DELETE", "DATA", "*",
];

pub const SPECIALS: [&str; 14] = ["\"", "'", "\\", "<", ">", "{", "}", "é", "😀", "?", "#", " ", "\n", "("];

pub fn seed_corpus() -> Vec<String> {
    let mut v: Vec<String> = Vec::new();
    for s in qgen::queries(Scope::Tiny).iter().step_by(9) {
        v.push(print_select(s, Layout::Canonical));
    }
    for (k, s) in qgen::queries(Scope::Tiny).iter().enumerate().filter(|(k, _)| k % 31 == 0) {
        v.push(print_select(s, LAYOUTS[k % LAYOUTS.len()]));
    }
    for r in ugen::alphabet() {
        v.push(r.text());
    }
    v.push("PREFIX ex: <http://e/> SELECT ?s WHERE { ?s ex:p \"é\"@en ; a ex:T . FILTER(?s != ex:a) }".into());
    v.push("PREFIX ex: <http://e/> SELECT ?s WHERE { << ?s ex:p ?o >> ex:q ?c . }".into());
    v.push("SELECT ?s WHERE { ?s <http://e/p> '''long\nliteral''' . }".into());
    v.push("SELECT ?s WHERE { ?s <http://e/p> \"x\"^^<http://www.w3.org/2001/XMLSchema#string> . }".into());
    v.push("SELECT ?s WHERE { ?s <http://e/q> ?v . FILTER((?v + 1) * 2 > 3) }".into());
    v.push("SELECT ?s WHERE { ?s <http://e/p> \"caf\\u00e9\" . }".into());
    v.push("SELECT ?s WHERE { ?s <http://e/p> \"\\u0041é\\t\\\"q\\\"\\U0001F600\"@en . FILTER(?s != <http://e/\\u0041>) }".into());
    v.push("INSERT DATA { <http://e/a> <http://e/p> \"l\\u00e9\\n\" . }".into());
    v.push("RULE :OverheatingAlert :- CONSTRUCT { ?room ex:overheatingAlert true . } WHERE { ?reading ex:room ?room ; ex:temperature ?temp FILTER (?temp > 80) }".into());
    v.push("RULE :R PROB(combination=independent, threshold=0.3, confidence=0.9) :- CONSTRUCT { ?x :r ?z . } WHERE { ?x :r ?y . ?y :r ?z . }".into());
    v.push("REGISTER ISTREAM <http://out/stream> AS SELECT * FROM NAMED WINDOW :w ON ?stream [RANGE 3 STEP 1] WHERE { WINDOW :w { ?s a <http://test/IType> . } }".into());
    v.push("REGISTER RSTREAM <http://out/stream> AS SELECT * FROM NAMED WINDOW :a ON :sa [RANGE 10 STEP 2] FROM NAMED WINDOW :b ON :sb [RANGE 10 STEP 2] WHERE { WINDOW :a { ?s1 a <http://test/A> . } WINDOW :b { ?s2 a <http://test/B> . } }".into());
    v.push("ML.PREDICT( MODEL \"m\", INPUT { SELECT ?room ?h WHERE { ?room :humidity ?h } }, OUTPUT ?t )".into());
    v.push("RETRIEVE SOME ACTIVE STREAM ?s FROM <http://my.org/catalog> WITH { ?s a :Stream . }".into());
    // update forms behind a prologue or an extension clause (operation-kind checks must still see them)
    v.push("PREFIX ex: <http://e/> INSERT DATA { ex:a ex:p ex:b . }".into());
    v.push("PREFIX ex: <http://e/>\nPREFIX f: <http://f/>\nDELETE { ?s ex:p ?o } INSERT { ?s f:p ?o } WHERE { ?s ex:p ?o }".into());
    v.push("RULE :R :- CONSTRUCT { ?x :r ?z . } WHERE { ?x :r ?y . ?y :r ?z . } INSERT DATA { <http://e/a> <http://e/p> <http://e/b> . }".into());
    v.push("RULE :R :- CONSTRUCT { ?x :r ?z . } WHERE { ?x :r ?y . } SELECT ?s WHERE { ?s <http://e/p> ?o }".into());
    v.push("# comment first\nDELETE WHERE { ?s <http://e/p> ?o }".into());
    // numeric tokens at and beyond the magnitudes the implementation's integer / float types hold:
    // usize::MAX and usize::MAX + 1 as LIMIT (top level and in a sub-select of an update's WHERE), a
    // 40-digit LIMIT, and out-of-range numbers as FILTER operands and in an arithmetic expression
    v.push("SELECT ?s WHERE { ?s <http://e/p> ?o } LIMIT 18446744073709551615".into());
    v.push("SELECT ?s WHERE { ?s <http://e/p> ?o } LIMIT 18446744073709551616".into());
    v.push("SELECT ?s WHERE { ?s <http://e/p> ?o } ORDER BY ?s LIMIT 9999999999999999999999999999999999999999".into());
    v.push("INSERT { ?s <http://e/q> ?o } WHERE { { SELECT ?s ?o WHERE { ?s <http://e/p> ?o } LIMIT 18446744073709551616 } }".into());
    v.push("SELECT ?s WHERE { ?s <http://e/q> ?v . FILTER(?v < 99999999999999999999999999) }".into());
    v.push("SELECT ?s WHERE { ?s <http://e/q> ?v . FILTER(?v * 1e400 > -340282366920938463463374607431768211457) }".into());
    v
}

fn rest_is_blank(rest: &str) -> bool {
    let mut r = rest;
    loop {
        r = r.trim_start();
        if let Some(c) = r.strip_prefix('#') {
            r = match c.find(['\r', '\n']) {
                Some(i) => &c[i..],
                None => "",
            };
            continue;
        }
        return r.is_empty();
    }
}

/// run the four parsers on one input; returns (accepted-by-some-parser, failures)
pub fn totality_one(input: &str) -> (bool, Vec<(&'static str, String)>) {
    let mut fails = Vec::new();
    let mut accepted = false;
    // (name, closure) — each returns Ok(Some(rest)) on acceptance
    let r = guarded(|| parse_combined_query(input).ok().map(|(rest, _)| rest.to_string()));
    match r {
        Err(p) => fails.push(("panic:parse_combined_query", p)),
        Ok(Some(rest)) => {
            accepted = true;
            if !rest_is_blank(&rest) {
                fails.push(("accepted_with_trailing_input:parse_combined_query", format!("remaining {:?}", rest)));
            }
        }
        Ok(None) => {}
    }
    let r = guarded(|| parse_combined_query_with_options(input, true).ok().map(|(rest, _)| rest.to_string()));
    match r {
        Err(p) => fails.push(("panic:parse_combined_query_with_options", p)),
        Ok(Some(rest)) => {
            accepted = true;
            if !rest_is_blank(&rest) {
                fails.push(("accepted_with_trailing_input:parse_combined_query_with_options", format!("remaining {:?}", rest)));
            }
        }
        Ok(None) => {}
    }
    let r = guarded(|| parse_sparql_query(input).ok().map(|(rest, _)| rest.to_string()));
    match r {
        Err(p) => fails.push(("panic:parse_sparql_query", p)),
        Ok(Some(rest)) => {
            accepted = true;
            if !rest_is_blank(&rest) {
                fails.push(("accepted_with_trailing_input:parse_sparql_query", format!("remaining {:?}", rest)));
            }
        }
        Ok(None) => {}
    }
    let r = guarded(|| parse_group_graph_pattern(input).is_ok());
    match r {
        Err(p) => fails.push(("panic:parse_group_graph_pattern", p)),
        Ok(ok) => accepted |= ok,
    }
    (accepted, fails)
}

fn record_totality(out: &mut ShardOut, ctx: &Ctx, family: &str, input: &str) {
    if let Some(p) = &ctx.progress {
        p.mark(&json!({"family": family, "input": input}).to_string());
    }
    out.evaluations += 1;
    let (accepted, fails) = totality_one(input);
    if accepted {
        out.nontrivial(&input);
        out.count("accepted_inputs", 1);
    }
    out.outcomes.insert(accepted as u64 + 2 * (!fails.is_empty()) as u64);
    for (sym, detail) in fails {
        let (symptom, parser) = sym.split_once(':').unwrap_or((sym, ""));
        let multibyte = !input.is_ascii();
        let mut tags = vec![format!("family={}", family), format!("parser={}", parser), format!("multibyte={}", multibyte)];
        tags.extend(input_tags(input));
        out.fail(json!({"family": family, "input": input}), symptom, detail, tags);
    }
}

/// structural facts about a request text (which extension grammars it enters, keyword order inside
/// an ML.PREDICT INPUT block), used to scope findings narrowly
fn input_tags(input: &str) -> Vec<String> {
    let mut t: Vec<String> = Vec::new();
    for (kw, tag) in [
        ("ML.PREDICT", "has_ml_predict"),
        ("MODEL", "has_model"),
        ("NEURAL", "has_neural"),
        ("TRAIN", "has_train"),
        ("RULE", "has_rule"),
        ("REGISTER", "has_register"),
        ("RETRIEVE", "has_retrieve"),
        ("PROB", "has_prob"),
    ] {
        if input.contains(kw) {
            t.push(tag.to_string());
        }
    }
    if let Some(p) = input.find("ML.PREDICT") {
        if let Some(i) = input[p..].find("INPUT") {
            let tail = &input[p + i..];
            if let (Some(w), Some(s)) = (tail.find("WHERE"), tail.find("SELECT")) {
                if w < s {
                    t.push("ml_predict_input_where_precedes_select".to_string());
                }
            }
        }
    }
    t
}

pub fn mutations(seed: &str, f: &mut dyn FnMut(String)) {
    mutations_with(seed, &SPECIALS, true, f)
}

/// `structural` = also truncate at i / delete the char at i (independent of the special characters)
fn mutations_with(seed: &str, specials: &[&str], structural: bool, f: &mut dyn FnMut(String)) {
    let idx: Vec<usize> = seed.char_indices().map(|(i, _)| i).chain(std::iter::once(seed.len())).collect();
    for (k, &i) in idx.iter().enumerate() {
        // truncate at i
        if structural {
            f(seed[..i].to_string());
        }
        // insert each special at i
        for sp in specials {
            f(format!("{}{}{}", &seed[..i], sp, &seed[i..]));
        }
        if k + 1 < idx.len() {
            let j = idx[k + 1];
            // delete char at i
            if structural {
                f(format!("{}{}", &seed[..i], &seed[j..]));
            }
            // substitute
            for sp in specials {
                f(format!("{}{}{}", &seed[..i], sp, &seed[j..]));
            }
        }
    }
}

// ---------------------------------------------------------------------------------------
// faithfulness
// ---------------------------------------------------------------------------------------

pub fn faithful_select(s: &Select, layout: Layout) -> Result<(), (String, String)> {
    let text = print_select(s, layout);
    let want = norm_select(s);
    for which in ["parse_combined_query", "parse_sparql_query"] {
        let got = guarded(|| -> Result<Select, String> {
            if which == "parse_sparql_query" {
                let (_, q) = parse_sparql_query(&text).map_err(|e| format!("rejected: {:?}", e))?;
                conv_select(&q)
            } else {
                let (_, c) = parse_combined_query(&text).map_err(|e| format!("rejected: {:?}", e))?;
                match c.sparql {
                    Some(kq::SparqlOperation::Select(q)) => conv_select(&q),
                    other => Err(format!("not parsed as SELECT: {:?}", other)),
                }
            }
        });
        match got {
            Err(p) => return Err(("panic".into(), format!("{} on {:?}: {}", which, text, p))),
            Ok(Err(e)) => return Err(("valid_query_rejected".into(), format!("{} on {:?}: {}", which, text, crate::infra::truncate(&e, 300)))),
            Ok(Ok(g)) => {
                let g = norm_select(&g);
                if g != want {
                    return Err(("tree_differs".into(), format!("{} on {:?}\n  parsed  : {:?}\n  expected: {:?}", which, text, g, want)));
                }
            }
        }
    }
    Ok(())
}

pub fn faithful_update(u: &Update, layout: Layout) -> Result<(), (String, String)> {
    let text = print_update(u, layout);
    let want = norm_update(u);
    let got = guarded(|| -> Result<Update, String> {
        let (_, c) = parse_combined_query(&text).map_err(|e| format!("rejected: {:?}", e))?;
        match c.sparql {
            Some(kq::SparqlOperation::Update(u)) => conv_update(&u),
            other => Err(format!("not parsed as Update: {:?}", other)),
        }
    });
    match got {
        Err(p) => Err(("panic".into(), format!("{:?}: {}", text, p))),
        Ok(Err(e)) => Err(("valid_query_rejected".into(), format!("{:?}: {}", text, crate::infra::truncate(&e, 300)))),
        Ok(Ok(g)) => {
            let g = norm_update(&g);
            if g != want {
                Err(("tree_differs".into(), format!("{:?}\n  parsed  : {:?}\n  expected: {:?}", text, g, want)))
            } else {
                Ok(())
            }
        }
    }
}

/// Literal escape matrix: every escape kind followed by every kind of next character (closing quote,
/// ASCII, multi-byte, another escape), in three syntactic positions. A valid literal token must be
/// accepted by the whole-request parsers, consumed entirely, and handed on verbatim.
pub fn escape_matrix() -> Vec<(String, String)> {
    let escapes = ["\\t", "\\n", "\\\"", "\\\\", "\\'", "\\u0041", "\\u00e9", "\\U0001F600", "\\b", "\\f", "\\r"];
    let mut lits: Vec<String> = Vec::new();
    for pre in ["", "a", "é"] {
        for e1 in escapes {
            let mut nexts: Vec<String> = vec!["".into(), "a".into(), "é".into(), "😀".into(), " ".into()];
            nexts.extend(escapes.iter().map(|x| x.to_string()));
            for n in nexts {
                for suf in ["", "z"] {
                    lits.push(format!("\"{}{}{}{}\"", pre, e1, n, suf));
                }
            }
        }
    }
    let mut out = Vec::new();
    for l in lits {
        out.push((format!("SELECT ?s WHERE {{ ?s <http://e/p> {} . }}", l), l.clone()));
        out.push((format!("SELECT ?s WHERE {{ ?s <http://e/p> ?o . FILTER(?o = {}) }}", l), l.clone()));
        out.push((format!("SELECT ?s WHERE {{ VALUES ?o {{ {} }} ?s <http://e/p> ?o . }}", l), l.clone()));
    }
    out
}

/// Term matrix: every kind of RDF term token the scanners know (numeric literals with sign /
/// fraction / exponent, booleans, language-tagged and datatyped literals, single-, triple-quoted
/// literals, blank nodes, prefixed names with dots / empty prefix / empty local part, IRIs with a
/// fragment or a numeric escape, `a`), in every position where the grammar allows it. Each entry is
/// (request text, token that must appear verbatim in the tree, shape of the request).
pub fn term_cases() -> Vec<TermCase> {
    let prologue = "PREFIX ex: <http://e/> PREFIX : <http://d/> ";
    let objects = [
        "1",
        "-1",
        "+1",
        "1.5",
        "-1.5",
        ".5",
        "1e3",
        "1.5E-3",
        "-1.0e+2",
        "true",
        "false",
        "\"x\"@en",
        "\"x\"@en-US",
        "\"x\"^^<http://e/dt>",
        "\"x\"^^ex:dt",
        "\"7\"^^<http://www.w3.org/2001/XMLSchema#integer>",
        "'x'",
        "'x y'@en",
        "'''x'y'''",
        "\"\"\"x\"y\"\"\"",
        "\"\"\"two\nlines\"\"\"",
        "\"\"",
        "''",
        "_:b1",
        "_:b-1",
        "_:b.1",
        "ex:a",
        "ex:a.b",
        "ex:a-b_c",
        "ex:1a",
        ":a",
        "ex:",
        ":",
        "<http://e/a#frag>",
        "<http://e/a?x=1&y=2>",
        "<http://e/\\u0041>",
        "<urn:x:y>",
        "<< <http://e/a> <http://e/p> <http://e/b> >>",
        "<< ?s ex:p \"x\" >>",
    ];
    let subjects = ["_:b1", "ex:a", ":a", "ex:a.b", "<http://e/a#frag>", "<urn:x:y>", "<< <http://e/a> <http://e/p> <http://e/b> >>"];
    let predicates = ["a", "ex:p", ":p", "ex:p.q", "<http://e/p#frag>", "<urn:p>"];
    let mut out: Vec<TermCase> = Vec::new();
    let mut push = |text: String, token: &str, shape: TShape| out.push(TermCase { text, token: token.to_string(), shape });
    for o in objects {
        push(format!("{}SELECT ?s WHERE {{ ?s ex:p {} . }}", prologue, o), o, TShape::ObjDot);
        push(format!("{}SELECT ?s WHERE {{ ?s ex:p {} }}", prologue, o), o, TShape::ObjNoDot);
        push(format!("{}SELECT ?s WHERE {{ ?s ex:p {} ; ex:q ?z , {} . }}", prologue, o, o), o, TShape::ObjAbbrev);
        if !o.starts_with("_:") && !o.starts_with("<<") {
            push(format!("{}SELECT ?s WHERE {{ VALUES ?o {{ {} }} ?s ex:p ?o . }}", prologue, o), o, TShape::ValuesOne);
            push(format!("{}SELECT ?s WHERE {{ ?s ex:p ?o . FILTER(?o = {}) }}", prologue, o), o, TShape::FilterEq);
        }
        if !o.starts_with("<<") {
            push(format!("{}INSERT DATA {{ ex:s ex:p {} . }}", prologue, o), o, TShape::InsertData);
        }
    }
    for t in subjects {
        push(format!("{}SELECT ?o WHERE {{ {} ex:p ?o . }}", prologue, t), t, TShape::Subj);
    }
    for t in predicates {
        push(format!("{}SELECT ?o WHERE {{ ?s {} ?o . }}", prologue, t), t, TShape::Pred);
        push(format!("{}SELECT ?o WHERE {{ GRAPH ex:g {{ ?s {} ?o }} }}", prologue, t), t, TShape::PredInGraph);
    }
    for gname in ["ex:g", ":g", "<http://e/g#1>", "?g"] {
        push(format!("{}SELECT ?o FROM <http://e/g1> FROM NAMED <http://e/g2> WHERE {{ GRAPH {} {{ ?s ex:p ?o }} }}", prologue, gname), gname, TShape::GraphName);
    }
    out
}

/// (request text, token that must appear verbatim in the tree)
pub fn term_matrix() -> Vec<(String, String)> {
    term_cases().into_iter().map(|c| (c.text, c.token)).collect()
}

/// Err((symptom, detail)) when a valid term token is not accepted verbatim by parse_combined_query
pub fn term_matrix_one(text: &str, token: &str) -> Result<(), (String, String)> {
    let got = guarded(|| -> Result<String, String> {
        let (rest, c) = parse_combined_query(text).map_err(|e| format!("rejected: {:?}", e))?;
        if !rest_is_blank(rest) {
            return Err(format!("trailing input {:?}", rest));
        }
        Ok(format!("{:?}", c.sparql))
    });
    match got {
        Err(p) => Err(("panic".into(), format!("parse_combined_query on {:?}: {}", text, p))),
        Ok(Err(e)) => Err(("valid_query_rejected".into(), format!("{:?}: {}", text, crate::infra::truncate(&e, 300)))),
        Ok(Ok(debug)) => {
            let needle = format!("{:?}", token);
            let needle = &needle[1..needle.len() - 1];
            if debug.contains(needle) {
                Ok(())
            } else {
                Err(("tree_differs".into(), format!("{:?}: token {} not found verbatim in {}", text, token, crate::infra::truncate(&debug, 500))))
            }
        }
    }
}

/// Err((symptom, detail)) when a valid literal token is not accepted verbatim
pub fn escape_matrix_one(text: &str, token: &str) -> Result<(), (String, String)> {
    for which in ["parse_sparql_query", "parse_combined_query"] {
        let got = guarded(|| -> Result<String, String> {
            let q = if which == "parse_sparql_query" {
                parse_sparql_query(text).map_err(|e| format!("rejected: {:?}", e))?.1
            } else {
                match parse_combined_query(text).map_err(|e| format!("rejected: {:?}", e))?.1.sparql {
                    Some(kq::SparqlOperation::Select(q)) => q,
                    other => return Err(format!("not parsed as SELECT: {:?}", other)),
                }
            };
            Ok(format!("{:?}", q.pattern))
        });
        match got {
            Err(p) => return Err(("panic".into(), format!("{} on {:?}: {}", which, text, p))),
            Ok(Err(e)) => return Err(("valid_query_rejected".into(), format!("{} on {:?}: {}", which, text, crate::infra::truncate(&e, 300)))),
            Ok(Ok(debug)) => {
                // the lexical token must appear verbatim in the tree (Debug escapes quotes and backslashes)
                let needle = format!("{:?}", token);
                let needle = &needle[1..needle.len() - 1];
                if !debug.contains(needle) {
                    return Err(("tree_differs".into(), format!("{} on {:?}: literal token {} not found verbatim in {}", which, text, token, crate::infra::truncate(&debug, 400))));
                }
            }
        }
    }
    Ok(())
}

/// updates that the parser itself must refuse (syntactic validation of DATA blocks)
fn update_is_syntactically_valid(u: &Update) -> bool {
    let has_var = |q: &Vec<QuadT>| q.iter().any(|x| x.t.s.is_var() || x.t.p.is_var() || x.t.o.is_var());
    let has_b = |q: &Vec<QuadT>| q.iter().any(|x| matches!(x.t.s, T::Bnode(_)) || matches!(x.t.o, T::Bnode(_)));
    match u {
        Update::InsertData(q) => !has_var(q),
        Update::DeleteData(q) => !has_var(q) && !has_b(q),
        Update::Modify { delete, .. } => !delete.as_ref().map_or(false, has_b),
        Update::DeleteWhere(q) => !has_b(q),
    }
}

// ---------------------------------------------------------------------------------------
// round 3, totality: extended alphabets, seeds of the extension grammars, token-level mutations
// ---------------------------------------------------------------------------------------

/// tokens added to the token-string alphabet of C16 (C17 keeps using `TOKENS`)
pub const EXTRA_TOKENS: [&str; 11] = ["$x", "%", "|", "[", "]", "=", "ex:a%41", "ex:a\\.b", "a", "&&", "!"];

fn all_tokens() -> Vec<&'static str> {
    TOKENS.iter().chain(EXTRA_TOKENS.iter()).copied().collect()
}

/// special characters added to the single-character mutations of C16
pub const EXTRA_SPECIALS: [&str; 8] = ["%", "$", "|", "[", "]", "=", ",", ";"];

/// vocabulary of the token-level mutations: every keyword of the SPARQL and extension grammars,
/// brackets, punctuation, one term of each kind, a multi-byte character and a junk token
pub const VOCAB: [&str; 76] = [
    "SELECT", "WHERE", "INPUT", "OUTPUT", "MODEL", "FILTER", "GRAPH", "UNION", "INSERT", "DELETE", "DATA", "FROM", "NAMED", "WINDOW", "ON", "RULE", "PROB", "CONSTRUCT", "NOT", "REGISTER",
    "RETRIEVE", "VALUES", "BIND", "AS", "ORDER", "BY", "GROUP", "LIMIT", "DISTINCT", "PREFIX", "ML.PREDICT", "NEURAL", "RELATION", "TRAIN", "USING", "ARCH", "HIDDEN", "FEATURES", "LABEL",
    "TARGET", "QUERY", "STEP", "WITH", "POLICY", "UNDEF", "RSTREAM", "STREAM", "REPORT", "TICK", ":-", "{", "}", "(", ")", "[", "]", ",", ".", ";", "\"", "?x", "<http://e/a>", "\"lit\"", "é",
    "@@", "a", "*", "=", "&&", "||", "!", "<<", ">>", "1", "#", "ex:a",
];

/// Seeds for the grammars and branches that no seed of `seed_corpus` enters (audit F). Used by C16 only.
pub fn extra_seeds() -> Vec<String> {
    let mut v: Vec<String> = Vec::new();
    // neural declarations
    v.push("PREFIX ex: <http://e/>\nMODEL \"m\" {\n  ARCH MLP { HIDDEN [16, 8] }\n  OUTPUT EXCLUSIVE { \"A\", \"B\", \"C\" }\n}\nNEURAL RELATION ex:pred USING MODEL \"m\" {\n  INPUT { ?s ex:x0 ?x0 . ?s ex:x1 ?x1 . }\n  FEATURES { ?x0, ?x1 }\n}\nML.PREDICT(MODEL \"m\", INPUT { SELECT ?s ?x0 WHERE { ?s ex:x0 ?x0 . } }, OUTPUT ?l)".into());
    v.push("MODEL \"b\" { ARCH MLP { HIDDEN [4] } OUTPUT BINARY { \"yes\" } } SELECT ?s WHERE { ?s <http://e/p> ?o }".into());
    v.push("MODEL \"m\" { ARCH MLP { HIDDEN [8] } OUTPUT EXCLUSIVE { \"A\", \"B\" } }".into());
    v.push("NEURAL RELATION ex:pred USING MODEL \"m\" { INPUT { ?s ex:x0 ?x0 } FEATURES { ?x0 } }".into());
    v.push("TRAIN NEURAL RELATION ex:pred {\n  DATA { ?s ex:label ?l . }\n  LABEL ?l\n  TARGET { ?s ex:pred ?l }\n  LOSS cross_entropy\n  OPTIMIZER adam\n  LEARNING_RATE 0.001\n  EPOCHS 5\n  BATCH_SIZE 2\n  SAVE_TO \"m.bin\"\n}".into());
    v.push("TRAIN NEURAL RELATION ex:pred {\n  QUERY { SELECT ?s ?x ?l WHERE { ?s ex:x ?x . ?s ex:label ?l . } }\n  LABEL ?l\n  TARGET { ?s ex:pred ?l }\n  LOSS mse\n  OPTIMIZER sgd\n  LEARNING_RATE 0.5\n  EPOCHS 1\n  BATCH_SIZE 1\n}".into());
    // probabilistic rules: hybrid policy, cost ratio, overrides
    v.push("RULE :H PROB(provenance=hybrid, threshold=auto:cost(fp=2,fn=8), k_initial=4) :- CONSTRUCT { ?x <http://e/r> <http://e/yes> } WHERE { ?x <http://e/i> <http://e/yes> } .".into());
    v.push("RULE :H PROB(provenance=hybrid, threshold=0.7, band_epsilon=0.01, k_initial=4, k_max=32, k_growth=2, topk_budget_ms=10, sdd_budget_ms=100, node_budget=50000) :- CONSTRUCT { ?x <http://e/r> <http://e/yes> } WHERE { ?x <http://e/i> <http://e/yes> }".into());
    v.push("RULE :M PROB(provenance=minmax, threshold=0.3) :- CONSTRUCT { ?x :r ?z . } WHERE { ?x :r ?y . ?y :r ?z . }".into());
    // negation, RSP rule, rule followed by ML.PREDICT
    v.push("RULE :N :- CONSTRUCT { ?x :ok ?y . } WHERE { ?x :r ?y . NOT ?y :bad ?x . }".into());
    v.push("RULE :W :- RSTREAM FROM NAMED WINDOW :w ON :s [SLIDING PT10M STEP PT1M REPORT ON_WINDOW_CLOSE TICK TIME_DRIVEN] WITH POLICY (timeout=5s, fallback=drop) CONSTRUCT { ?s :alert true . } WHERE { ?s :t ?v . }".into());
    v.push("RULE :R :- CONSTRUCT { ?x :p ?y . } WHERE { ?x :r ?y . } ML.PREDICT( MODEL \"m\", INPUT { SELECT ?x WHERE { ?x :r ?y } }, OUTPUT ?y )".into());
    // window specifications and policies
    v.push("REGISTER DSTREAM <http://out/s> AS SELECT ?s FROM NAMED WINDOW :w ON <http://e/stream> [TUMBLING PT5S REPORT NON_EMPTY_CONTENT TICK TUPLE_DRIVEN] WITH POLICY steal FROM NAMED WINDOW :w2 ON ?s2 [RANGE 10 STEP 2] WITH POLICY wait WHERE { WINDOW :w { ?s a <http://e/T> . } WINDOW :w2 { ?s <http://e/p> ?o } }".into());
    v.push("REGISTER RSTREAM <http://out/s> AS SELECT ?s FROM NAMED WINDOW :w ON :st [RANGE PT1H STEP PT30M REPORT PERIODIC] WITH POLICY (timeout=500ms, fallback=steal) WHERE { WINDOW :w { ?s :p ?o } FILTER(?o > 1) }".into());
    v.push("RETRIEVE EVERY LATENT STREAM ?s FROM <http://my.org/catalog> WITH { ?s a :Stream ; :rate ?r . ?s :x \"lit\" . }".into());
    // SPARQL forms
    v.push("SELECT ?t WHERE { ?t <http://e/p> ?o . FILTER(isTRIPLE(?t)) }".into());
    v.push("SELECT ?t WHERE { ?t <http://e/p> ?o . FILTER(TRIPLE(?s, <http://e/p>, \"x\")) FILTER(SUBJECT(<< ?s <http://e/p> ?o >>)) FILTER(!isTRIPLE(?o) && (PREDICATE(?t) || OBJECT(?t))) }".into());
    v.push("SELECT $s WHERE { $s <http://e/p> $o }".into());
    v.push("PREFIX ex: <http://e/> SELECT ?s WHERE { ?s ex:a%41 ex:a\\.b ; ex:p\\~q ?o }".into());
    v.push("SELECT ?s { ?s <http://e/p> ?o }".into());
    v.push("PREFIX ex: <http://e/> SELECT ?s FROM ex:g1 FROM NAMED ex:g2 WHERE { GRAPH ex:g2 { ?s a ex:T } }".into());
    v.push("SELECT ?s SUM(?v) (MAX(?v) AS ?m) MIN(?v) AS ?lo WHERE { ?s <http://e/q> ?v } GROUP BY ?s".into());
    v.push("SELECT ?s WHERE { { SELECT ?s ?o WHERE { ?s <http://e/p> ?o } ORDER BY DESC(?o) ?s } }".into());
    v.push("SELECT ?s WHERE { ?s <http://e/p> ?o ; . ?o <http://e/p> ?z ; }".into());
    v.push("SELECT ?s WHERE { ?s <http://e/p> ?o ; GRAPH <http://e/g1> { ?s <http://e/p> ?z ; } }".into());
    v.push("SELECT ?s WHERE { { ?s <http://e/p> ?o ; } UNION { ?s <http://e/q> ?o } }".into());
    v.push("INSERT DATA { <http://e/a> <http://e/p> <http://e/b> , <http://e/c> ; <http://e/q> \"1\" . GRAPH <http://e/g1> { <http://e/a> <http://e/p> <http://e/b> ; <http://e/q> \"2\" , \"3\" } }".into());
    v.push("DELETE { ?s <http://e/p> ?o ; <http://e/q> ?v } INSERT { GRAPH ?g { ?s <http://e/p> ?o , ?v } } WHERE { GRAPH ?g { ?s <http://e/p> ?o ; <http://e/q> ?v } }".into());
    v.push("SELECT ?s WHERE { ?s <http://e/q> ?v . FILTER(?v) FILTER(?v + 1 * 2) }".into());
    v.push("SELECT ?s WHERE { ?s <http://e/q> ?v . FILTER(?v > 1 && ?v < 5 || ?v = 9 && !(?v = 3)) }".into());
    v.push("SELECT ?s WHERE { ?s <http://e/q> ?v . FILTER(?v > 1) . ?s <http://e/p> ?o }".into());
    v.push("SELECT?s{?s<http://e/p>?o.?o<http://e/q>\"1\"}LIMIT 2".into());
    v.push("SELECT ?s WHERE { VALUES (?s ?v) { (<http://e/a> \"1\") (UNDEF 2.5) } BIND(CONCAT(?v, \"k\") AS ?n) }".into());
    v
}

/// Harness-side lexer: byte spans of the tokens of a request text (quoted literals, IRIs, comments
/// and words are one token each; everything else is single punctuation). It only decides WHERE the
/// token-level mutations are placed, so its precision is irrelevant for soundness.
pub fn lex_spans(s: &str) -> Vec<(usize, usize)> {
    let n = s.len();
    let mut out = Vec::new();
    let mut i = 0;
    let word = |c: char| c.is_alphanumeric() || matches!(c, '_' | '?' | '$' | ':' | '-' | '%' | '\\' | '@' | '^');
    while i < n {
        let c = s[i..].chars().next().unwrap();
        if c.is_whitespace() {
            i += c.len_utf8();
            continue;
        }
        let start = i;
        if c == '#' {
            let end = s[i..].find(['\n', '\r']).map_or(n, |k| i + k);
            out.push((start, end));
            i = end;
            continue;
        }
        if c == '"' || c == '\'' {
            let triple = s[i..].starts_with(&c.to_string().repeat(3));
            let dl = if triple { 3 } else { 1 };
            let delim = c.to_string().repeat(dl);
            let mut j = i + dl;
            let mut end = n;
            while j < n {
                if s[j..].starts_with(&delim) {
                    end = j + dl;
                    break;
                }
                let cj = s[j..].chars().next().unwrap();
                if cj == '\\' {
                    j += 1;
                    if j < n {
                        j += s[j..].chars().next().unwrap().len_utf8();
                    }
                    continue;
                }
                if !triple && (cj == '\n' || cj == '\r') {
                    end = j;
                    break;
                }
                j += cj.len_utf8();
            }
            let end = end.min(n).max(start + 1);
            out.push((start, end));
            i = end;
            continue;
        }
        if c == '<' {
            // an IRI if a '>' comes before any whitespace or '<'
            let rest = &s[i + 1..];
            if let Some(k) = rest.find(|x: char| x == '>' || x == '<' || x.is_whitespace()) {
                if rest[k..].starts_with('>') && k > 0 {
                    out.push((start, i + 1 + k + 1));
                    i = i + 1 + k + 1;
                    continue;
                }
            }
        }
        if word(c) {
            let mut j = i;
            while j < n {
                let cj = s[j..].chars().next().unwrap();
                if word(cj) {
                    j += cj.len_utf8();
                } else if cj == '.' && s[j + 1..].chars().next().is_some_and(|x| x.is_alphanumeric()) && j > i {
                    j += 1;
                } else {
                    break;
                }
            }
            out.push((start, j));
            i = j;
            continue;
        }
        let two = ["<<", ">>", "&&", "||", "!=", "<=", ">="];
        if let Some(t) = two.iter().find(|t| s[i..].starts_with(**t)) {
            out.push((start, i + t.len()));
            i += t.len();
            continue;
        }
        out.push((start, i + c.len_utf8()));
        i += c.len_utf8();
    }
    out
}

/// Token-level mutations of a seed: insert each vocabulary token at each token boundary, delete,
/// duplicate each token, swap each pair of adjacent tokens (whitespace between tokens is kept).
pub fn token_mutations(seed: &str, f: &mut dyn FnMut(String)) {
    let spans = lex_spans(seed);
    let mut bounds: Vec<usize> = spans.iter().map(|(a, _)| *a).collect();
    bounds.push(seed.len());
    for &pos in &bounds {
        for v in VOCAB {
            f(format!("{}{} {}", &seed[..pos], v, &seed[pos..]));
        }
    }
    for (k, &(a, b)) in spans.iter().enumerate() {
        f(format!("{}{}", &seed[..a], &seed[b..]));
        f(format!("{} {}{}", &seed[..b], &seed[a..b], &seed[b..]));
        if let Some(&(c, d)) = spans.get(k + 1) {
            f(format!("{}{}{}{}{}", &seed[..a], &seed[c..d], &seed[b..c], &seed[a..b], &seed[d..]));
        }
    }
}

/// Debug rendering of a whole parsed request with the prefix map in sorted order (HashMap order is
/// not stable between instances)
fn tree_debug(c: &kq::CombinedQuery) -> String {
    let mut prefixes: Vec<(&String, &String)> = c.prefixes.iter().collect();
    prefixes.sort();
    format!("{:?}|{:?}|{:?}|{:?}|{:?}|{:?}|{:?}|{:?}|{:?}", prefixes, c.retrieve_clause, c.register_clause, c.model_decls, c.neural_relation_decls, c.train_neural_relation_decls, c.rule, c.ml_predict, c.sparql)
}

/// REPORT ONLY. A junk token at every token boundary of an accepted seed: counts the inputs that are
/// still accepted with an identical tree, i.e. text the parser skipped without representing it.
fn junk_probe(out: &mut ShardOut, seed: &str) {
    let base = match guarded(|| parse_combined_query(seed).ok().map(|(_, c)| tree_debug(&c))) {
        Ok(Some(d)) => d,
        _ => return,
    };
    out.count("junk_probe_seeds", 1);
    let spans = lex_spans(seed);
    let mut bounds: Vec<usize> = spans.iter().map(|(a, _)| *a).collect();
    // the end of the text is a boundary unless a comment runs up to it
    if !spans.last().is_some_and(|(a, _)| seed[*a..].starts_with('#')) {
        bounds.push(seed.len());
    }
    for pos in bounds {
        let m = format!("{}@@ {}", &seed[..pos], &seed[pos..]);
        out.count("junk_probe_inputs", 1);
        if let Ok(Some(d)) = guarded(|| parse_combined_query(&m).ok().map(|(_, c)| tree_debug(&c))) {
            out.count("junk_token_accepted", 1);
            if d == base {
                out.count("junk_token_ignored_same_tree", 1);
                if out.counters.get("junk_token_ignored_same_tree") == Some(&1) {
                    out.sample(json!({"junk_token_ignored_same_tree": m}));
                }
            }
        }
    }
}

// ---------------------------------------------------------------------------------------
// round 3, faithfulness: text variants derived from the canonical print
// ---------------------------------------------------------------------------------------

#[derive(Clone, Copy, Debug, PartialEq, Eq)]
pub enum Variant {
    /// no whitespace wherever two neighbouring tokens cannot merge
    Glued,
    /// the optional WHERE keyword of SELECT omitted
    NoWhere,
    /// PREFIX prologue, IRIs written as prefixed names
    Prefixed,
    /// a ';' after every property list (before '.' and before '}')
    TrailSemi,
    /// '$' instead of '?' as the variable sigil
    Dollar,
}

pub const SELECT_VARIANTS: [Variant; 5] = [Variant::Glued, Variant::NoWhere, Variant::Prefixed, Variant::TrailSemi, Variant::Dollar];
pub const UPDATE_VARIANTS: [Variant; 4] = [Variant::Glued, Variant::Prefixed, Variant::TrailSemi, Variant::Dollar];

fn variant_of(name: &str) -> Option<Variant> {
    SELECT_VARIANTS.iter().copied().find(|v| format!("{:?}", v) == name)
}

/// The canonical layout separates all tokens by exactly one space; the split is only valid while no
/// literal contains a space, a backslash or a '$' (true for the generator's value universe; other
/// texts get no variants).
fn canon_tokens(text: &str) -> Option<Vec<&str>> {
    let toks: Vec<&str> = text.split(' ').collect();
    for t in &toks {
        if t.is_empty() || t.contains('$') || t.contains('\\') {
            return None;
        }
        if t.starts_with('"') && !(t.len() >= 2 && t.ends_with('"')) {
            return None;
        }
        if t.contains('"') && !t.starts_with('"') {
            return None;
        }
    }
    Some(toks)
}

fn variant_text(toks: &[&str], variant: Variant) -> String {
    match variant {
        Variant::Glued => {
            let is_op = |t: &str| matches!(t, "=" | "!=" | "<" | "<=" | ">" | ">=" | "&&" | "||" | "!" | "+" | "-" | "*" | "/");
            let word = |c: char| c.is_alphanumeric() || c == '_';
            let mut out = String::new();
            let mut prev: Option<&str> = None;
            for t in toks {
                if let Some(p) = prev {
                    let last = p.chars().last().unwrap();
                    let first = t.chars().next().unwrap();
                    let numeric_prev = p.chars().all(|c| c.is_ascii_digit());
                    // a '.' directly after a blank-node label or a prefixed name can continue that
                    // token (`_:n._:m` lexes as `_:n._` `:m` by longest match), so it keeps its space
                    let label_prev = p.starts_with("_:") || (!p.starts_with('<') && !p.starts_with('"') && !p.starts_with('?') && p.contains(':'));
                    if is_op(p) || is_op(t) || (word(last) && word(first)) || (last == '"' && first == '"') || ((numeric_prev || label_prev) && first == '.') {
                        out.push(' ');
                    }
                }
                out.push_str(t);
                prev = Some(t);
            }
            out
        }
        Variant::NoWhere => toks.iter().filter(|t| **t != "WHERE").copied().collect::<Vec<_>>().join(" "),
        Variant::Prefixed => {
            let mut out = vec!["PREFIX e: <http://e/>".to_string()];
            for t in toks {
                match t.strip_prefix("<http://e/").and_then(|x| x.strip_suffix('>')) {
                    Some(l) if !l.is_empty() && l.chars().all(|c| c.is_ascii_alphanumeric()) => out.push(format!("e:{}", l)),
                    _ => out.push(t.to_string()),
                }
            }
            out.join(" ")
        }
        Variant::TrailSemi => {
            let mut out: Vec<&str> = Vec::new();
            for (k, t) in toks.iter().enumerate() {
                if *t == "." {
                    out.push(";");
                    if toks.get(k + 1) != Some(&"}") {
                        out.push(".");
                    }
                } else {
                    out.push(t);
                }
            }
            out.join(" ")
        }
        Variant::Dollar => toks.iter().map(|t| if let Some(n) = t.strip_prefix('?') { format!("${}", n) } else { t.to_string() }).collect::<Vec<_>>().join(" "),
    }
}

// expansion of the names of the Prefixed variant in a converted tree
fn unprefix_t(t: &T) -> T {
    match t {
        T::Num(s) => match s.strip_prefix("e:") {
            Some(l) => T::Iri(format!("http://e/{}", l)),
            None => t.clone(),
        },
        _ => t.clone(),
    }
}
fn unprefix_tp(t: &TP) -> TP {
    tp(unprefix_t(&t.s), unprefix_t(&t.p), unprefix_t(&t.o))
}
fn unprefix_arith(a: &Arith) -> Arith {
    let b = |x: &Arith| Box::new(unprefix_arith(x));
    match a {
        Arith::Operand(t) => Arith::Operand(unprefix_t(t)),
        Arith::Add(x, y) => Arith::Add(b(x), b(y)),
        Arith::Sub(x, y) => Arith::Sub(b(x), b(y)),
        Arith::Mul(x, y) => Arith::Mul(b(x), b(y)),
        Arith::Div(x, y) => Arith::Div(b(x), b(y)),
    }
}
fn unprefix_expr(e: &Expr) -> Expr {
    match e {
        Expr::Cmp(a, op, b) => Expr::Cmp(unprefix_t(a), *op, unprefix_t(b)),
        Expr::ArithCmp(a, op, b) => Expr::ArithCmp(unprefix_arith(a), *op, unprefix_arith(b)),
        Expr::And(a, b) => Expr::And(Box::new(unprefix_expr(a)), Box::new(unprefix_expr(b))),
        Expr::Or(a, b) => Expr::Or(Box::new(unprefix_expr(a)), Box::new(unprefix_expr(b))),
        Expr::Not(a) => Expr::Not(Box::new(unprefix_expr(a))),
    }
}
fn unprefix_group(g: &Group) -> Group {
    Group(
        g.0.iter()
            .map(|e| match e {
                Elem::Triples(ts) => Elem::Triples(ts.iter().map(unprefix_tp).collect()),
                Elem::Graph(t, inner) => Elem::Graph(unprefix_t(t), unprefix_group(inner)),
                Elem::Union(bs) => Elem::Union(bs.iter().map(unprefix_group).collect()),
                Elem::Nested(inner) => Elem::Nested(unprefix_group(inner)),
                Elem::Filter(x) => Elem::Filter(unprefix_expr(x)),
                Elem::Bind(args, o) => Elem::Bind(args.iter().map(unprefix_t).collect(), o.clone()),
                Elem::Values(vars, rows) => Elem::Values(vars.clone(), rows.iter().map(|r| r.iter().map(|c| c.as_ref().map(unprefix_t)).collect()).collect()),
                Elem::Sub(s) => Elem::Sub(Box::new(unprefix_select(s))),
            })
            .collect(),
    )
}
fn unprefix_select(s: &Select) -> Select {
    let name = |x: &String| match x.strip_prefix("e:") {
        Some(l) => format!("http://e/{}", l),
        None => x.clone(),
    };
    let mut o = s.clone();
    o.from = s.from.iter().map(name).collect();
    o.from_named = s.from_named.iter().map(name).collect();
    o.pattern = unprefix_group(&s.pattern);
    o
}
fn unprefix_quads(q: &[QuadT]) -> Vec<QuadT> {
    q.iter().map(|x| QuadT { g: x.g.as_ref().map(unprefix_t), t: unprefix_tp(&x.t) }).collect()
}
fn unprefix_update(u: &Update) -> Update {
    match u {
        Update::InsertData(q) => Update::InsertData(unprefix_quads(q)),
        Update::DeleteData(q) => Update::DeleteData(unprefix_quads(q)),
        Update::DeleteWhere(q) => Update::DeleteWhere(unprefix_quads(q)),
        Update::Modify { delete, insert, pattern } => Update::Modify { delete: delete.as_ref().map(|d| unprefix_quads(d)), insert: insert.as_ref().map(|d| unprefix_quads(d)), pattern: unprefix_group(pattern) },
    }
}

fn prologue_ok(prefixes: &std::collections::HashMap<String, String>) -> bool {
    prefixes.len() == 1 && prefixes.get("e").map(String::as_str) == Some("http://e/")
}

/// Ok(None) = the variant does not apply to this text; Ok(Some(text)) = checked and faithful
pub fn faithful_select_variant(s: &Select, variant: Variant) -> Result<Option<String>, (String, String)> {
    let canonical = print_select(s, Layout::Canonical);
    let Some(toks) = canon_tokens(&canonical) else { return Ok(None) };
    let text = variant_text(&toks, variant);
    if variant == Variant::Dollar {
        // the tree of the $-text must be the tree of the ?-text modulo the sigil
        for which in ["parse_combined_query", "parse_sparql_query"] {
            let dbg = |t: &str| -> Result<Result<String, String>, String> {
                guarded(|| -> Result<String, String> {
                    if which == "parse_sparql_query" {
                        parse_sparql_query(t).map(|(_, q)| format!("{:?}", q)).map_err(|e| format!("rejected: {:?}", e))
                    } else {
                        parse_combined_query(t).map(|(_, c)| format!("{:?}", c.sparql)).map_err(|e| format!("rejected: {:?}", e))
                    }
                })
            };
            let base = match dbg(&canonical) {
                Ok(Ok(d)) => d,
                // the canonical text itself is judged by the Canonical layout case
                _ => return Ok(None),
            };
            match dbg(&text) {
                Err(p) => return Err(("panic".into(), format!("{} on {:?}: {}", which, text, p))),
                Ok(Err(e)) => return Err(("valid_query_rejected".into(), format!("{} on {:?}: {}", which, text, crate::infra::truncate(&e, 300)))),
                Ok(Ok(d)) => {
                    if d.replace('$', "?") != base {
                        return Err(("tree_differs".into(), format!("{} on {:?}\n  parsed  : {}\n  ?-text  : {}", which, text, crate::infra::truncate(&d, 600), crate::infra::truncate(&base, 600))));
                    }
                }
            }
        }
        return Ok(Some(text));
    }
    let want = norm_select(s);
    for which in ["parse_combined_query", "parse_sparql_query"] {
        let got = guarded(|| -> Result<Select, String> {
            if which == "parse_sparql_query" {
                let (_, q) = parse_sparql_query(&text).map_err(|e| format!("rejected: {:?}", e))?;
                conv_select(&q)
            } else {
                let (_, c) = parse_combined_query(&text).map_err(|e| format!("rejected: {:?}", e))?;
                if variant == Variant::Prefixed && !prologue_ok(&c.prefixes) {
                    return Err(format!("differs: prefix map {:?}", c.prefixes));
                }
                match c.sparql {
                    Some(kq::SparqlOperation::Select(q)) => conv_select(&q),
                    other => Err(format!("not parsed as SELECT: {:?}", other)),
                }
            }
        });
        match got {
            Err(p) => return Err(("panic".into(), format!("{} on {:?}: {}", which, text, p))),
            Ok(Err(e)) if e.starts_with("differs:") => return Err(("tree_differs".into(), format!("{} on {:?}: {}", which, text, e))),
            Ok(Err(e)) => return Err(("valid_query_rejected".into(), format!("{} on {:?}: {}", which, text, crate::infra::truncate(&e, 300)))),
            Ok(Ok(g)) => {
                let g = if variant == Variant::Prefixed { unprefix_select(&g) } else { g };
                let g = norm_select(&g);
                if g != want {
                    return Err(("tree_differs".into(), format!("{} on {:?}\n  parsed  : {:?}\n  expected: {:?}", which, text, g, want)));
                }
            }
        }
    }
    Ok(Some(text))
}

/// quad block with ';' (same subject) and ',' (same subject and predicate) abbreviations inside one graph run
fn abbrev_quads_text(quads: &[QuadT]) -> String {
    let mut out: Vec<String> = vec!["{".into()];
    let mut i = 0;
    while i < quads.len() {
        let g = &quads[i].g;
        let mut j = i;
        while j < quads.len() && &quads[j].g == g {
            j += 1;
        }
        if let Some(gt) = g {
            out.push("GRAPH".into());
            out.push(print_term(gt));
            out.push("{".into());
        }
        let run = &quads[i..j];
        let mut k = 0;
        while k < run.len() {
            let t = &run[k].t;
            out.push(print_term(&t.s));
            out.push(print_term(&t.p));
            out.push(print_term(&t.o));
            let mut m = k + 1;
            while m < run.len() && run[m].t.s == t.s {
                if run[m].t.p == run[m - 1].t.p {
                    out.push(",".into());
                } else {
                    out.push(";".into());
                    out.push(print_term(&run[m].t.p));
                }
                out.push(print_term(&run[m].t.o));
                m += 1;
            }
            out.push(".".into());
            k = m;
        }
        if g.is_some() {
            out.push("}".into());
        }
        i = j;
    }
    out.push("}".into());
    out.join(" ")
}

fn abbrev_update_text(u: &Update) -> String {
    match u {
        Update::InsertData(q) => format!("INSERT DATA {}", abbrev_quads_text(q)),
        Update::DeleteData(q) => format!("DELETE DATA {}", abbrev_quads_text(q)),
        Update::DeleteWhere(q) => format!("DELETE WHERE {}", abbrev_quads_text(q)),
        Update::Modify { delete, insert, pattern } => {
            let mut parts: Vec<String> = Vec::new();
            if let Some(d) = delete {
                parts.push(format!("DELETE {}", abbrev_quads_text(d)));
            }
            if let Some(i) = insert {
                parts.push(format!("INSERT {}", abbrev_quads_text(i)));
            }
            parts.push(format!("WHERE {}", print_group_text(pattern, Layout::Abbrev)));
            parts.join(" ")
        }
    }
}

/// the update list of the faithfulness family: the C03 alphabet plus updates whose quad blocks share
/// subjects and predicates (so that the ';' ',' printing has something to abbreviate)
pub fn all_updates() -> Vec<Update> {
    use super::common::*;
    let mut v = ugen::valid_updates();
    let i = |n: &str| T::iri(n);
    let var = |n: &str| T::var(n);
    let dq = |s: T, p: T, o: T| QuadT { g: None, t: tp(s, p, o) };
    let gq = |g: T, s: T, p: T, o: T| QuadT { g: Some(g), t: tp(s, p, o) };
    v.push(Update::InsertData(vec![dq(i(A), i(P), i(B)), dq(i(A), i(P), i(C)), dq(i(A), i(Q), T::lit("1")), gq(i(G1), i(A), i(P), i(B)), gq(i(G1), i(A), i(Q), T::lit("2")), gq(i(G1), i(A), i(Q), T::lit("x"))]));
    v.push(Update::DeleteData(vec![dq(i(A), i(P), i(B)), dq(i(A), i(Q), T::lit("1")), dq(i(B), i(P), i(C))]));
    v.push(Update::Modify {
        delete: Some(vec![dq(var("s"), i(P), var("o")), dq(var("s"), i(Q), var("v"))]),
        insert: Some(vec![gq(var("g"), var("s"), i(P), var("o")), gq(var("g"), var("s"), i(P), var("v"))]),
        pattern: Group(vec![Elem::Graph(var("g"), Group(vec![Elem::Triples(vec![tp(var("s"), i(P), var("o")), tp(var("s"), i(Q), var("v"))])]))]),
    });
    v.push(Update::DeleteWhere(vec![dq(var("s"), i(P), var("o")), dq(var("s"), i(Q), var("v")), gq(i(G1), var("s"), i(P), var("o")), gq(i(G1), var("s"), i(P), i(C))]));
    v.push(Update::Modify { delete: None, insert: Some(vec![dq(var("s"), i(P), T::Bnode("n".into())), dq(var("s"), i(Q), T::Bnode("n".into())), dq(T::Bnode("n".into()), i(P), var("o"))]), pattern: Group(vec![Elem::Triples(vec![tp(var("s"), i(P), var("o"))])]) });
    v
}

fn update_text(u: &Update, variant: Option<Variant>) -> Option<String> {
    match variant {
        None => Some(abbrev_update_text(u)),
        Some(v) => {
            let canonical = print_update(u, Layout::Canonical);
            let toks = canon_tokens(&canonical)?;
            Some(variant_text(&toks, v))
        }
    }
}

/// `variant == None` is the quad-block abbreviation text
pub fn faithful_update_variant(u: &Update, variant: Option<Variant>) -> Result<Option<String>, (String, String)> {
    let Some(text) = update_text(u, variant) else { return Ok(None) };
    if variant == Some(Variant::Dollar) {
        let canonical = print_update(u, Layout::Canonical);
        let dbg = |t: &str| guarded(|| parse_combined_query(t).map(|(_, c)| format!("{:?}", c.sparql)).map_err(|e| format!("rejected: {:?}", e)));
        let base = match dbg(&canonical) {
            Ok(Ok(d)) => d,
            _ => return Ok(None),
        };
        return match dbg(&text) {
            Err(p) => Err(("panic".into(), format!("{:?}: {}", text, p))),
            Ok(Err(e)) => Err(("valid_query_rejected".into(), format!("{:?}: {}", text, crate::infra::truncate(&e, 300)))),
            Ok(Ok(d)) => {
                if d.replace('$', "?") != base {
                    Err(("tree_differs".into(), format!("{:?}\n  parsed  : {}\n  ?-text  : {}", text, crate::infra::truncate(&d, 600), crate::infra::truncate(&base, 600))))
                } else {
                    Ok(Some(text))
                }
            }
        };
    }
    let want = norm_update(u);
    let got = guarded(|| -> Result<Update, String> {
        let (_, c) = parse_combined_query(&text).map_err(|e| format!("rejected: {:?}", e))?;
        if variant == Some(Variant::Prefixed) && !prologue_ok(&c.prefixes) {
            return Err(format!("differs: prefix map {:?}", c.prefixes));
        }
        match c.sparql {
            Some(kq::SparqlOperation::Update(u)) => conv_update(&u),
            other => Err(format!("not parsed as Update: {:?}", other)),
        }
    });
    match got {
        Err(p) => Err(("panic".into(), format!("{:?}: {}", text, p))),
        Ok(Err(e)) if e.starts_with("differs:") => Err(("tree_differs".into(), format!("{:?}: {}", text, e))),
        Ok(Err(e)) => Err(("valid_query_rejected".into(), format!("{:?}: {}", text, crate::infra::truncate(&e, 300)))),
        Ok(Ok(g)) => {
            let g = if variant == Some(Variant::Prefixed) { unprefix_update(&g) } else { g };
            let g = norm_update(&g);
            if g != want {
                Err(("tree_differs".into(), format!("{:?}\n  parsed  : {:?}\n  expected: {:?}", text, g, want)))
            } else {
                Ok(Some(text))
            }
        }
    }
}

/// Queries the C01 generator does not produce: a sub-SELECT whose last clause is ORDER BY (the
/// condition list is closed by '}'), in several contexts.
pub fn extra_queries() -> Vec<Select> {
    use super::common::*;
    let v = |n: &str| T::var(n);
    let i = |n: &str| T::iri(n);
    let spo = || Elem::Triples(vec![tp(v("s"), i(P), v("o"))]);
    let mut subs: Vec<Select> = Vec::new();
    for keys in [vec![("o", true)], vec![("o", false)], vec![("s", false), ("o", true)], vec![("o", true), ("s", true), ("o", false)]] {
        let mut s = Select::simple(&["s", "o"], Group(vec![spo()]));
        s.order_by = keys.iter().map(|(k, d)| (k.to_string(), *d)).collect();
        subs.push(s);
    }
    let mut s = Select::simple(&[], Group(vec![Elem::Triples(vec![tp(v("s"), i(Q), v("v"))])]));
    s.proj = Proj::Items(vec![ProjItem::Var("s".into()), ProjItem::Agg(Agg::Sum, "v".into(), "t".into())]);
    s.group_by = vec!["s".into()];
    s.order_by = vec![("t".into(), true)];
    subs.push(s);
    let mut s = Select::simple(&["s"], Group(vec![spo()]));
    s.distinct = true;
    s.order_by = vec![("s".into(), false)];
    subs.push(s);
    let mut out = Vec::new();
    let star = |g: Group| {
        let mut s = Select::simple(&[], g);
        s.proj = Proj::Star;
        s
    };
    for sub in subs {
        let e = Elem::Sub(Box::new(sub));
        out.push(star(Group(vec![e.clone()])));
        out.push(star(Group(vec![e.clone(), spo()])));
        out.push(star(Group(vec![spo(), e.clone()])));
        out.push(star(Group(vec![Elem::Graph(i(G1), Group(vec![e.clone()]))])));
        out.push(star(Group(vec![Elem::Union(vec![Group(vec![e.clone()]), Group(vec![spo()])])])));
        out.push(star(Group(vec![e.clone(), e.clone()])));
    }
    out
}

// ---------------------------------------------------------------------------------------
// round 3, faithfulness: operator precedence
// ---------------------------------------------------------------------------------------

/// a filter tree with chains of one operator flattened (associativity is not observable)
#[derive(Clone, Debug, PartialEq, Eq)]
enum Flat {
    Atom(Expr),
    Not(Box<Flat>),
    And(Vec<Flat>),
    Or(Vec<Flat>),
}

fn flat(e: &Expr) -> Flat {
    match e {
        Expr::And(a, b) => {
            let mut v = Vec::new();
            for x in [a, b] {
                match flat(x) {
                    Flat::And(xs) => v.extend(xs),
                    o => v.push(o),
                }
            }
            Flat::And(v)
        }
        Expr::Or(a, b) => {
            let mut v = Vec::new();
            for x in [a, b] {
                match flat(x) {
                    Flat::Or(xs) => v.extend(xs),
                    o => v.push(o),
                }
            }
            Flat::Or(v)
        }
        Expr::Not(a) => Flat::Not(Box::new(flat(a))),
        other => Flat::Atom(other.clone()),
    }
}

/// text with only the parentheses the grammar requires; `in_and` = the parent is an && chain
fn prec_text(e: &Expr, in_and: bool) -> String {
    match e {
        Expr::Cmp(a, op, b) => format!("{} {} {}", print_term(a), op.sym(), print_term(b)),
        Expr::ArithCmp(a, op, b) => format!("{} {} {}", a.text(), op.sym(), b.text()),
        Expr::Not(x) => format!("!({})", prec_text(x, false)),
        Expr::And(a, b) => format!("{} && {}", prec_text(a, true), prec_text(b, true)),
        Expr::Or(a, b) => {
            let s = format!("{} || {}", prec_text(a, false), prec_text(b, false));
            if in_and {
                format!("({})", s)
            } else {
                s
            }
        }
    }
}

fn expr_trees(leaves: &[Expr]) -> Vec<Expr> {
    if leaves.len() == 1 {
        return vec![leaves[0].clone()];
    }
    let mut out = Vec::new();
    for split in 1..leaves.len() {
        for l in expr_trees(&leaves[..split]) {
            for r in expr_trees(&leaves[split..]) {
                out.push(Expr::And(Box::new(l.clone()), Box::new(r.clone())));
                out.push(Expr::Or(Box::new(l.clone()), Box::new(r.clone())));
            }
        }
    }
    out
}

/// (request text, filter expression it denotes)
pub fn precedence_matrix() -> Vec<(String, Expr)> {
    let v = |n: &str| T::var(n);
    let num = |n: &str| T::Num(n.to_string());
    let atoms = vec![Expr::Cmp(v("v"), Cmp::Gt, num("1")), Expr::Cmp(v("v"), Cmp::Lt, num("5")), Expr::Cmp(v("s"), Cmp::Eq, T::iri("http://e/a")), Expr::Cmp(v("v"), Cmp::Ne, num("3"))];
    let mut exprs: Vec<Expr> = Vec::new();
    for n in 2..=4 {
        let plain = &atoms[..n];
        exprs.extend(expr_trees(plain));
        for e in expr_trees(plain) {
            exprs.push(Expr::Not(Box::new(e)));
        }
        let mut first = plain.to_vec();
        first[0] = Expr::Not(Box::new(first[0].clone()));
        exprs.extend(expr_trees(&first));
        let mut last = plain.to_vec();
        last[n - 1] = Expr::Not(Box::new(last[n - 1].clone()));
        exprs.extend(expr_trees(&last));
    }
    exprs.into_iter().map(|e| (format!("SELECT ?s ?v WHERE {{ ?s <http://e/q> ?v . FILTER({}) }}", prec_text(&e, false)), e)).collect()
}

/// does the text contain an && chain directly under || without parentheses (the case only precedence decides)?
fn has_unparenthesised_mix(e: &Expr) -> bool {
    match e {
        Expr::Or(a, b) => matches!(**a, Expr::And(..)) || matches!(**b, Expr::And(..)) || has_unparenthesised_mix(a) || has_unparenthesised_mix(b),
        Expr::And(a, b) => has_unparenthesised_mix(a) || has_unparenthesised_mix(b),
        Expr::Not(a) => has_unparenthesised_mix(a),
        _ => false,
    }
}

pub fn precedence_one(text: &str, want: &Expr) -> Result<(), (String, String)> {
    for which in ["parse_combined_query", "parse_sparql_query"] {
        let got = guarded(|| -> Result<Select, String> {
            if which == "parse_sparql_query" {
                let (_, q) = parse_sparql_query(text).map_err(|e| format!("rejected: {:?}", e))?;
                conv_select(&q)
            } else {
                let (_, c) = parse_combined_query(text).map_err(|e| format!("rejected: {:?}", e))?;
                match c.sparql {
                    Some(kq::SparqlOperation::Select(q)) => conv_select(&q),
                    other => Err(format!("not parsed as SELECT: {:?}", other)),
                }
            }
        });
        match got {
            Err(p) => return Err(("panic".into(), format!("{} on {:?}: {}", which, text, p))),
            Ok(Err(e)) => return Err(("valid_query_rejected".into(), format!("{} on {:?}: {}", which, text, crate::infra::truncate(&e, 300)))),
            Ok(Ok(s)) => {
                let filters: Vec<&Expr> = s.pattern.0.iter().filter_map(|e| if let Elem::Filter(x) = e { Some(x) } else { None }).collect();
                if s.pattern.0.len() != 2 || filters.len() != 1 || flat(filters[0]) != flat(want) {
                    return Err(("tree_differs".into(), format!("{} on {:?}\n  parsed  : {:?}\n  expected: [triples, Filter({:?})] (chains of one operator compared flattened)", which, text, s.pattern, want)));
                }
            }
        }
    }
    Ok(())
}

// ---------------------------------------------------------------------------------------
// round 3, faithfulness: hand-built trees (term matrix by position, forms outside the generator)
// ---------------------------------------------------------------------------------------

fn kq_select<'a>(vars: Vec<(&'a str, &'a str, Option<&'a str>)>, pattern: kq::GroupGraphPattern<'a>) -> kq::SelectQuery<'a> {
    kq::SelectQuery { distinct: false, variables: vars, from: vec![], from_named: vec![], pattern, group_vars: vec![], order_conditions: vec![], limit: None }
}

fn dbg_select(q: kq::SelectQuery) -> String {
    format!("{:?}", Some(kq::SparqlOperation::Select(q)))
}

#[derive(Clone, Copy, Debug, PartialEq, Eq)]
pub enum TShape {
    ObjDot,
    ObjNoDot,
    ObjAbbrev,
    ValuesOne,
    FilterEq,
    InsertData,
    Subj,
    Pred,
    PredInGraph,
    GraphName,
}

pub struct TermCase {
    pub text: String,
    pub token: String,
    pub shape: TShape,
}

/// Debug rendering of the tree a term-matrix request denotes (terms are kept verbatim by the parser)
pub fn term_expected(shape: TShape, tok: &str) -> String {
    use kq::GroupGraphPattern as G;
    let var = |v: &'static str| ("VAR", v, None);
    match shape {
        TShape::ObjDot | TShape::ObjNoDot => dbg_select(kq_select(vec![var("?s")], G::Bgp(vec![("?s", "ex:p", tok)]))),
        TShape::ObjAbbrev => dbg_select(kq_select(vec![var("?s")], G::Bgp(vec![("?s", "ex:p", tok), ("?s", "ex:q", "?z"), ("?s", "ex:q", tok)]))),
        TShape::ValuesOne => dbg_select(kq_select(
            vec![var("?s")],
            G::Join(vec![G::Values(kq::ValuesClause { variables: vec!["?o"], values: vec![vec![kq::Value::Term(tok.to_string())]] }), G::Bgp(vec![("?s", "ex:p", "?o")])]),
        )),
        TShape::FilterEq => dbg_select(kq_select(vec![var("?s")], G::Join(vec![G::Bgp(vec![("?s", "ex:p", "?o")]), G::Filter(kq::FilterExpression::Comparison("?o", "=", tok))]))),
        TShape::InsertData => format!(
            "{:?}",
            Some(kq::SparqlOperation::Update(kq::UpdateOperation::InsertData(kq::InsertClause { quads: vec![kq::LexicalQuadPattern { graph: None, triple: ("ex:s", "ex:p", tok) }] })))
        ),
        TShape::Subj => dbg_select(kq_select(vec![var("?o")], G::Bgp(vec![(tok, "ex:p", "?o")]))),
        TShape::Pred => dbg_select(kq_select(vec![var("?o")], G::Bgp(vec![("?s", tok, "?o")]))),
        TShape::PredInGraph => dbg_select(kq_select(vec![var("?o")], G::Graph { name: "ex:g", pattern: Box::new(G::Bgp(vec![("?s", tok, "?o")])) })),
        TShape::GraphName => {
            let mut q = kq_select(vec![var("?o")], G::Graph { name: tok, pattern: Box::new(G::Bgp(vec![("?s", "ex:p", "?o")])) });
            q.from = vec!["<http://e/g1>"];
            q.from_named = vec!["<http://e/g2>"];
            dbg_select(q)
        }
    }
}

/// hand-written requests with the tree each denotes; `$`-sigils are compared as `?`
pub fn forms_matrix() -> Vec<(String, String)> {
    use kq::ArithmeticExpression as A;
    use kq::FilterExpression as F;
    use kq::GroupGraphPattern as G;
    let var = |v: &'static str| ("VAR", v, None);
    let p = "<http://e/p>";
    let q = "<http://e/q>";
    let mut out: Vec<(String, String)> = Vec::new();
    // FILTER functions
    let t_p_o = || G::Bgp(vec![("?t", p, "?o")]);
    let e1 = dbg_select(kq_select(vec![var("?t")], G::Join(vec![t_p_o(), G::Filter(F::FunctionCall("isTRIPLE", vec!["?t"]))])));
    for text in [
        "SELECT ?t WHERE { ?t <http://e/p> ?o . FILTER(isTRIPLE(?t)) }",
        "select ?t where { ?t <http://e/p> ?o . filter ( ISTRIPLE ( ?t ) ) }",
        "SELECT?t{?t<http://e/p>?o.FILTER(istriple(?t))}",
        "SELECT ?t WHERE { ?t <http://e/p> ?o . # c\n FILTER # c\n ( isTriple # c\n ( ?t ) ) }",
    ] {
        out.push((text.into(), e1.clone()));
    }
    out.push((
        "SELECT ?t WHERE { ?t <http://e/p> ?o . FILTER(TRIPLE(?s, <http://e/p>, \"x\")) }".into(),
        dbg_select(kq_select(vec![var("?t")], G::Join(vec![t_p_o(), G::Filter(F::FunctionCall("TRIPLE", vec!["?s", p, "\"x\""]))]))),
    ));
    out.push((
        "SELECT ?t WHERE { ?t <http://e/p> ?o . FILTER(SUBJECT(<< ?s <http://e/p> ?o >>)) }".into(),
        dbg_select(kq_select(vec![var("?t")], G::Join(vec![t_p_o(), G::Filter(F::FunctionCall("SUBJECT", vec!["<< ?s <http://e/p> ?o >>"]))]))),
    ));
    let e4 = dbg_select(kq_select(
        vec![var("?t")],
        G::Join(vec![
            t_p_o(),
            G::Filter(F::And(
                Box::new(F::Not(Box::new(F::FunctionCall("isTRIPLE", vec!["?o"])))),
                Box::new(F::Or(Box::new(F::FunctionCall("PREDICATE", vec!["?t"])), Box::new(F::FunctionCall("OBJECT", vec!["?t"])))),
            )),
        ]),
    ));
    for text in ["SELECT ?t WHERE { ?t <http://e/p> ?o . FILTER(!isTRIPLE(?o) && (PREDICATE(?t) || OBJECT(?t))) }", "select ?t where { ?t <http://e/p> ?o . filter(! istriple(?o)&&(predicate(?t)||object(?t))) }"] {
        out.push((text.into(), e4.clone()));
    }
    // bare arithmetic: precedence and left-associativity
    let s_q_v = || G::Bgp(vec![("?s", q, "?v")]);
    let op = |s: &'static str| Box::new(A::Operand(s));
    let arith = |texts: &[&str], a: A<'static>, out: &mut Vec<(String, String)>| {
        let e = dbg_select(kq_select(vec![var("?s")], G::Join(vec![s_q_v(), G::Filter(F::ArithmeticExpr(Box::new(a)))])));
        for t in texts {
            out.push((format!("SELECT ?s WHERE {{ ?s <http://e/q> ?v . FILTER({}) }}", t), e.clone()));
        }
    };
    arith(&["?v", " ?v "], A::Operand("?v"), &mut out);
    arith(&["?v + 1 * 2", "?v+1*2"], A::Add(op("?v"), Box::new(A::Multiply(op("1"), op("2")))), &mut out);
    arith(&["?v * 2 + 1", "?v*2+1"], A::Add(Box::new(A::Multiply(op("?v"), op("2"))), op("1")), &mut out);
    // (a bare arithmetic filter that STARTS with a parenthesis, `FILTER((?v + 1) * 2)`, is refused by
    //  sparql_filter_atom - the '(' branch wins over the arithmetic fallback; whether that form belongs
    //  to the supported fragment is not fixed by the statement, so it is not demanded here)
    arith(&["2 * (?v + 1)", "2*( ?v+1 )"], A::Multiply(op("2"), Box::new(A::Add(op("?v"), op("1")))), &mut out);
    arith(&["?v - 1 - 2"], A::Subtract(Box::new(A::Subtract(op("?v"), op("1"))), op("2")), &mut out);
    arith(&["?v / 2 / 2"], A::Divide(Box::new(A::Divide(op("?v"), op("2"))), op("2")), &mut out);
    arith(&["?v - 1 * 2 / 4"], A::Subtract(op("?v"), Box::new(A::Divide(Box::new(A::Multiply(op("1"), op("2"))), op("4")))), &mut out);
    // aggregates without wrapper / alias
    let mut agg = kq_select(vec![var("?s"), ("SUM", "?v", None), ("MAX", "?v", Some("?m")), ("MIN", "?v", Some("?lo"))], s_q_v());
    agg.group_vars = vec!["?s"];
    let e = dbg_select(agg);
    for text in ["SELECT ?s SUM(?v) (MAX(?v) AS ?m) MIN(?v) AS ?lo WHERE { ?s <http://e/q> ?v } GROUP BY ?s", "select ?s sum(?v) (max(?v) as ?m) min(?v) as ?lo where { ?s <http://e/q> ?v } group by ?s", "SELECT?s SUM(?v)(MAX(?v)AS?m)MIN(?v)AS?lo{?s<http://e/q>?v}GROUP BY?s"] {
        out.push((text.into(), e.clone()));
    }
    // 'a', prefixed names in FROM / GRAPH
    let mut fq = kq_select(vec![var("?s")], G::Graph { name: "ex:g2", pattern: Box::new(G::Bgp(vec![("?s", "a", "ex:T")])) });
    fq.from = vec!["ex:g1"];
    fq.from_named = vec!["ex:g2"];
    let e = dbg_select(fq);
    for text in ["PREFIX ex: <http://e/> SELECT ?s FROM ex:g1 FROM NAMED ex:g2 WHERE { GRAPH ex:g2 { ?s a ex:T } }", "prefix ex: <http://e/>\nselect ?s\nfrom ex:g1\nfrom named ex:g2\nwhere { graph ex:g2 { ?s a ex:T . } }", "PREFIX ex:<http://e/>SELECT?s FROM ex:g1 FROM NAMED ex:g2{GRAPH ex:g2{?s a ex:T}}"] {
        out.push((text.into(), e.clone()));
    }
    // ';' before GRAPH and before '}'
    out.push((
        "SELECT ?s WHERE { ?s <http://e/p> ?o ; GRAPH <http://e/g1> { ?s <http://e/q> ?v ; } }".into(),
        dbg_select(kq_select(vec![var("?s")], G::Join(vec![G::Bgp(vec![("?s", p, "?o")]), G::Graph { name: "<http://e/g1>", pattern: Box::new(G::Bgp(vec![("?s", q, "?v")])) }]))),
    ));
    // ORDER BY closed by '}'
    let mut sub = kq_select(vec![var("?s"), var("?o")], G::Bgp(vec![("?s", p, "?o")]));
    sub.order_conditions = vec![kq::OrderCondition { variable: "?o", direction: kq::SortDirection::Desc }, kq::OrderCondition { variable: "?s", direction: kq::SortDirection::Asc }];
    let e = dbg_select(kq_select(vec![var("?s")], G::SubQuery(Box::new(kq::SubQuery { query: sub }))));
    for text in ["SELECT ?s WHERE { { SELECT ?s ?o WHERE { ?s <http://e/p> ?o } ORDER BY DESC(?o) ?s } }", "SELECT ?s WHERE { { SELECT ?s ?o WHERE { ?s <http://e/p> ?o } ORDER BY DESC(?o) ASC(?s)} }", "select ?s where{{select ?s ?o where{?s<http://e/p>?o}order by desc(?o)?s}}"] {
        out.push((text.into(), e.clone()));
    }
    // '$' sigil (compared as '?')
    let e = dbg_select(kq_select(vec![var("?s")], G::Bgp(vec![("?s", p, "?o")])));
    for text in ["SELECT $s WHERE { $s <http://e/p> $o }", "SELECT $s WHERE { ?s <http://e/p> $o . }", "SELECT ?s { ?s <http://e/p> ?o }", "SELECT ?s\n{ ?s <http://e/p> ?o }"] {
        out.push((text.into(), e.clone()));
    }
    // %HH and backslash escapes in local names
    out.push(("PREFIX ex: <http://e/> SELECT ?s WHERE { ?s ex:a%41 ex:b\\.c ; ex:p\\~q ?o }".into(), dbg_select(kq_select(vec![var("?s")], G::Bgp(vec![("?s", "ex:a%41", "ex:b\\.c"), ("?s", "ex:p\\~q", "?o")])))));
    // quad-block abbreviations
    let quad = |g: Option<&'static str>, s: &'static str, p: &'static str, o: &'static str| kq::LexicalQuadPattern { graph: g, triple: (s, p, o) };
    let (a, b, c, g1) = ("<http://e/a>", "<http://e/b>", "<http://e/c>", "<http://e/g1>");
    let e = format!(
        "{:?}",
        Some(kq::SparqlOperation::Update(kq::UpdateOperation::InsertData(kq::InsertClause {
            quads: vec![quad(None, a, p, b), quad(None, a, p, c), quad(None, a, q, "\"1\""), quad(Some(g1), a, p, b), quad(Some(g1), a, q, "\"2\""), quad(Some(g1), a, q, "\"3\"")]
        })))
    );
    for text in [
        "INSERT DATA { <http://e/a> <http://e/p> <http://e/b> , <http://e/c> ; <http://e/q> \"1\" . GRAPH <http://e/g1> { <http://e/a> <http://e/p> <http://e/b> ; <http://e/q> \"2\" , \"3\" } }",
        "insert data{<http://e/a><http://e/p><http://e/b>,<http://e/c>;<http://e/q>\"1\".graph<http://e/g1>{<http://e/a><http://e/p><http://e/b>;<http://e/q>\"2\",\"3\";}}",
    ] {
        out.push((text.into(), e.clone()));
    }
    // multi-column VALUES with UNDEF
    let e = dbg_select(kq_select(
        vec![var("?s")],
        G::Values(kq::ValuesClause { variables: vec!["?s", "?v"], values: vec![vec![kq::Value::Term(a.to_string()), kq::Value::Term("\"1\"".into())], vec![kq::Value::Undef, kq::Value::Term("2.5".into())]] }),
    ));
    for text in ["SELECT ?s WHERE { VALUES (?s ?v) { (<http://e/a> \"1\") (UNDEF 2.5) } }", "select ?s where { values ( ?s ?v ) { ( <http://e/a> \"1\" ) ( undef 2.5 ) } }", "SELECT?s{VALUES(?s?v){(<http://e/a>\"1\")(UNDEF 2.5)}}"] {
        out.push((text.into(), e.clone()));
    }
    out
}

/// Err((symptom, detail)) unless parse_combined_query yields exactly the expected tree
pub fn expected_tree_one(text: &str, expected: &str) -> Result<(), (String, String)> {
    let got = guarded(|| -> Result<String, String> {
        let (_, c) = parse_combined_query(text).map_err(|e| format!("rejected: {:?}", e))?;
        Ok(format!("{:?}", c.sparql))
    });
    match got {
        Err(p) => Err(("panic".into(), format!("parse_combined_query on {:?}: {}", text, p))),
        Ok(Err(e)) => Err(("valid_query_rejected".into(), format!("{:?}: {}", text, crate::infra::truncate(&e, 300)))),
        Ok(Ok(d)) => {
            if d.replace('$', "?") == expected.replace('$', "?") {
                Ok(())
            } else {
                Err(("tree_differs".into(), format!("{:?}\n  parsed  : {}\n  expected: {}", text, crate::infra::truncate(&d, 700), crate::infra::truncate(expected, 700))))
            }
        }
    }
}

fn run(ctx: &Ctx) -> ShardOut {
    let mut out = ShardOut::default();
    let mut idx = 0u64;
    // (i) token strings
    let maxlen = if ctx.thorough() { 4 } else { 3 };
    let alphabet = all_tokens();
    let n = alphabet.len();
    out.count("token_alphabet", if ctx.shard == 0 { n as u64 } else { 0 });
    for len in 1..=maxlen {
        let total = (n as u64).pow(len as u32);
        for code in 0..total {
            idx += 1;
            if !ctx.mine(idx) {
                continue;
            }
            if code % 4096 == 0 && ctx.expired() {
                out.capped.push(format!("wall-clock cap hit in token strings of length {}", len));
                break;
            }
            let mut c = code;
            let mut toks = Vec::with_capacity(len);
            for _ in 0..len {
                toks.push(alphabet[(c % n as u64) as usize]);
                c /= n as u64;
            }
            record_totality(&mut out, ctx, "tokens_spaced", &toks.join(" "));
            if len > 1 {
                record_totality(&mut out, ctx, "tokens_glued", &toks.concat());
            }
        }
    }
    out.count("max_token_string_length", maxlen as u64);
    // (ii) mutations of the seed corpus
    let seeds = seed_corpus();
    out.count("seeds", if ctx.shard == 0 { seeds.len() as u64 } else { 0 });
    for seed in &seeds {
        let mut batch = Vec::new();
        mutations(seed, &mut |m| batch.push(m));
        for m in batch {
            idx += 1;
            if !ctx.mine(idx) {
                continue;
            }
            record_totality(&mut out, ctx, "single_mutation", &m);
        }
        if ctx.expired() {
            out.capped.push("wall-clock cap hit in single mutations".into());
            break;
        }
    }
    // double mutations of the shortest seeds
    let mut shortest: Vec<&String> = seeds.iter().collect();
    shortest.sort_by_key(|s| s.len());
    let nshort = if ctx.thorough() { 24 } else { 2 };
    'dm: for seed in shortest.into_iter().filter(|s| s.len() > 10).take(nshort) {
        let mut first = Vec::new();
        mutations(seed, &mut |m| first.push(m));
        for m1 in first {
            idx += 1;
            if !ctx.mine(idx) {
                continue;
            }
            if ctx.expired() {
                out.capped.push("wall-clock cap hit in double mutations".into());
                break 'dm;
            }
            let mut second = Vec::new();
            mutations(&m1, &mut |m| second.push(m));
            for m2 in second {
                record_totality(&mut out, ctx, "double_mutation", &m2);
            }
        }
    }
    // round 3: seeds of the extension grammars, extra special characters, token-level mutations
    let xseeds = extra_seeds();
    out.count("extra_seeds", if ctx.shard == 0 { xseeds.len() as u64 } else { 0 });
    for (k, seed) in xseeds.iter().enumerate() {
        idx += 1;
        if !ctx.mine(idx) {
            continue;
        }
        let before = out.counters.get("accepted_inputs").copied().unwrap_or(0);
        record_totality(&mut out, ctx, "extra_seed", seed);
        if out.counters.get("accepted_inputs").copied().unwrap_or(0) > before {
            out.count("extra_seeds_accepted", 1);
        } else {
            // expected for exactly one seed: the dot after FILTER (index 30), which the parser refuses
            out.count(&format!("extra_seed_not_accepted_index_{}", k), 1);
        }
    }
    let all_specials: Vec<&str> = SPECIALS.iter().chain(EXTRA_SPECIALS.iter()).copied().collect();
    'xs: for (k, seed) in seeds.iter().chain(xseeds.iter()).enumerate() {
        let mut batch = Vec::new();
        if k < seeds.len() {
            // old seeds already had the 14 specials and the structural mutations
            mutations_with(seed, &EXTRA_SPECIALS, false, &mut |m| batch.push(m));
        } else {
            mutations_with(seed, &all_specials, true, &mut |m| batch.push(m));
        }
        for m in batch {
            idx += 1;
            if !ctx.mine(idx) {
                continue;
            }
            out.count("single_mutation_round3_inputs", 1);
            record_totality(&mut out, ctx, "single_mutation", &m);
        }
        if ctx.expired() {
            out.capped.push("wall-clock cap hit in round-3 single mutations".into());
            break 'xs;
        }
    }
    'tm: for seed in seeds.iter().chain(xseeds.iter()) {
        let mut batch = Vec::new();
        token_mutations(seed, &mut |m| batch.push(m));
        for m in batch {
            idx += 1;
            if !ctx.mine(idx) {
                continue;
            }
            out.count("token_mutation_inputs", 1);
            let before = out.counters.get("accepted_inputs").copied().unwrap_or(0);
            record_totality(&mut out, ctx, "token_mutation", &m);
            if out.counters.get("accepted_inputs").copied().unwrap_or(0) > before {
                out.count("token_mutation_accepted", 1);
            }
        }
        if ctx.expired() {
            out.capped.push("wall-clock cap hit in token-level mutations".into());
            break 'tm;
        }
    }
    // thorough: every PAIR of token-level mutations of the four shortest seeds and of one seed per
    // extension grammar (MODEL, NEURAL RELATION, ML.PREDICT, RULE with NOT)
    if ctx.thorough() {
        let mut all: Vec<&String> = seeds.iter().chain(xseeds.iter()).filter(|s| s.len() > 10).collect();
        all.sort_by_key(|s| s.len());
        let mut picks: Vec<&String> = all.iter().take(4).copied().collect();
        for needle in ["MODEL \"m\" { ARCH", "NEURAL RELATION ex:pred USING MODEL \"m\" { INPUT", "ML.PREDICT( MODEL \"m\", INPUT { SELECT ?room", "RULE :N :-"] {
            if let Some(s) = all.iter().find(|s| s.starts_with(needle)) {
                picks.push(s);
            }
        }
        out.count("double_token_mutation_seeds", if ctx.shard == 0 { picks.len() as u64 } else { 0 });
        'dt: for seed in picks {
            let mut first = Vec::new();
            token_mutations(seed, &mut |m| first.push(m));
            for m1 in first {
                idx += 1;
                if !ctx.mine(idx) {
                    continue;
                }
                if ctx.expired() {
                    out.capped.push("wall-clock cap hit in double token-level mutations".into());
                    break 'dt;
                }
                let mut second = Vec::new();
                token_mutations(&m1, &mut |m| second.push(m));
                for m2 in second {
                    out.count("double_token_mutation_inputs", 1);
                    record_totality(&mut out, ctx, "double_token_mutation", &m2);
                }
            }
        }
    }
    // report only: junk token at every token boundary of every accepted seed
    for seed in seeds.iter().chain(xseeds.iter()) {
        idx += 1;
        if !ctx.mine(idx) {
            continue;
        }
        junk_probe(&mut out, seed);
    }
    // faithfulness
    let mut qs = qgen::queries(if ctx.thorough() { Scope::Thorough } else { Scope::Quick });
    let generated = qs.len();
    qs.extend(extra_queries());
    out.count("faithfulness_queries", if ctx.shard == 0 { qs.len() as u64 } else { 0 });
    out.count("faithfulness_extra_queries", if ctx.shard == 0 { (qs.len() - generated) as u64 } else { 0 });
    for (qi, s) in qs.iter().enumerate() {
        idx += 1;
        if !ctx.mine(idx) {
            continue;
        }
        if qi % 256 == 0 && ctx.expired() {
            out.capped.push(format!("wall-clock cap hit in faithfulness at query {}", qi));
            break;
        }
        for layout in LAYOUTS {
            out.evaluations += 1;
            let text = print_select(s, layout);
            out.nontrivial(&text);
            if let Err((sym, detail)) = faithful_select(s, layout) {
                let mut tags = super::c01::query_tags(s);
                tags.push(format!("layout={:?}", layout));
                tags.push("family=faithfulness".into());
                out.fail(json!({"family": "faithful_select", "scope": if ctx.thorough() { "Thorough" } else { "Quick" }, "qindex": qi, "layout": format!("{:?}", layout), "text": text}), &sym, detail, tags);
            }
        }
        // round 3: text variants derived from the canonical print
        let canonical = print_select(s, Layout::Canonical);
        let minimal = print_select(s, Layout::Minimal);
        for variant in SELECT_VARIANTS {
            out.evaluations += 1;
            match faithful_select_variant(s, variant) {
                Ok(None) => out.count("variant_not_applicable", 1),
                Ok(Some(text)) => {
                    out.count(&format!("variant_{:?}_cases", variant), 1);
                    if text != canonical && text != minimal {
                        out.count(&format!("variant_{:?}_new_texts", variant), 1);
                        out.nontrivial(&text);
                    }
                }
                Err((sym, detail)) => {
                    let mut tags = super::c01::query_tags(s);
                    tags.push(format!("variant={:?}", variant));
                    tags.push("family=faithfulness_variant".into());
                    out.fail(json!({"family": "faithful_variant_select", "scope": if ctx.thorough() { "Thorough" } else { "Quick" }, "canonical": canonical, "variant": format!("{:?}", variant)}), &sym, detail, tags);
                }
            }
        }
        if qi % 1500 == 1 {
            out.sample(json!({"faithfulness": print_select(s, Layout::Commented)}));
        }
    }
    // literal escape matrix
    for (text, token) in escape_matrix() {
        idx += 1;
        if !ctx.mine(idx) {
            continue;
        }
        out.evaluations += 1;
        out.count("escape_matrix_cases", 1);
        out.nontrivial(&text);
        record_totality(&mut out, ctx, "escape_matrix", &text);
        if let Err((sym, detail)) = escape_matrix_one(&text, &token) {
            out.fail(json!({"family": "escape_matrix", "input": text, "token": token}), &sym, detail, vec!["family=escape_matrix".into(), format!("multibyte={}", !text.is_ascii())]);
        }
    }
    // term matrix
    for TermCase { text, token, shape } in term_cases() {
        idx += 1;
        if !ctx.mine(idx) {
            continue;
        }
        out.evaluations += 1;
        out.count("term_matrix_cases", 1);
        out.nontrivial(&text);
        record_totality(&mut out, ctx, "term_matrix", &text);
        if let Err((sym, detail)) = term_matrix_one(&text, &token) {
            out.fail(json!({"family": "term_matrix", "input": text, "token": token}), &sym, detail, vec!["family=term_matrix".into(), format!("token={}", token)]);
        } else if let Err((sym, detail)) = expected_tree_one(&text, &term_expected(shape, &token)) {
            // round 3: the whole tree, not only "the token occurs somewhere"
            out.fail(json!({"family": "term_matrix", "input": text, "token": token}), &sym, detail, vec!["family=term_matrix".into(), "clause=exact_tree".into(), format!("shape={:?}", shape), format!("token={}", token)]);
        }
        out.count("term_matrix_exact_tree_cases", 1);
    }
    // round 3: operator precedence
    for (pi, (text, want)) in precedence_matrix().iter().enumerate() {
        idx += 1;
        if !ctx.mine(idx) {
            continue;
        }
        out.evaluations += 1;
        out.count("precedence_cases", 1);
        if has_unparenthesised_mix(want) {
            out.count("precedence_cases_and_under_or_without_parentheses", 1);
        }
        out.nontrivial(text);
        if let Err((sym, detail)) = precedence_one(text, want) {
            out.fail(json!({"family": "precedence", "index": pi, "input": text}), &sym, detail, vec!["family=precedence".into(), format!("mixed_unparenthesised={}", has_unparenthesised_mix(want))]);
        }
    }
    // round 3: hand-written forms
    for (fi, (text, expected)) in forms_matrix().iter().enumerate() {
        idx += 1;
        if !ctx.mine(idx) {
            continue;
        }
        out.evaluations += 1;
        out.count("forms_cases", 1);
        out.nontrivial(text);
        record_totality(&mut out, ctx, "forms", text);
        if let Err((sym, detail)) = expected_tree_one(text, expected) {
            out.fail(json!({"family": "forms", "index": fi, "input": text}), &sym, detail, vec!["family=forms".into(), format!("form={}", fi)]);
        }
    }
    if ctx.shard == 0 {
        let updates = all_updates();
        out.count("faithfulness_updates", updates.len() as u64);
        for (ui, u) in updates.iter().enumerate() {
            if !update_is_syntactically_valid(u) {
                continue;
            }
            for layout in LAYOUTS {
                out.evaluations += 1;
                let text = print_update(u, layout);
                out.nontrivial(&text);
                if let Err((sym, detail)) = faithful_update(u, layout) {
                    out.fail(json!({"family": "faithful_update", "uindex": ui, "layout": format!("{:?}", layout), "text": text}), &sym, detail, vec![format!("layout={:?}", layout), "family=faithfulness_update".into()]);
                }
            }
            // round 3: quad-block abbreviations (None) and the token-rewriting variants
            let canonical = print_update(u, Layout::Canonical);
            for variant in std::iter::once(None).chain(UPDATE_VARIANTS.iter().copied().map(Some)) {
                out.evaluations += 1;
                let vname = variant.map_or("AbbrevQuads".to_string(), |v| format!("{:?}", v));
                match faithful_update_variant(u, variant) {
                    Ok(None) => out.count("variant_not_applicable", 1),
                    Ok(Some(text)) => {
                        out.count(&format!("update_variant_{}_cases", vname), 1);
                        if text != canonical {
                            out.count(&format!("update_variant_{}_new_texts", vname), 1);
                            out.nontrivial(&text);
                        }
                    }
                    Err((sym, detail)) => {
                        out.fail(json!({"family": "faithful_variant_update", "uindex": ui, "variant": vname}), &sym, detail, vec![format!("variant={}", vname), "family=faithfulness_update_variant".into()]);
                    }
                }
            }
        }
    }
    out
}

fn layout_of(name: &str) -> Layout {
    LAYOUTS.iter().copied().find(|l| format!("{:?}", l) == name).unwrap_or(Layout::Canonical)
}

fn replay(ctx: &Ctx, case: &Value) -> ShardOut {
    let mut out = ShardOut::default();
    match case["family"].as_str().unwrap_or("") {
        "faithful_select" => {
            let scope = if case["scope"].as_str() == Some("Thorough") { Scope::Thorough } else { Scope::Quick };
            let mut qs = qgen::queries(scope);
            qs.extend(extra_queries());
            let layout = layout_of(case["layout"].as_str().unwrap_or(""));
            let want = case["text"].as_str().unwrap_or("");
            match qs.iter().find(|s| print_select(s, layout) == want) {
                Some(s) => {
                    out.evaluations += 1;
                    if let Err((sym, detail)) = faithful_select(s, layout) {
                        let mut tags = super::c01::query_tags(s);
                        tags.push(format!("layout={:?}", layout));
                        tags.push("family=faithfulness".into());
                        out.fail(case.clone(), &sym, detail, tags);
                    }
                }
                None => out.machinery_errors.push("replay: query not found".into()),
            }
        }
        "faithful_update" => {
            let layout = layout_of(case["layout"].as_str().unwrap_or(""));
            let ui = case["uindex"].as_u64().unwrap_or(0) as usize;
            if let Some(u) = all_updates().get(ui) {
                out.evaluations += 1;
                if let Err((sym, detail)) = faithful_update(u, layout) {
                    out.fail(case.clone(), &sym, detail, vec![format!("layout={:?}", layout), "family=faithfulness_update".into()]);
                }
            } else {
                out.machinery_errors.push("replay: update not found".into());
            }
        }
        "faithful_variant_select" => {
            let scope = if case["scope"].as_str() == Some("Thorough") { Scope::Thorough } else { Scope::Quick };
            let mut qs = qgen::queries(scope);
            qs.extend(extra_queries());
            let want = case["canonical"].as_str().unwrap_or("");
            match (qs.iter().find(|s| print_select(s, Layout::Canonical) == want), variant_of(case["variant"].as_str().unwrap_or(""))) {
                (Some(s), Some(variant)) => {
                    out.evaluations += 1;
                    if let Err((sym, detail)) = faithful_select_variant(s, variant) {
                        let mut tags = super::c01::query_tags(s);
                        tags.push(format!("variant={:?}", variant));
                        tags.push("family=faithfulness_variant".into());
                        out.fail(case.clone(), &sym, detail, tags);
                    }
                }
                _ => out.machinery_errors.push("replay: query or variant not found".into()),
            }
        }
        "faithful_variant_update" => {
            let ui = case["uindex"].as_u64().unwrap_or(0) as usize;
            let vname = case["variant"].as_str().unwrap_or("").to_string();
            let variant = variant_of(&vname);
            match all_updates().get(ui) {
                Some(u) if variant.is_some() || vname == "AbbrevQuads" => {
                    out.evaluations += 1;
                    if let Err((sym, detail)) = faithful_update_variant(u, variant) {
                        out.fail(case.clone(), &sym, detail, vec![format!("variant={}", vname), "family=faithfulness_update_variant".into()]);
                    }
                }
                _ => out.machinery_errors.push("replay: update or variant not found".into()),
            }
        }
        "precedence" => {
            let input = case["input"].as_str().unwrap_or("");
            match precedence_matrix().into_iter().find(|(t, _)| t == input) {
                Some((text, want)) => {
                    out.evaluations += 1;
                    if let Err((sym, detail)) = precedence_one(&text, &want) {
                        out.fail(case.clone(), &sym, detail, vec!["family=precedence".into(), format!("mixed_unparenthesised={}", has_unparenthesised_mix(&want))]);
                    }
                }
                None => out.machinery_errors.push("replay: precedence case not found".into()),
            }
        }
        "forms" => {
            let input = case["input"].as_str().unwrap_or("");
            match forms_matrix().into_iter().enumerate().find(|(_, (t, _))| t == input) {
                Some((fi, (text, expected))) => {
                    out.evaluations += 1;
                    record_totality(&mut out, ctx, "forms", &text);
                    if let Err((sym, detail)) = expected_tree_one(&text, &expected) {
                        out.fail(case.clone(), &sym, detail, vec!["family=forms".into(), format!("form={}", fi)]);
                    }
                }
                // a totality failure of a forms text is recorded with its input only
                None => record_totality(&mut out, ctx, "forms", input),
            }
        }
        "term_matrix" => {
            let input = case["input"].as_str().unwrap_or("").to_string();
            let token = case["token"].as_str().unwrap_or("").to_string();
            out.evaluations += 1;
            record_totality(&mut out, ctx, "term_matrix", &input);
            if let Err((sym, detail)) = term_matrix_one(&input, &token) {
                out.fail(case.clone(), &sym, detail, vec!["family=term_matrix".into(), format!("token={}", token)]);
            } else if let Some(c) = term_cases().into_iter().find(|c| c.text == input) {
                if let Err((sym, detail)) = expected_tree_one(&input, &term_expected(c.shape, &token)) {
                    out.fail(case.clone(), &sym, detail, vec!["family=term_matrix".into(), "clause=exact_tree".into(), format!("shape={:?}", c.shape), format!("token={}", token)]);
                }
            }
        }
        "escape_matrix" => {
            let input = case["input"].as_str().unwrap_or("").to_string();
            let token = case["token"].as_str().unwrap_or("").to_string();
            out.evaluations += 1;
            record_totality(&mut out, ctx, "escape_matrix", &input);
            if let Err((sym, detail)) = escape_matrix_one(&input, &token) {
                out.fail(case.clone(), &sym, detail, vec!["family=escape_matrix".into(), format!("multibyte={}", !input.is_ascii())]);
            }
        }
        fam => {
            let input = case["input"].as_str().unwrap_or("").to_string();
            let fam = fam.to_string();
            record_totality(&mut out, ctx, &fam, &input);
        }
    }
    out
}
