//! C16 — the query parser is total and faithful.
//! Totality: every token string up to a length bound and every single (double) mutation of a seed
//! corpus through the four parser entry points under catch_unwind in crash-isolated workers.
//! Faithfulness: every AST of the generator grammar printed in six layouts parses to a tree with
//! the same structure.
use super::qgen::{self, Scope};
use super::ugen;
use crate::infra::{guarded, Ctx, PropDef, ShardOut};
use crate::reference::sparql_ast::*;
use kolibrie::parser::{parse_combined_query, parse_combined_query_with_options, parse_group_graph_pattern, parse_sparql_query};
use serde_json::{json, Value};
use shared::query as kq;

pub const DEF: PropDef = PropDef {
    id: "C16",
    level: "exploration",
    rule: "totality: (i) every string of <=3 (thorough <=4) tokens over a 34-token alphabet (keywords, braces, variables, IRIs, prefixed names, literals incl. multi-byte, triple quotes, << >>, ^^, @, backslash, #, bare multi-byte char, newline) joined with and without spaces; (ii) every single mutation (delete char at i / insert or substitute each of 14 special chars incl. multi-byte at i / truncate at i) of a seed corpus of ~60 requests covering SELECT forms, all six update forms and the RULE / REGISTER / RETRIEVE / ML.PREDICT extensions, and every double mutation of the shortest seeds (thorough); each input goes through parse_combined_query, parse_combined_query_with_options(_, true), parse_sparql_query and parse_group_graph_pattern under catch_unwind: never a panic, and Ok from the three whole-request parsers implies nothing but whitespace/comments remains. Literal escape matrix: every escape kind (\\t \\n \\\" \\\\ \\' \\b \\f \\r \\uXXXX \\UXXXXXXXX) followed by every kind of next character (closing quote, ASCII, multi-byte, another escape) after three prefixes, as triple object, FILTER operand and VALUES term: accepted, fully consumed, and the token handed on verbatim. Faithfulness: every query of the C01 generator list and every update of the C03 alphabet, printed in 6 layouts (canonical, minimal whitespace, newlines+comments, lower-case and mixed-case keywords, ;/, abbreviations with optional dots omitted), must parse, and the parsed tree converted to the reference AST must equal the generated AST (nesting, pattern order, lexical terms, filter tree, modifiers) for every layout. Non-trivial = mutation/token inputs that are accepted by at least one parser, and every faithfulness case; distinct by input text.",
    assumptions: &[
        "nesting deeper than the generator produces (stack exhaustion) is outside the explored space",
        "tree comparison is modulo the two normalisations the grammar itself makes unobservable: adjacent triples blocks merge, and a braced group with a single non-FILTER/BIND element is the element",
    ],
    run,
    replay,
    cap_s: (55, 900),
    shards: 0,
};

// ---------------------------------------------------------------------------------------
// conversion of Kolibrie's syntax tree into the reference AST
// ---------------------------------------------------------------------------------------

fn unescape(s: &str) -> String {
    let mut o = String::new();
    let mut it = s.chars();
    while let Some(c) = it.next() {
        if c == '\\' {
            match it.next() {
                Some('n') => o.push('\n'),
                Some('r') => o.push('\r'),
                Some('t') => o.push('\t'),
                Some('"') => o.push('"'),
                Some('\\') => o.push('\\'),
                Some(x) => {
                    o.push('\\');
                    o.push(x)
                }
                None => o.push('\\'),
            }
        } else {
            o.push(c);
        }
    }
    o
}

fn term(s: &str) -> T {
    let s = s.trim();
    if let Some(n) = s.strip_prefix('?').or_else(|| s.strip_prefix('$')) {
        T::Var(n.to_string())
    } else if s.starts_with('<') && s.ends_with('>') && !s.starts_with("<<") {
        T::Iri(s[1..s.len() - 1].to_string())
    } else if s.starts_with('"') && s.ends_with('"') && s.len() >= 2 {
        T::Lit(unescape(&s[1..s.len() - 1]))
    } else if let Some(l) = s.strip_prefix("_:") {
        T::Bnode(l.to_string())
    } else {
        T::Num(s.to_string())
    }
}

/// parse the raw text of a comparison operand ("?v", "2", "(?v + 1) * 2") into arithmetic
fn parse_arith(text: &str) -> Option<Arith> {
    fn toks(text: &str) -> Vec<String> {
        let mut out = Vec::new();
        let mut cur = String::new();
        let mut in_lit = false;
        let mut in_comment = false;
        for c in text.chars() {
            // the operand text is a raw source slice: comments between its tokens belong to the layout
            if in_comment {
                if c == '\n' || c == '\r' {
                    in_comment = false;
                }
                continue;
            }
            if c == '#' && !in_lit && !cur.starts_with('<') {
                if !cur.is_empty() {
                    out.push(std::mem::take(&mut cur));
                }
                in_comment = true;
                continue;
            }
            if in_lit {
                cur.push(c);
                if c == '"' && !cur.ends_with("\\\"") {
                    in_lit = false;
                    out.push(std::mem::take(&mut cur));
                }
                continue;
            }
            match c {
                '"' => {
                    if !cur.is_empty() {
                        out.push(std::mem::take(&mut cur));
                    }
                    cur.push(c);
                    in_lit = true;
                }
                '(' | ')' | '+' | '*' | '/' => {
                    if !cur.is_empty() {
                        out.push(std::mem::take(&mut cur));
                    }
                    out.push(c.to_string());
                }
                '-' if cur.is_empty() || !cur.starts_with('<') => {
                    if !cur.is_empty() {
                        out.push(std::mem::take(&mut cur));
                    }
                    out.push(c.to_string());
                }
                c if c.is_whitespace() => {
                    if !cur.is_empty() {
                        out.push(std::mem::take(&mut cur));
                    }
                }
                c => cur.push(c),
            }
        }
        if !cur.is_empty() {
            out.push(cur);
        }
        out
    }
    fn operand(t: &[String], i: &mut usize) -> Option<Arith> {
        let tok = t.get(*i)?;
        if tok == "(" {
            *i += 1;
            let e = sum(t, i)?;
            if t.get(*i)? != ")" {
                return None;
            }
            *i += 1;
            return Some(e);
        }
        if matches!(tok.as_str(), ")" | "+" | "-" | "*" | "/") {
            return None;
        }
        *i += 1;
        Some(Arith::Operand(term(tok)))
    }
    fn product(t: &[String], i: &mut usize) -> Option<Arith> {
        let mut e = operand(t, i)?;
        while let Some(op) = t.get(*i) {
            if op == "*" || op == "/" {
                let mul = op == "*";
                *i += 1;
                let r = operand(t, i)?;
                e = if mul { Arith::Mul(Box::new(e), Box::new(r)) } else { Arith::Div(Box::new(e), Box::new(r)) };
            } else {
                break;
            }
        }
        Some(e)
    }
    fn sum(t: &[String], i: &mut usize) -> Option<Arith> {
        let mut e = product(t, i)?;
        while let Some(op) = t.get(*i) {
            if op == "+" || op == "-" {
                let add = op == "+";
                *i += 1;
                let r = product(t, i)?;
                e = if add { Arith::Add(Box::new(e), Box::new(r)) } else { Arith::Sub(Box::new(e), Box::new(r)) };
            } else {
                break;
            }
        }
        Some(e)
    }
    let t = toks(text);
    let mut i = 0;
    let e = sum(&t, &mut i)?;
    if i == t.len() {
        Some(e)
    } else {
        None
    }
}

fn conv_expr(f: &kq::FilterExpression) -> Result<Expr, String> {
    Ok(match f {
        kq::FilterExpression::Comparison(a, op, b) => {
            let op = match *op {
                "=" => Cmp::Eq,
                "!=" => Cmp::Ne,
                "<" => Cmp::Lt,
                "<=" => Cmp::Le,
                ">" => Cmp::Gt,
                ">=" => Cmp::Ge,
                o => return Err(format!("operator {}", o)),
            };
            match (parse_arith(a), parse_arith(b)) {
                (Some(Arith::Operand(x)), Some(Arith::Operand(y))) => Expr::Cmp(x, op, y),
                (Some(x), Some(y)) => Expr::ArithCmp(x, op, y),
                _ => Expr::Cmp(term(a), op, term(b)),
            }
        }
        kq::FilterExpression::And(a, b) => Expr::And(Box::new(conv_expr(a)?), Box::new(conv_expr(b)?)),
        kq::FilterExpression::Or(a, b) => Expr::Or(Box::new(conv_expr(a)?), Box::new(conv_expr(b)?)),
        kq::FilterExpression::Not(a) => Expr::Not(Box::new(conv_expr(a)?)),
        other => return Err(format!("unexpected filter node {:?}", other)),
    })
}

/// a pattern in "group position" (body of braces)
fn conv_group(p: &kq::GroupGraphPattern) -> Result<Group, String> {
    Ok(match p {
        kq::GroupGraphPattern::Unit => Group(vec![]),
        kq::GroupGraphPattern::Join(list) => {
            let mut v = Vec::new();
            for x in list {
                v.push(conv_elem(x)?);
            }
            Group(v)
        }
        single => Group(vec![conv_elem(single)?]),
    })
}

/// a pattern in "element position" (member of a group)
fn conv_elem(p: &kq::GroupGraphPattern) -> Result<Elem, String> {
    Ok(match p {
        kq::GroupGraphPattern::Unit => Elem::Nested(Group(vec![])),
        kq::GroupGraphPattern::Bgp(ts) => Elem::Triples(ts.iter().map(|(s, p, o)| tp(term(s), term(p), term(o))).collect()),
        kq::GroupGraphPattern::Join(_) => Elem::Nested(conv_group(p)?),
        kq::GroupGraphPattern::Union(bs) => {
            let mut v = Vec::new();
            for b in bs {
                v.push(conv_group(b)?);
            }
            Elem::Union(v)
        }
        kq::GroupGraphPattern::Graph { name, pattern } => Elem::Graph(term(name), conv_group(pattern)?),
        kq::GroupGraphPattern::Filter(f) => Elem::Filter(conv_expr(f)?),
        kq::GroupGraphPattern::Bind((func, args, out)) => {
            if *func != "CONCAT" {
                return Err(format!("bind function {}", func));
            }
            Elem::Bind(args.iter().map(|a| if a.starts_with('?') { term(a) } else { T::Lit(a.to_string()) }).collect(), out.trim_start_matches('?').to_string())
        }
        kq::GroupGraphPattern::Values(vc) => Elem::Values(
            vc.variables.iter().map(|v| v.trim_start_matches('?').to_string()).collect(),
            vc.values
                .iter()
                .map(|r| {
                    r.iter()
                        .map(|c| match c {
                            kq::Value::Undef => None,
                            kq::Value::Term(t) => Some(term(t)),
                        })
                        .collect()
                })
                .collect(),
        ),
        kq::GroupGraphPattern::SubQuery(sq) => Elem::Sub(Box::new(conv_select(&sq.query)?)),
    })
}

pub fn conv_select(q: &kq::SelectQuery) -> Result<Select, String> {
    let proj = if q.variables == vec![("*", "*", None)] {
        Proj::Star
    } else {
        let mut items = Vec::new();
        for (kind, var, alias) in &q.variables {
            let v = var.trim_start_matches('?').to_string();
            items.push(match *kind {
                "VAR" => ProjItem::Var(v),
                k => {
                    let f = match k {
                        "SUM" => Agg::Sum,
                        "MIN" => Agg::Min,
                        "MAX" => Agg::Max,
                        "AVG" => Agg::Avg,
                        o => return Err(format!("aggregate {}", o)),
                    };
                    ProjItem::Agg(f, v, alias.map(|a| a.trim_start_matches('?').to_string()).unwrap_or_default())
                }
            });
        }
        Proj::Items(items)
    };
    let strip_iri = |s: &&str| s.trim().trim_start_matches('<').trim_end_matches('>').to_string();
    Ok(Select {
        distinct: q.distinct,
        proj,
        from: q.from.iter().map(strip_iri).collect(),
        from_named: q.from_named.iter().map(strip_iri).collect(),
        pattern: conv_group(&q.pattern)?,
        group_by: q.group_vars.iter().map(|v| v.trim_start_matches('?').to_string()).collect(),
        order_by: q.order_conditions.iter().map(|c| (c.variable.trim_start_matches('?').to_string(), c.direction == kq::SortDirection::Desc)).collect(),
        limit: q.limit,
    })
}

fn conv_quads(qs: &[kq::LexicalQuadPattern]) -> Vec<QuadT> {
    qs.iter().map(|q| QuadT { g: q.graph.map(term), t: tp(term(q.triple.0), term(q.triple.1), term(q.triple.2)) }).collect()
}

pub fn conv_update(u: &kq::UpdateOperation) -> Result<Update, String> {
    Ok(match u {
        kq::UpdateOperation::InsertData(c) => Update::InsertData(conv_quads(&c.quads)),
        kq::UpdateOperation::DeleteData(c) => Update::DeleteData(conv_quads(&c.quads)),
        kq::UpdateOperation::InsertWhere { insert, where_pattern } => Update::Modify { delete: None, insert: Some(conv_quads(&insert.quads)), pattern: conv_group(where_pattern)? },
        kq::UpdateOperation::DeleteWhere { delete, where_pattern } => Update::Modify { delete: Some(conv_quads(&delete.quads)), insert: None, pattern: conv_group(where_pattern)? },
        kq::UpdateOperation::DeleteInsertWhere { delete, insert, where_pattern } => {
            Update::Modify { delete: Some(conv_quads(&delete.quads)), insert: Some(conv_quads(&insert.quads)), pattern: conv_group(where_pattern)? }
        }
        kq::UpdateOperation::DeleteWhereShorthand { delete, .. } => Update::DeleteWhere(conv_quads(&delete.quads)),
    })
}

// normalisation applied to both sides

fn norm_group(g: &Group) -> Group {
    let mut out: Vec<Elem> = Vec::new();
    fn push(out: &mut Vec<Elem>, e: Elem) {
        if let Elem::Triples(ts) = &e {
            if let Some(Elem::Triples(prev)) = out.last_mut() {
                prev.extend(ts.iter().cloned());
                return;
            }
        }
        out.push(e);
    }
    for e in &g.0 {
        match e {
            Elem::Nested(inner) => {
                let n = norm_group(inner);
                if n.0.len() == 1 && !matches!(n.0[0], Elem::Filter(_) | Elem::Bind(..)) {
                    push(&mut out, n.0[0].clone());
                } else {
                    out.push(Elem::Nested(n));
                }
            }
            Elem::Graph(t, inner) => out.push(Elem::Graph(t.clone(), norm_group(inner))),
            Elem::Union(bs) => out.push(Elem::Union(bs.iter().map(norm_group).collect())),
            Elem::Sub(s) => out.push(Elem::Sub(Box::new(norm_select(s)))),
            Elem::Triples(ts) => push(&mut out, Elem::Triples(ts.clone())),
            other => out.push(other.clone()),
        }
    }
    // a group that consists of exactly one nested group is that group
    if out.len() == 1 {
        if let Elem::Nested(inner) = &out[0] {
            return inner.clone();
        }
    }
    Group(out)
}

pub fn norm_select(s: &Select) -> Select {
    let mut s = s.clone();
    s.pattern = norm_group(&s.pattern);
    s
}

fn norm_quads(q: &[QuadT]) -> Vec<QuadT> {
    q.to_vec()
}

fn norm_update(u: &Update) -> Update {
    match u {
        Update::Modify { delete, insert, pattern } => Update::Modify { delete: delete.as_ref().map(|d| norm_quads(d)), insert: insert.as_ref().map(|d| norm_quads(d)), pattern: norm_group(pattern) },
        other => other.clone(),
    }
}

// ---------------------------------------------------------------------------------------
// totality
// ---------------------------------------------------------------------------------------

pub const TOKENS: [&str; 34] = [
    "\"\\u0041\"", "\"x\\u00e9\"", "\"\\U0001F600é\"", "<http://e/\\u0041>",
    "SELECT", "WHERE", "{", "}", "?x", "<http://e/a>", "ex:a", "\"lit\"", "\"é\"", "'''", "<<", ">>", "^^", "@en", "\\", "#", "é", "\n", ".", ";", ",", "(", ")", "FILTER", "GRAPH", "UNION", "INSERT", "DELETE", "DATA", "*",
];

pub const SPECIALS: [&str; 14] = ["\"", "'", "\\", "<", ">", "{", "}", "é", "😀", "?", "#", " ", "\n", "("];

pub fn seed_corpus() -> Vec<String> {
    let mut v: Vec<String> = Vec::new();
    for s in qgen::queries(Scope::Tiny).iter().step_by(9) {
        v.push(print_select(s, Layout::Canonical));
    }
    for (k, s) in qgen::queries(Scope::Tiny).iter().enumerate().filter(|(k, _)| k % 31 == 0) {
        v.push(print_select(s, LAYOUTS[k % LAYOUTS.len()]));
    }
    for r in ugen::alphabet() {
        v.push(r.text());
    }
    v.push("PREFIX ex: <http://e/> SELECT ?s WHERE { ?s ex:p \"é\"@en ; a ex:T . FILTER(?s != ex:a) }".into());
    v.push("PREFIX ex: <http://e/> SELECT ?s WHERE { << ?s ex:p ?o >> ex:q ?c . }".into());
    v.push("SELECT ?s WHERE { ?s <http://e/p> '''long\nliteral''' . }".into());
    v.push("SELECT ?s WHERE { ?s <http://e/p> \"x\"^^<http://www.w3.org/2001/XMLSchema#string> . }".into());
    v.push("SELECT ?s WHERE { ?s <http://e/q> ?v . FILTER((?v + 1) * 2 > 3) }".into());
    v.push("SELECT ?s WHERE { ?s <http://e/p> \"caf\\u00e9\" . }".into());
    v.push("SELECT ?s WHERE { ?s <http://e/p> \"\\u0041é\\t\\\"q\\\"\\U0001F600\"@en . FILTER(?s != <http://e/\\u0041>) }".into());
    v.push("INSERT DATA { <http://e/a> <http://e/p> \"l\\u00e9\\n\" . }".into());
    v.push("RULE :OverheatingAlert :- CONSTRUCT { ?room ex:overheatingAlert true . } WHERE { ?reading ex:room ?room ; ex:temperature ?temp FILTER (?temp > 80) }".into());
    v.push("RULE :R PROB(combination=independent, threshold=0.3, confidence=0.9) :- CONSTRUCT { ?x :r ?z . } WHERE { ?x :r ?y . ?y :r ?z . }".into());
    v.push("REGISTER ISTREAM <http://out/stream> AS SELECT * FROM NAMED WINDOW :w ON ?stream [RANGE 3 STEP 1] WHERE { WINDOW :w { ?s a <http://test/IType> . } }".into());
    v.push("REGISTER RSTREAM <http://out/stream> AS SELECT * FROM NAMED WINDOW :a ON :sa [RANGE 10 STEP 2] FROM NAMED WINDOW :b ON :sb [RANGE 10 STEP 2] WHERE { WINDOW :a { ?s1 a <http://test/A> . } WINDOW :b { ?s2 a <http://test/B> . } }".into());
    v.push("ML.PREDICT( MODEL \"m\", INPUT { SELECT ?room ?h WHERE { ?room :humidity ?h } }, OUTPUT ?t )".into());
    v.push("RETRIEVE SOME ACTIVE STREAM ?s FROM <http://my.org/catalog> WITH { ?s a :Stream . }".into());
    // update forms behind a prologue or an extension clause (operation-kind checks must still see them)
    v.push("PREFIX ex: <http://e/> INSERT DATA { ex:a ex:p ex:b . }".into());
    v.push("PREFIX ex: <http://e/>\nPREFIX f: <http://f/>\nDELETE { ?s ex:p ?o } INSERT { ?s f:p ?o } WHERE { ?s ex:p ?o }".into());
    v.push("RULE :R :- CONSTRUCT { ?x :r ?z . } WHERE { ?x :r ?y . ?y :r ?z . } INSERT DATA { <http://e/a> <http://e/p> <http://e/b> . }".into());
    v.push("RULE :R :- CONSTRUCT { ?x :r ?z . } WHERE { ?x :r ?y . } SELECT ?s WHERE { ?s <http://e/p> ?o }".into());
    v.push("# comment first\nDELETE WHERE { ?s <http://e/p> ?o }".into());
    v
}

fn rest_is_blank(rest: &str) -> bool {
    let mut r = rest;
    loop {
        r = r.trim_start();
        if let Some(c) = r.strip_prefix('#') {
            r = match c.find(['\r', '\n']) {
                Some(i) => &c[i..],
                None => "",
            };
            continue;
        }
        return r.is_empty();
    }
}

/// run the four parsers on one input; returns (accepted-by-some-parser, failures)
pub fn totality_one(input: &str) -> (bool, Vec<(&'static str, String)>) {
    let mut fails = Vec::new();
    let mut accepted = false;
    // (name, closure) — each returns Ok(Some(rest)) on acceptance
    let r = guarded(|| parse_combined_query(input).ok().map(|(rest, _)| rest.to_string()));
    match r {
        Err(p) => fails.push(("panic:parse_combined_query", p)),
        Ok(Some(rest)) => {
            accepted = true;
            if !rest_is_blank(&rest) {
                fails.push(("accepted_with_trailing_input:parse_combined_query", format!("remaining {:?}", rest)));
            }
        }
        Ok(None) => {}
    }
    let r = guarded(|| parse_combined_query_with_options(input, true).ok().map(|(rest, _)| rest.to_string()));
    match r {
        Err(p) => fails.push(("panic:parse_combined_query_with_options", p)),
        Ok(Some(rest)) => {
            accepted = true;
            if !rest_is_blank(&rest) {
                fails.push(("accepted_with_trailing_input:parse_combined_query_with_options", format!("remaining {:?}", rest)));
            }
        }
        Ok(None) => {}
    }
    let r = guarded(|| parse_sparql_query(input).ok().map(|(rest, _)| rest.to_string()));
    match r {
        Err(p) => fails.push(("panic:parse_sparql_query", p)),
        Ok(Some(rest)) => {
            accepted = true;
            if !rest_is_blank(&rest) {
                fails.push(("accepted_with_trailing_input:parse_sparql_query", format!("remaining {:?}", rest)));
            }
        }
        Ok(None) => {}
    }
    let r = guarded(|| parse_group_graph_pattern(input).is_ok());
    match r {
        Err(p) => fails.push(("panic:parse_group_graph_pattern", p)),
        Ok(ok) => accepted |= ok,
    }
    (accepted, fails)
}

fn record_totality(out: &mut ShardOut, ctx: &Ctx, family: &str, input: &str) {
    if let Some(p) = &ctx.progress {
        p.mark(&json!({"family": family, "input": input}).to_string());
    }
    out.evaluations += 1;
    let (accepted, fails) = totality_one(input);
    if accepted {
        out.nontrivial(&input);
        out.count("accepted_inputs", 1);
    }
    out.outcomes.insert(accepted as u64 + 2 * (!fails.is_empty()) as u64);
    for (sym, detail) in fails {
        let (symptom, parser) = sym.split_once(':').unwrap_or((sym, ""));
        let multibyte = !input.is_ascii();
        let tags = vec![format!("family={}", family), format!("parser={}", parser), format!("multibyte={}", multibyte)];
        out.fail(json!({"family": family, "input": input}), symptom, detail, tags);
    }
}

pub fn mutations(seed: &str, f: &mut dyn FnMut(String)) {
    let idx: Vec<usize> = seed.char_indices().map(|(i, _)| i).chain(std::iter::once(seed.len())).collect();
    for (k, &i) in idx.iter().enumerate() {
        // truncate at i
        f(seed[..i].to_string());
        // insert each special at i
        for sp in SPECIALS {
            f(format!("{}{}{}", &seed[..i], sp, &seed[i..]));
        }
        if k + 1 < idx.len() {
            let j = idx[k + 1];
            // delete char at i
            f(format!("{}{}", &seed[..i], &seed[j..]));
            // substitute
            for sp in SPECIALS {
                f(format!("{}{}{}", &seed[..i], sp, &seed[j..]));
            }
        }
    }
}

// ---------------------------------------------------------------------------------------
// faithfulness
// ---------------------------------------------------------------------------------------

pub fn faithful_select(s: &Select, layout: Layout) -> Result<(), (String, String)> {
    let text = print_select(s, layout);
    let want = norm_select(s);
    for which in ["parse_combined_query", "parse_sparql_query"] {
        let got = guarded(|| -> Result<Select, String> {
            if which == "parse_sparql_query" {
                let (_, q) = parse_sparql_query(&text).map_err(|e| format!("rejected: {:?}", e))?;
                conv_select(&q)
            } else {
                let (_, c) = parse_combined_query(&text).map_err(|e| format!("rejected: {:?}", e))?;
                match c.sparql {
                    Some(kq::SparqlOperation::Select(q)) => conv_select(&q),
                    other => Err(format!("not parsed as SELECT: {:?}", other)),
                }
            }
        });
        match got {
            Err(p) => return Err(("panic".into(), format!("{} on {:?}: {}", which, text, p))),
            Ok(Err(e)) => return Err(("valid_query_rejected".into(), format!("{} on {:?}: {}", which, text, crate::infra::truncate(&e, 300)))),
            Ok(Ok(g)) => {
                let g = norm_select(&g);
                if g != want {
                    return Err(("tree_differs".into(), format!("{} on {:?}\n  parsed  : {:?}\n  expected: {:?}", which, text, g, want)));
                }
            }
        }
    }
    Ok(())
}

pub fn faithful_update(u: &Update, layout: Layout) -> Result<(), (String, String)> {
    let text = print_update(u, layout);
    let want = norm_update(u);
    let got = guarded(|| -> Result<Update, String> {
        let (_, c) = parse_combined_query(&text).map_err(|e| format!("rejected: {:?}", e))?;
        match c.sparql {
            Some(kq::SparqlOperation::Update(u)) => conv_update(&u),
            other => Err(format!("not parsed as Update: {:?}", other)),
        }
    });
    match got {
        Err(p) => Err(("panic".into(), format!("{:?}: {}", text, p))),
        Ok(Err(e)) => Err(("valid_query_rejected".into(), format!("{:?}: {}", text, crate::infra::truncate(&e, 300)))),
        Ok(Ok(g)) => {
            let g = norm_update(&g);
            if g != want {
                Err(("tree_differs".into(), format!("{:?}\n  parsed  : {:?}\n  expected: {:?}", text, g, want)))
            } else {
                Ok(())
            }
        }
    }
}

/// Literal escape matrix: every escape kind followed by every kind of next character (closing quote,
/// ASCII, multi-byte, another escape), in three syntactic positions. A valid literal token must be
/// accepted by the whole-request parsers, consumed entirely, and handed on verbatim.
pub fn escape_matrix() -> Vec<(String, String)> {
    let escapes = ["\\t", "\\n", "\\\"", "\\\\", "\\'", "\\u0041", "\\u00e9", "\\U0001F600", "\\b", "\\f", "\\r"];
    let mut lits: Vec<String> = Vec::new();
    for pre in ["", "a", "é"] {
        for e1 in escapes {
            let mut nexts: Vec<String> = vec!["".into(), "a".into(), "é".into(), "😀".into(), " ".into()];
            nexts.extend(escapes.iter().map(|x| x.to_string()));
            for n in nexts {
                for suf in ["", "z"] {
                    lits.push(format!("\"{}{}{}{}\"", pre, e1, n, suf));
                }
            }
        }
    }
    let mut out = Vec::new();
    for l in lits {
        out.push((format!("SELECT ?s WHERE {{ ?s <http://e/p> {} . }}", l), l.clone()));
        out.push((format!("SELECT ?s WHERE {{ ?s <http://e/p> ?o . FILTER(?o = {}) }}", l), l.clone()));
        out.push((format!("SELECT ?s WHERE {{ VALUES ?o {{ {} }} ?s <http://e/p> ?o . }}", l), l.clone()));
    }
    out
}

/// Term matrix: every kind of RDF term token the scanners know (numeric literals with sign /
/// fraction / exponent, booleans, language-tagged and datatyped literals, single-, triple-quoted
/// literals, blank nodes, prefixed names with dots / empty prefix / empty local part, IRIs with a
/// fragment or a numeric escape, `a`), in every position where the grammar allows it. Each entry is
/// (request text, token that must appear verbatim in the tree).
pub fn term_matrix() -> Vec<(String, String)> {
    let prologue = "PREFIX ex: <http://e/> PREFIX : <http://d/> ";
    let objects = [
        "1",
        "-1",
        "+1",
        "1.5",
        "-1.5",
        ".5",
        "1e3",
        "1.5E-3",
        "-1.0e+2",
        "true",
        "false",
        "\"x\"@en",
        "\"x\"@en-US",
        "\"x\"^^<http://e/dt>",
        "\"x\"^^ex:dt",
        "\"7\"^^<http://www.w3.org/2001/XMLSchema#integer>",
        "'x'",
        "'x y'@en",
        "'''x'y'''",
        "\"\"\"x\"y\"\"\"",
        "\"\"\"two\nlines\"\"\"",
        "\"\"",
        "''",
        "_:b1",
        "_:b-1",
        "_:b.1",
        "ex:a",
        "ex:a.b",
        "ex:a-b_c",
        "ex:1a",
        ":a",
        "ex:",
        ":",
        "<http://e/a#frag>",
        "<http://e/a?x=1&y=2>",
        "<http://e/\\u0041>",
        "<urn:x:y>",
        "<< <http://e/a> <http://e/p> <http://e/b> >>",
        "<< ?s ex:p \"x\" >>",
    ];
    let subjects = ["_:b1", "ex:a", ":a", "ex:a.b", "<http://e/a#frag>", "<urn:x:y>", "<< <http://e/a> <http://e/p> <http://e/b> >>"];
    let predicates = ["a", "ex:p", ":p", "ex:p.q", "<http://e/p#frag>", "<urn:p>"];
    let mut out = Vec::new();
    for o in objects {
        out.push((format!("{}SELECT ?s WHERE {{ ?s ex:p {} . }}", prologue, o), o.to_string()));
        out.push((format!("{}SELECT ?s WHERE {{ ?s ex:p {} }}", prologue, o), o.to_string()));
        out.push((format!("{}SELECT ?s WHERE {{ ?s ex:p {} ; ex:q ?z , {} . }}", prologue, o, o), o.to_string()));
        if !o.starts_with("_:") && !o.starts_with("<<") {
            out.push((format!("{}SELECT ?s WHERE {{ VALUES ?o {{ {} }} ?s ex:p ?o . }}", prologue, o), o.to_string()));
            out.push((format!("{}SELECT ?s WHERE {{ ?s ex:p ?o . FILTER(?o = {}) }}", prologue, o), o.to_string()));
        }
        if !o.starts_with("<<") {
            out.push((format!("{}INSERT DATA {{ ex:s ex:p {} . }}", prologue, o), o.to_string()));
        }
    }
    for t in subjects {
        out.push((format!("{}SELECT ?o WHERE {{ {} ex:p ?o . }}", prologue, t), t.to_string()));
    }
    for t in predicates {
        out.push((format!("{}SELECT ?o WHERE {{ ?s {} ?o . }}", prologue, t), t.to_string()));
        out.push((format!("{}SELECT ?o WHERE {{ GRAPH ex:g {{ ?s {} ?o }} }}", prologue, t), t.to_string()));
    }
    for gname in ["ex:g", ":g", "<http://e/g#1>", "?g"] {
        out.push((format!("{}SELECT ?o FROM <http://e/g1> FROM NAMED <http://e/g2> WHERE {{ GRAPH {} {{ ?s ex:p ?o }} }}", prologue, gname), gname.to_string()));
    }
    out
}

/// Err((symptom, detail)) when a valid term token is not accepted verbatim by parse_combined_query
pub fn term_matrix_one(text: &str, token: &str) -> Result<(), (String, String)> {
    let got = guarded(|| -> Result<String, String> {
        let (rest, c) = parse_combined_query(text).map_err(|e| format!("rejected: {:?}", e))?;
        if !rest_is_blank(rest) {
            return Err(format!("trailing input {:?}", rest));
        }
        Ok(format!("{:?}", c.sparql))
    });
    match got {
        Err(p) => Err(("panic".into(), format!("parse_combined_query on {:?}: {}", text, p))),
        Ok(Err(e)) => Err(("valid_query_rejected".into(), format!("{:?}: {}", text, crate::infra::truncate(&e, 300)))),
        Ok(Ok(debug)) => {
            let needle = format!("{:?}", token);
            let needle = &needle[1..needle.len() - 1];
            if debug.contains(needle) {
                Ok(())
            } else {
                Err(("tree_differs".into(), format!("{:?}: token {} not found verbatim in {}", text, token, crate::infra::truncate(&debug, 500))))
            }
        }
    }
}

/// Err((symptom, detail)) when a valid literal token is not accepted verbatim
pub fn escape_matrix_one(text: &str, token: &str) -> Result<(), (String, String)> {
    for which in ["parse_sparql_query", "parse_combined_query"] {
        let got = guarded(|| -> Result<String, String> {
            let q = if which == "parse_sparql_query" {
                parse_sparql_query(text).map_err(|e| format!("rejected: {:?}", e))?.1
            } else {
                match parse_combined_query(text).map_err(|e| format!("rejected: {:?}", e))?.1.sparql {
                    Some(kq::SparqlOperation::Select(q)) => q,
                    other => return Err(format!("not parsed as SELECT: {:?}", other)),
                }
            };
            Ok(format!("{:?}", q.pattern))
        });
        match got {
            Err(p) => return Err(("panic".into(), format!("{} on {:?}: {}", which, text, p))),
            Ok(Err(e)) => return Err(("valid_query_rejected".into(), format!("{} on {:?}: {}", which, text, crate::infra::truncate(&e, 300)))),
            Ok(Ok(debug)) => {
                // the lexical token must appear verbatim in the tree (Debug escapes quotes and backslashes)
                let needle = format!("{:?}", token);
                let needle = &needle[1..needle.len() - 1];
                if !debug.contains(needle) {
                    return Err(("tree_differs".into(), format!("{} on {:?}: literal token {} not found verbatim in {}", which, text, token, crate::infra::truncate(&debug, 400))));
                }
            }
        }
    }
    Ok(())
}

/// updates that the parser itself must refuse (syntactic validation of DATA blocks)
fn update_is_syntactically_valid(u: &Update) -> bool {
    let has_var = |q: &Vec<QuadT>| q.iter().any(|x| x.t.s.is_var() || x.t.p.is_var() || x.t.o.is_var());
    let has_b = |q: &Vec<QuadT>| q.iter().any(|x| matches!(x.t.s, T::Bnode(_)) || matches!(x.t.o, T::Bnode(_)));
    match u {
        Update::InsertData(q) => !has_var(q),
        Update::DeleteData(q) => !has_var(q) && !has_b(q),
        Update::Modify { delete, .. } => !delete.as_ref().map_or(false, has_b),
        Update::DeleteWhere(q) => !has_b(q),
    }
}

fn run(ctx: &Ctx) -> ShardOut {
    let mut out = ShardOut::default();
    let mut idx = 0u64;
    // (i) token strings
    let maxlen = if ctx.thorough() { 4 } else { 3 };
    let n = TOKENS.len();
    for len in 1..=maxlen {
        let total = (n as u64).pow(len as u32);
        for code in 0..total {
            idx += 1;
            if !ctx.mine(idx) {
                continue;
            }
            if code % 4096 == 0 && ctx.expired() {
                out.capped.push(format!("wall-clock cap hit in token strings of length {}", len));
                break;
            }
            let mut c = code;
            let mut toks = Vec::with_capacity(len);
            for _ in 0..len {
                toks.push(TOKENS[(c % n as u64) as usize]);
                c /= n as u64;
            }
            record_totality(&mut out, ctx, "tokens_spaced", &toks.join(" "));
            if len > 1 {
                record_totality(&mut out, ctx, "tokens_glued", &toks.concat());
            }
        }
    }
    out.count("max_token_string_length", maxlen as u64);
    // (ii) mutations of the seed corpus
    let seeds = seed_corpus();
    out.count("seeds", if ctx.shard == 0 { seeds.len() as u64 } else { 0 });
    for seed in &seeds {
        let mut batch = Vec::new();
        mutations(seed, &mut |m| batch.push(m));
        for m in batch {
            idx += 1;
            if !ctx.mine(idx) {
                continue;
            }
            record_totality(&mut out, ctx, "single_mutation", &m);
        }
        if ctx.expired() {
            out.capped.push("wall-clock cap hit in single mutations".into());
            break;
        }
    }
    // double mutations of the shortest seeds
    let mut shortest: Vec<&String> = seeds.iter().collect();
    shortest.sort_by_key(|s| s.len());
    let nshort = if ctx.thorough() { 24 } else { 2 };
    'dm: for seed in shortest.into_iter().filter(|s| s.len() > 10).take(nshort) {
        let mut first = Vec::new();
        mutations(seed, &mut |m| first.push(m));
        for m1 in first {
            idx += 1;
            if !ctx.mine(idx) {
                continue;
            }
            if ctx.expired() {
                out.capped.push("wall-clock cap hit in double mutations".into());
                break 'dm;
            }
            let mut second = Vec::new();
            mutations(&m1, &mut |m| second.push(m));
            for m2 in second {
                record_totality(&mut out, ctx, "double_mutation", &m2);
            }
        }
    }
    // faithfulness
    let qs = qgen::queries(if ctx.thorough() { Scope::Thorough } else { Scope::Quick });
    out.count("faithfulness_queries", if ctx.shard == 0 { qs.len() as u64 } else { 0 });
    for (qi, s) in qs.iter().enumerate() {
        idx += 1;
        if !ctx.mine(idx) {
            continue;
        }
        if qi % 256 == 0 && ctx.expired() {
            out.capped.push(format!("wall-clock cap hit in faithfulness at query {}", qi));
            break;
        }
        for layout in LAYOUTS {
            out.evaluations += 1;
            let text = print_select(s, layout);
            out.nontrivial(&text);
            if let Err((sym, detail)) = faithful_select(s, layout) {
                let mut tags = super::c01::query_tags(s);
                tags.push(format!("layout={:?}", layout));
                tags.push("family=faithfulness".into());
                out.fail(json!({"family": "faithful_select", "scope": if ctx.thorough() { "Thorough" } else { "Quick" }, "qindex": qi, "layout": format!("{:?}", layout), "text": text}), &sym, detail, tags);
            }
        }
        if qi % 1500 == 1 {
            out.sample(json!({"faithfulness": print_select(s, Layout::Commented)}));
        }
    }
    // literal escape matrix
    for (text, token) in escape_matrix() {
        idx += 1;
        if !ctx.mine(idx) {
            continue;
        }
        out.evaluations += 1;
        out.count("escape_matrix_cases", 1);
        out.nontrivial(&text);
        record_totality(&mut out, ctx, "escape_matrix", &text);
        if let Err((sym, detail)) = escape_matrix_one(&text, &token) {
            out.fail(json!({"family": "escape_matrix", "input": text, "token": token}), &sym, detail, vec!["family=escape_matrix".into(), format!("multibyte={}", !text.is_ascii())]);
        }
    }
    // term matrix
    for (text, token) in term_matrix() {
        idx += 1;
        if !ctx.mine(idx) {
            continue;
        }
        out.evaluations += 1;
        out.count("term_matrix_cases", 1);
        out.nontrivial(&text);
        record_totality(&mut out, ctx, "term_matrix", &text);
        if let Err((sym, detail)) = term_matrix_one(&text, &token) {
            out.fail(json!({"family": "term_matrix", "input": text, "token": token}), &sym, detail, vec!["family=term_matrix".into(), format!("token={}", token)]);
        }
    }
    if ctx.shard == 0 {
        for (ui, u) in ugen::valid_updates().iter().enumerate() {
            if !update_is_syntactically_valid(u) {
                continue;
            }
            for layout in LAYOUTS {
                out.evaluations += 1;
                let text = print_update(u, layout);
                out.nontrivial(&text);
                if let Err((sym, detail)) = faithful_update(u, layout) {
                    out.fail(json!({"family": "faithful_update", "uindex": ui, "layout": format!("{:?}", layout), "text": text}), &sym, detail, vec![format!("layout={:?}", layout), "family=faithfulness_update".into()]);
                }
            }
        }
    }
    out
}

fn layout_of(name: &str) -> Layout {
    LAYOUTS.iter().copied().find(|l| format!("{:?}", l) == name).unwrap_or(Layout::Canonical)
}

fn replay(ctx: &Ctx, case: &Value) -> ShardOut {
    let mut out = ShardOut::default();
    match case["family"].as_str().unwrap_or("") {
        "faithful_select" => {
            let scope = if case["scope"].as_str() == Some("Thorough") { Scope::Thorough } else { Scope::Quick };
            let qs = qgen::queries(scope);
            let layout = layout_of(case["layout"].as_str().unwrap_or(""));
            let want = case["text"].as_str().unwrap_or("");
            match qs.iter().find(|s| print_select(s, layout) == want) {
                Some(s) => {
                    out.evaluations += 1;
                    if let Err((sym, detail)) = faithful_select(s, layout) {
                        let mut tags = super::c01::query_tags(s);
                        tags.push(format!("layout={:?}", layout));
                        tags.push("family=faithfulness".into());
                        out.fail(case.clone(), &sym, detail, tags);
                    }
                }
                None => out.machinery_errors.push("replay: query not found".into()),
            }
        }
        "faithful_update" => {
            let layout = layout_of(case["layout"].as_str().unwrap_or(""));
            let ui = case["uindex"].as_u64().unwrap_or(0) as usize;
            if let Some(u) = ugen::valid_updates().get(ui) {
                out.evaluations += 1;
                if let Err((sym, detail)) = faithful_update(u, layout) {
                    out.fail(case.clone(), &sym, detail, vec![format!("layout={:?}", layout), "family=faithfulness_update".into()]);
                }
            }
        }
        "term_matrix" => {
            let input = case["input"].as_str().unwrap_or("").to_string();
            let token = case["token"].as_str().unwrap_or("").to_string();
            out.evaluations += 1;
            record_totality(&mut out, ctx, "term_matrix", &input);
            if let Err((sym, detail)) = term_matrix_one(&input, &token) {
                out.fail(case.clone(), &sym, detail, vec!["family=term_matrix".into(), format!("token={}", token)]);
            }
        }
        "escape_matrix" => {
            let input = case["input"].as_str().unwrap_or("").to_string();
            let token = case["token"].as_str().unwrap_or("").to_string();
            out.evaluations += 1;
            record_totality(&mut out, ctx, "escape_matrix", &input);
            if let Err((sym, detail)) = escape_matrix_one(&input, &token) {
                out.fail(case.clone(), &sym, detail, vec!["family=escape_matrix".into(), format!("multibyte={}", !input.is_ascii())]);
            }
        }
        fam => {
            let input = case["input"].as_str().unwrap_or("").to_string();
            let fam = fam.to_string();
            record_totality(&mut out, ctx, &fam, &input);
        }
    }
    out
}
