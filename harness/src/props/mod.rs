//! One module per property.
use crate::infra::PropDef;

pub mod common;
pub mod qgen;
pub mod ugen;
pub mod c01;
pub mod c02;
pub mod c03;
pub mod c04;
pub mod c05;
pub mod c06;
pub mod c07;
pub mod c08;
pub mod c09;
pub mod c10;
pub mod c11;
pub mod c12;
pub mod c13;
pub mod c14;
pub mod c15;
pub mod c16;
pub mod c17;
pub mod c18;
pub mod c19;

pub fn all() -> &'static [PropDef] {
    static ALL: &[PropDef] = &[c01::DEF, c02::DEF, c03::DEF, c04::DEF, c05::DEF, c06::DEF, c07::DEF, c08::DEF, c09::DEF, c10::DEF, c11::DEF, c12::DEF, c13::DEF, c14::DEF, c15::DEF, c16::DEF, c17::DEF, c18::DEF, c19::DEF];
    ALL
}

/// For the totality properties a worker that dies from a signal is itself a verdict.
pub fn crash_is_violation(id: &str) -> bool {
    matches!(id, "C16" | "C17")
}

/// Properties whose statement implies that the subject keeps answering after the operations the
/// check performs: a worker death is a violation there, provided replaying the recorded case alone
/// kills a fresh process again (see main.rs).
pub fn crash_is_violation_if_reproduced(id: &str) -> bool {
    matches!(id, "C07")
}
