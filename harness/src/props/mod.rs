//! One module per property.
use crate::infra::PropDef;

pub mod c04;
pub mod c05;
pub mod c06;

pub fn all() -> &'static [PropDef] {
    static ALL: &[PropDef] = &[c04::DEF, c05::DEF, c06::DEF];
    ALL
}

/// For the totality properties a worker that dies from a signal is itself a verdict.
pub fn crash_is_violation(id: &str) -> bool {
    matches!(id, "C16" | "C17")
}
