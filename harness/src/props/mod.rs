//! One module per property.
use crate::infra::PropDef;

pub mod c04;
pub mod c13;
pub mod c14;

pub fn all() -> &'static [PropDef] {
    static ALL: &[PropDef] = &[c04::DEF, c13::DEF, c14::DEF];
    ALL
}

/// For the totality properties a worker that dies from a signal is itself a verdict.
pub fn crash_is_violation(id: &str) -> bool {
    matches!(id, "C16" | "C17")
}
