//! C03 — SPARQL Update applies exactly the standard effect, atomically.
//! E-seq: explicit-state search over sequences of update requests on the real database,
//! whole-dataset comparison with R-update after every step.
use super::common::*;
use super::ugen::{self, Req};
use crate::infra::{guarded, hash64, Ctx, PropDef, ShardOut};
use crate::reference::sparql_ast::{Update, T};
use crate::reference::sparql_eval::Dataset;
use crate::reference::update::{self, Effect};
use kolibrie::execute_query::execute_query_rayon_parallel2_volcano;
use kolibrie::sparql_database::SparqlDatabase;
use serde_json::{json, Value};
use std::collections::{BTreeSet, HashMap, VecDeque};

pub const DEF: PropDef = PropDef {
    id: "C03",
    level: "model_checking",
    rule: "states = abstract datasets (quads up to blank-node renaming + graph catalog) reached from 4 initial datasets by sequences of requests from a 56-request alphabet executed through SparqlDatabase::execute_update. CORE alphabet (36): the six update forms over default and named graphs, self-referential and swapping templates, graph-variable templates, WHERE with FILTER/UNION/VALUES, blank-node templates (also over WHERE multisets with identical solutions), unbound and literal-subject template variables, and 11 malformed/rejected requests. EXTENSION symbols (20): a template variable in predicate position (IRI legal; literal / blank node = illegal triple, skipped), a template graph variable bound from a non-graph position (creates new graphs; literal / blank node skipped), one request with an unbound variable in every template position of DELETE and INSERT (never a wildcard), blank nodes in INSERT DATA, multi-quad / mixed-graph / graph-variable DELETE WHERE shorthands, a blank node in DELETE WHERE (rejected), two hand-written requests with PREFIX prologue, prefixed names and ';' abbreviation, and a variable GRAPH name in INSERT DATA / DELETE DATA (rejected); 8 symbols over the RELATIVE IRI <k> (stored under the scheme-less lexical form k; the 4th initial dataset holds k as subject, object and predicate, not as graph name): INSERT DATA with k as object only / as subject and predicate / as graph name, DELETE DATA of all of these (leaves k behind as an empty named graph), three rewrites that DELETE every quad holding the bound value in subject / predicate / graph position and INSERT a quad with the same variable there, and one request binding k by VALUES and instantiating it as subject, predicate and graph name. The reference decides the legality of an instantiated template term by the KIND of the bound term alone (an IRI, absolute or relative, is a legal subject / predicate / graph name whatever the store holds, a literal never); the existing symbols that move an object into subject / predicate / graph position (core swap and reverse-insert, extension symbols 0 and 1) thereby bind k in positions where the store has not seen it. Counters rel_*: transitions whose INSERT template puts a relative IRI into subject / predicate / graph position through a variable, split by 'k occurs in that position in the pre-state' / 'absent there but names a pre-state graph' / 'absent', and how many delete its last occurrence there in the same operation. Every transition replays the op prefix on a fresh database and compares, after the last step, all quads of all graphs (up to blank-node renaming), the catalog bounds, the UpdateSummary counts and acceptance/rejection with the R-update reference; a rejected request must leave quads and catalog untouched. BFS per (initial dataset, first op) subtree with de-duplication on the abstract state; core-only paths to depth 4 (thorough 6); every extension symbol additionally as the LAST step after every core-only path of length <= 3 (thorough 4); paths with an extension symbol before their last step to depth 3 (thorough 4). Family alt_entry: every path of length <= 2 (thorough 3) additionally executes its LAST request through SparqlDatabase::handle_update, the HTTP update routes (POST application/sparql-update and form-encoded update=) and the legacy execute_query_rayon_parallel2_volcano, same oracle (counts where the entry point reports them; 'Update Failed' => dataset unchanged; no verdict on acceptance of requests the reference rejects, because these adapters accept the legacy aliases by design). Family bnode_collision: the process-global blank-node counter is read by a probe request, the initial dataset is pre-loaded with blank nodes carrying exactly the labels the next 1..5 allocations would produce (every non-empty subset of the 5 offsets), then each blank-node request is applied once and twice; the isomorphism oracle demands that every template blank node is distinct from every node already stored. Distinct non-trivial = distinct reached states holding >=2 quads.",
    assumptions: &[
        "alphabet of 56 requests over U (harness/src/props/ugen.rs): 36 core + 20 extension; core-only paths to depth 4 quick / 6 thorough, an extension symbol as last step to depth 4 / 5, extension symbols anywhere to depth 3 / 4",
        "de-duplication on the abstract dataset (quads + catalog): sound for this check because it compares the complete physical content through all_quads after every step; index-level divergence is C04's subject; a state first reached through a (depth-limited) extension path is expanded again when a core-only path reaches it",
        "catalog: SPARQL Update leaves the fate of emptied graphs open, so Kolibrie's catalog is only required to contain every graph holding a quad and nothing never named",
        "requests that the SPARQL grammar allows and that have no effect (empty request, literal written as template subject, SELECT) may be refused or accepted as no-ops",
        "bnode_collision: the probe only AIMS the pre-loaded labels (it reads the label format _:kolibrie-update-<n>-<label>); the verdict never depends on the format. If the probe cannot read a counter the family is reported as capped, not as passed",
        "term kinds: U holds absolute IRIs (http://e/...), the relative IRI <k> and the literals \"1\" \"2\" \"x\"; no request has a BASE, so <k> is kept as written (lexical form k) and is the same IRI wherever it is written. Lexical forms of IRIs and literals are disjoint by construction (checked at start-up), so the reference knows the kind of every stored term although the dictionary under test does not record it; what an implementation does with a literal and an IRI of the SAME spelling is outside this check",
        "reference R-update (harness/src/reference/update.rs), self-tested",
    ],
    run,
    replay,
    cap_s: (50, 1500),
    shards: 0,
};

pub fn initial_datasets() -> Vec<Dataset> {
    let t = |s: &str, p: &str, o: &str| (s.to_string(), p.to_string(), o.to_string());
    let mut d1 = Dataset::default();
    d1.default.insert(t(A, P, B));
    d1.default.insert(t(B, P, C));
    d1.default.insert(t(A, P, "1"));
    d1.named.entry(G1.into()).or_default().insert(t(A, P, B));
    d1.named.entry(G2.into()).or_default().insert(t(C, P, A));
    let mut d2 = Dataset::default();
    d2.default.insert(t(A, P, B));
    d2.named.entry(G1.into()).or_default().insert(t(A, P, B));
    // the relative IRI k (lexical form without a scheme) as subject, as object and as predicate,
    // NOT as a graph name: whether a template variable bound to k is a legal subject / predicate
    // is something Kolibrie reads from the stored quads
    let mut d3 = Dataset::default();
    d3.default.insert(t(ugen::K, P, A));
    d3.default.insert(t(A, P, ugen::K));
    d3.default.insert(t(A, ugen::K, B));
    vec![Dataset::default(), d1, d2, d3]
}

/// canonical key of a dataset up to blank-node renaming (blank nodes renumbered by the
/// lexicographically smallest renaming; at most 4 blank nodes, otherwise labels are kept)
fn canon(ds: &Dataset) -> u64 {
    let quads: Vec<_> = ds.quads().into_iter().collect();
    let mut names: BTreeSet<String> = BTreeSet::new();
    for (s, _, o, _) in &quads {
        for t in [s, o] {
            if t.starts_with("_:") {
                names.insert(t.clone());
            }
        }
    }
    let names: Vec<String> = names.into_iter().collect();
    let catalog: Vec<&String> = ds.named.keys().collect();
    if names.is_empty() || names.len() > 4 {
        return hash64(&(&quads, &catalog));
    }
    let mut best: Option<Vec<(String, String, String, String)>> = None;
    let mut perm: Vec<usize> = (0..names.len()).collect();
    loop {
        let ren = |t: &String| -> String {
            match names.iter().position(|x| x == t) {
                Some(k) => format!("_:c{}", perm[k]),
                None => t.clone(),
            }
        };
        let mut q: Vec<_> = quads.iter().map(|(s, p, o, g)| (ren(s), p.clone(), ren(o), g.clone())).collect();
        q.sort();
        if best.as_ref().map_or(true, |b| &q < b) {
            best = Some(q);
        }
        // next permutation
        let n = perm.len();
        let mut i = n.wrapping_sub(1);
        while i > 0 && perm[i - 1] >= perm[i] {
            i -= 1;
        }
        if i == 0 {
            break;
        }
        let mut j = n - 1;
        while perm[j] <= perm[i - 1] {
            j -= 1;
        }
        perm.swap(i - 1, j);
        perm[i..].reverse();
    }
    hash64(&(&best, &catalog))
}

#[derive(Debug)]
pub struct StepFail {
    pub symptom: &'static str,
    pub detail: String,
    /// symptom dataset_differs: what the real database held after the last step
    pub real_after: Option<Dataset>,
}

impl StepFail {
    fn new(symptom: &'static str, detail: String) -> StepFail {
        StepFail { symptom, detail, real_after: None }
    }
}

/// Entry point through which the LAST request of a path is executed (the prefix always goes
/// through `SparqlDatabase::execute_update`).
#[derive(Clone, Copy, PartialEq, Eq, Debug)]
pub enum Entry {
    ExecuteUpdate,
    HandleUpdate,
    HttpSparqlUpdate,
    HttpFormUpdate,
    LegacyVolcano,
}

pub const ALT_ENTRIES: [Entry; 4] = [Entry::HandleUpdate, Entry::HttpSparqlUpdate, Entry::HttpFormUpdate, Entry::LegacyVolcano];

impl Entry {
    pub fn name(&self) -> &'static str {
        match self {
            Entry::ExecuteUpdate => "SparqlDatabase::execute_update",
            Entry::HandleUpdate => "SparqlDatabase::handle_update",
            Entry::HttpSparqlUpdate => "http_post_sparql_update",
            Entry::HttpFormUpdate => "http_form_update",
            Entry::LegacyVolcano => "legacy_volcano",
        }
    }
    fn from_name(n: &str) -> Option<Entry> {
        [Entry::ExecuteUpdate, Entry::HandleUpdate, Entry::HttpSparqlUpdate, Entry::HttpFormUpdate, Entry::LegacyVolcano].into_iter().find(|e| e.name() == n)
    }
}

/// What the entry point said about the last request.
#[derive(Debug)]
enum Obs {
    /// executed; counts where the entry point reports them
    Accepted(Option<(usize, usize)>),
    Refused(String),
    /// the legacy adapter returns rows only: no statement about acceptance
    NoVerdict,
}

fn percent_encode(text: &str) -> String {
    let mut o = String::new();
    for b in text.bytes() {
        if b.is_ascii_alphanumeric() || matches!(b, b'-' | b'_' | b'.' | b'~') {
            o.push(b as char);
        } else {
            o.push_str(&format!("%{:02X}", b));
        }
    }
    o
}

/// "Update Successful (inserted 1, deleted 0)" | "Update Successful" | "Update Failed" | other
fn read_handle_update(s: &str) -> Obs {
    if let Some(rest) = s.strip_prefix("Update Successful") {
        let nums: Vec<usize> = rest.split(|c: char| !c.is_ascii_digit()).filter(|x| !x.is_empty()).filter_map(|x| x.parse().ok()).collect();
        if rest.contains("inserted") && rest.contains("deleted") && nums.len() == 2 {
            return Obs::Accepted(Some((nums[0], nums[1])));
        }
        return Obs::Accepted(None);
    }
    Obs::Refused(s.to_string())
}

fn exec_last(db: &mut SparqlDatabase, text: &str, entry: Entry) -> Result<Obs, String> {
    guarded(|| match entry {
        Entry::ExecuteUpdate => match db.execute_update(text) {
            Ok(sum) => Obs::Accepted(Some((sum.inserted_quads, sum.deleted_quads))),
            Err(e) => Obs::Refused(e),
        },
        Entry::HandleUpdate => read_handle_update(&db.handle_update(text)),
        // HTTP framing is fixed and well-formed, only the request text varies
        Entry::HttpSparqlUpdate => read_handle_update(&db.handle_http_request(&format!("POST /sparql HTTP/1.1\r\nHost: x\r\nContent-Type: application/sparql-update\r\n\r\n{}", text))),
        Entry::HttpFormUpdate => {
            read_handle_update(&db.handle_http_request(&format!("POST /sparql HTTP/1.1\r\nHost: x\r\nContent-Type: application/x-www-form-urlencoded\r\n\r\nupdate={}", percent_encode(text))))
        }
        Entry::LegacyVolcano => {
            let _ = execute_query_rayon_parallel2_volcano(text, db);
            Obs::NoVerdict
        }
    })
}

pub struct PathOut {
    pub real: Dataset,
    pub model: Dataset,
    /// last step executed with the reference's effect
    pub accepted: bool,
    /// reference dataset before the last step and the reference's effect of the last step
    pub pre_model: Dataset,
    pub effect: Option<Effect>,
}

/// Execute `path` (indexes into the alphabet) from initial dataset `init` on a fresh real
/// database and on the model; verify the LAST step, which is executed through `entry`.
pub fn run_path_entry(alpha: &[Req], init: &Dataset, path: &[usize], entry: Entry) -> Result<PathOut, StepFail> {
    let mut db: SparqlDatabase = build_db(init);
    let mut model = init.clone();
    let mut pre_model = init.clone();
    let mut accepted_last = false;
    let mut effect = None;
    for (k, &oi) in path.iter().enumerate() {
        let last = k + 1 == path.len();
        let req = &alpha[oi];
        let text = req.text();
        let before = if last { Some(extract(&db)) } else { None };
        let this_entry = if last { entry } else { Entry::ExecuteUpdate };
        let res = match exec_last(&mut db, &text, this_entry) {
            Ok(r) => r,
            Err(p) => return Err(StepFail::new("panic", format!("{} panicked on {:?}: {}", this_entry.name(), text, p))),
        };
        let model_res: Result<(Dataset, Effect), String> = match req.model() {
            Some(u) => update::apply(&model, u, k + 1),
            None => Err(format!("malformed request ({})", req.label())),
        };
        if last {
            pre_model = model.clone();
            let after = extract(&db);
            match (&res, &model_res) {
                (Obs::Accepted(_) | Obs::NoVerdict, Ok((m2, eff))) => {
                    if !equal_quads_up_to_bnodes(&after, m2) {
                        return Err(StepFail { symptom: "dataset_differs", detail: format!("after {:?}\n  real : {:?}\n  model: {:?}", text, after.quads(), m2.quads()), real_after: Some(after) });
                    }
                    if let Obs::Accepted(Some((ins, del))) = &res {
                        if *ins != eff.inserted || *del != eff.deleted {
                            return Err(StepFail::new("summary_counts_differ", format!("after {:?}: reported inserted={} deleted={}, actual change inserted={} deleted={}", text, ins, del, eff.inserted, eff.deleted)));
                        }
                    }
                    // catalog bounds
                    for (g, ts) in &m2.named {
                        if !ts.is_empty() && !after.named.contains_key(g) {
                            return Err(StepFail::new("catalog_misses_nonempty_graph", format!("after {:?}: graph {} holds quads but is not listed", text, g)));
                        }
                    }
                    for g in after.named.keys() {
                        if !m2.named.contains_key(g) && g != G1 && g != G2 {
                            return Err(StepFail::new("catalog_lists_unknown_graph", format!("after {:?}: graph {} listed but never named", text, g)));
                        }
                    }
                    accepted_last = true;
                    effect = Some(eff.clone());
                }
                (Obs::Refused(_), Err(_)) => {
                    let b = before.as_ref().unwrap();
                    if &after != b {
                        return Err(StepFail::new("rejected_update_changed_dataset", format!("{:?} was refused but the dataset changed\n  before: {:?}\n  after : {:?}", text, b, after)));
                    }
                }
                (Obs::Accepted(sum), Err(why)) => {
                    if entry != Entry::ExecuteUpdate {
                        // the adapters accept the legacy INSERT { } / DELETE { } aliases by design: what a
                        // request the reference rejects does there is not judged
                    } else {
                        // Requests that the SPARQL grammar itself allows and that have no effect (the empty
                        // request = zero operations; a template whose written subject is a literal = illegal
                        // triple skipped; a SELECT, which C17 only requires to leave the data alone) may be
                        // refused (as Kolibrie does) or accepted as a no-op: the statement fixes neither.
                        let tolerated = matches!(req, Req::Rejected(l, _) if matches!(*l, "empty" | "literal_subject_in_template" | "select_at_update_endpoint"));
                        let noop = matches!(sum, Some((0, 0)) | None) && Some(&after) == before.as_ref();
                        if !(tolerated && noop) {
                            return Err(StepFail::new("invalid_update_accepted", format!("{:?} must be rejected ({}), but was executed: {:?}", text, why, sum)));
                        }
                    }
                }
                (Obs::NoVerdict, Err(_)) => {}
                (Obs::Refused(e), Ok(_)) => {
                    return Err(StepFail::new("valid_update_rejected", format!("{:?} is a valid update but was refused: {}", text, e)));
                }
            }
        } else if let (Obs::Refused(e), Ok(_)) = (&res, &model_res) {
            // cannot happen on a validated prefix; keep the model honest if it does
            return Err(StepFail::new("valid_update_rejected", format!("prefix step {:?} refused: {}", text, e)));
        }
        if let Ok((m2, _)) = model_res {
            model = m2;
        }
    }
    Ok(PathOut { real: extract(&db), model, accepted: accepted_last, pre_model, effect })
}

pub fn run_path(alpha: &[Req], init: &Dataset, path: &[usize]) -> Result<(Dataset, Dataset, bool), StepFail> {
    run_path_entry(alpha, init, path, Entry::ExecuteUpdate).map(|o| (o.real, o.model, o.accepted))
}

fn equal_quads_up_to_bnodes(real: &Dataset, model: &Dataset) -> bool {
    // compare quads only (catalog handled separately): project both onto quads with the
    // catalog of non-empty graphs
    let strip = |d: &Dataset| -> Dataset {
        let mut x = Dataset::default();
        x.default = d.default.clone();
        for (g, ts) in &d.named {
            if !ts.is_empty() {
                x.named.insert(g.clone(), ts.clone());
            }
        }
        x
    };
    equal_up_to_bnodes(&strip(real), &strip(model))
}

fn case_json(init: usize, alpha: &[Req], path: &[usize], entry: Entry) -> Value {
    let mut v = json!({"initial": init, "path": path, "requests": path.iter().map(|i| alpha[*i].text()).collect::<Vec<_>>()});
    if entry != Entry::ExecuteUpdate {
        v["entry"] = json!(entry.name());
    }
    v
}

/// The reference's dataset before the LAST step of `path`.
fn model_prestate(alpha: &[Req], init: &Dataset, path: &[usize]) -> Dataset {
    let mut model = init.clone();
    for (k, &oi) in path[..path.len() - 1].iter().enumerate() {
        if let Some(Ok((m2, _))) = alpha[oi].model().map(|u| update::apply(&model, u, k + 1)) {
            model = m2;
        }
    }
    model
}

fn template_has_var_spg(u: &Update) -> bool {
    let quads: Vec<&crate::reference::sparql_ast::QuadT> = match u {
        Update::InsertData(_) | Update::DeleteData(_) => Vec::new(),
        Update::DeleteWhere(q) => q.iter().collect(),
        Update::Modify { delete, insert, .. } => delete.iter().flatten().chain(insert.iter().flatten()).collect(),
    };
    quads.iter().any(|q| q.t.s.is_var() || q.t.p.is_var() || q.g.as_ref().map_or(false, |g| g.is_var()))
}

fn mentions_relative_iri(ds: &Dataset) -> bool {
    let rel = |t: &(String, String, String)| update::is_relative_iri(&t.0) || update::is_relative_iri(&t.1) || update::is_relative_iri(&t.2);
    ds.named.keys().any(|g| update::is_relative_iri(g)) || ds.default.iter().any(rel) || ds.named.values().any(|g| g.iter().any(rel))
}

/// Per request, computed once: (a template has a variable in subject / predicate / graph
/// position, the request text mentions a relative IRI).
fn relative_screen(alpha: &[Req]) -> Vec<(bool, bool)> {
    alpha
        .iter()
        .map(|r| {
            let text = r.text();
            (r.model().map_or(false, template_has_var_spg), update::RELATIVE_IRIS.iter().any(|k| text.contains(&format!("<{}>", k))))
        })
        .collect()
}

/// Structural facts about one transition (pre-state + request, reference side only): the relative
/// IRIs its templates put, through a VARIABLE, into subject / predicate / graph position.
/// None = no such binding.
fn relative_facts(pre: &Dataset, req: &Req, screen: (bool, bool)) -> Option<update::RelReport> {
    let u = req.model()?;
    if !screen.0 || !(screen.1 || mentions_relative_iri(pre)) {
        return None;
    }
    update::relative_iri_bindings(pre, u).filter(|r| !r.bindings.is_empty())
}

/// Vacuity counters of the relative-IRI symbols, counted over EVERY executed transition of the main
/// search (passing or failing): does an INSERT template put a relative IRI into subject /
/// predicate / graph position through a variable; is the IRI there in the pre-state; does the same
/// operation delete its last occurrence there.
fn note_relative(out: &mut ShardOut, pre: &Dataset, req: &Req, screen: (bool, bool)) {
    let Some(rep) = relative_facts(pre, req, screen) else { return };
    if rep.bindings.iter().any(|b| b.insert) {
        out.count("rel_transitions_insert_template_binds_relative_iri", 1);
    }
    if rep.bindings.iter().any(|b| !b.insert) {
        out.count("rel_transitions_delete_template_binds_relative_iri", 1);
    }
    for b in rep.bindings.iter().filter(|b| b.insert) {
        let pos = b.pos.name();
        out.count(&format!("rel_insert_binds_in_{}", pos), 1);
        if b.present {
            out.count(&format!("rel_insert_binds_in_{}_present_there_in_prestate", pos), 1);
        } else if b.names_graph {
            out.count(&format!("rel_insert_binds_in_{}_absent_there_but_names_a_prestate_graph", pos), 1);
        } else {
            out.count(&format!("rel_insert_binds_in_{}_absent_there_in_prestate", pos), 1);
        }
        if b.pos == update::Pos::Graph && b.present && pre.named.get(&b.iri).map_or(false, |g| g.is_empty()) {
            out.count("rel_insert_binds_in_graph_naming_an_empty_prestate_graph", 1);
        }
        if b.last_occurrence_deleted {
            out.count(&format!("rel_insert_binds_in_{}_last_occurrence_deleted_by_same_operation", pos), 1);
        }
    }
    if !rep.inserts_only_via_unseen.is_empty() {
        out.count("rel_transitions_inserting_only_via_unseen_relative_iri", 1);
    }
}

/// Tags of a failing transition that binds a relative IRI (computed from pre-state + request; the
/// last one relates these facts to the observed dataset).
fn relative_tags(pre: &Dataset, req: &Req, step: usize, real_after: Option<&Dataset>) -> Vec<String> {
    let mut tags = Vec::new();
    let screen = relative_screen(std::slice::from_ref(req))[0];
    let Some(rep) = relative_facts(pre, req, screen) else { return tags };
    let ins: Vec<&update::RelBinding> = rep.bindings.iter().filter(|b| b.insert).collect();
    if ins.is_empty() {
        tags.push("only_delete_template_binds_relative_iri".into());
        return tags;
    }
    tags.push("template_binds_relative_iri".into());
    for b in &ins {
        tags.push(format!("binds_relative_iri_in={}", b.pos.name()));
    }
    if ins.iter().any(|b| !b.present) {
        tags.push("relative_iri_absent_from_that_position_in_prestate".into());
    } else {
        tags.push("every_bound_relative_iri_present_in_that_position_in_prestate".into());
    }
    if ins.iter().any(|b| !b.present && !b.names_graph) {
        tags.push("absent_relative_iri_names_no_prestate_graph".into());
    }
    if ins.iter().any(|b| b.last_occurrence_deleted) {
        tags.push("operation_deletes_last_occurrence_of_bound_relative_iri".into());
    }
    // the observed dataset is the reference's minus exactly the quads that only such a binding produces
    if let (Some(real), false, Some(u)) = (real_after, rep.inserts_only_via_unseen.is_empty(), req.model()) {
        if let Ok((m2, _)) = update::apply(pre, u, step) {
            let mut expected = m2.clone();
            for q in &rep.inserts_only_via_unseen {
                if q.3.is_empty() {
                    expected.default.remove(&(q.0.clone(), q.1.clone(), q.2.clone()));
                } else if let Some(g) = expected.named.get_mut(&q.3) {
                    g.remove(&(q.0.clone(), q.1.clone(), q.2.clone()));
                }
            }
            if equal_quads_up_to_bnodes(real, &expected) {
                tags.push("real_lacks_exactly_the_inserts_binding_an_unseen_relative_iri".into());
            }
        }
    }
    tags
}

fn path_tags(alpha: &[Req], inits: &[Dataset], init: usize, path: &[usize], entry: Entry, f: &StepFail) -> Vec<String> {
    let li = *path.last().unwrap();
    let mut tags = vec![format!("op={}", alpha[li].label()), format!("initial={}", init)];
    if li >= ugen::CORE_LEN {
        tags.push(format!("extension_symbol={}", li - ugen::CORE_LEN));
    }
    if entry != Entry::ExecuteUpdate {
        tags.push(format!("entry={}", entry.name()));
    }
    let pre = model_prestate(alpha, &inits[init], path);
    tags.extend(relative_tags(&pre, &alpha[li], path.len(), f.real_after.as_ref()));
    tags
}

fn record_fail(out: &mut ShardOut, alpha: &[Req], inits: &[Dataset], init: usize, path: &[usize], entry: Entry, f: StepFail) {
    // determinism before verdict
    match run_path_entry(alpha, &inits[init], path, entry) {
        Err(f2) if f2.symptom == f.symptom => {
            let tags = path_tags(alpha, inits, init, path, entry, &f);
            out.fail(case_json(init, alpha, path, entry), f.symptom, f.detail, tags);
        }
        other => out.machinery_errors.push(format!("non-deterministic verdict on path {:?} via {}: first {:?}, then {:?}", path, entry.name(), f.symptom, other.err().map(|e| e.symptom))),
    }
}

fn is_ext(oi: usize) -> bool {
    oi >= ugen::CORE_LEN
}

/// vacuity counters for the extension symbols: did the transition really cross the branch the
/// symbol was added for? (computed on the reference side from the pre-state of the last step)
fn note_extension(out: &mut ShardOut, alpha: &[Req], path: &[usize], o: &PathOut) {
    let li = *path.last().unwrap();
    if !is_ext(li) {
        return;
    }
    let k = li - ugen::CORE_LEN;
    out.count("ext_transitions", 1);
    let eff = o.effect.clone().unwrap_or_default();
    if eff.inserted + eff.deleted > 0 {
        out.count(&format!("ext{:02}_{}_with_effect", k, alpha[li].label().replace(':', "_")), 1);
    }
    let objs: Vec<&String> = o.pre_model.default.iter().filter(|t| t.1 == P).map(|t| &t.2).collect();
    match k {
        0 | 1 => {
            let what = if k == 0 { "varpred" } else { "graphvar" };
            if objs.iter().any(|v| v.starts_with("_:")) {
                out.count(&format!("ext_{}_bound_to_blank_node_skipped", what), 1);
            }
            if objs.iter().any(|v| !v.starts_with("_:") && !update::is_iri(v)) {
                out.count(&format!("ext_{}_bound_to_literal_skipped", what), 1);
            }
            if objs.iter().any(|v| update::is_iri(v)) {
                out.count(&format!("ext_{}_bound_to_iri", what), 1);
            }
            if k == 1 && o.model.named.len() > o.pre_model.named.len() {
                out.count("ext_graphvar_created_new_graph", 1);
            }
        }
        2 => {
            if !objs.is_empty() {
                out.count("ext_unbound_templates_with_solutions", 1);
            }
        }
        4 | 5 | 6 => {
            if eff.deleted >= 2 {
                out.count("ext_delete_where_shorthand_deleted_2plus", 1);
            }
        }
        _ => {}
    }
}

fn run(ctx: &Ctx) -> ShardOut {
    let mut out = ShardOut::default();
    let alpha = ugen::alphabet();
    let inits = initial_datasets();
    let max_depth = if ctx.thorough() { 6 } else { 4 };
    let ext_depth = if ctx.thorough() { 4 } else { 3 };
    let alt_depth = if ctx.thorough() { 3 } else { 2 };
    if let Err(e) = ugen::lexical_spaces_disjoint() {
        out.machinery_errors.push(format!("term universe: {}", e));
        return out;
    }
    let screen = relative_screen(&alpha);
    out.count("max_alphabet_size", alpha.len() as u64);
    out.count("max_core_alphabet_size", ugen::CORE_LEN as u64);
    // an extension symbol as the LAST step of an otherwise core-only path may come later
    let ext_last_depth = if ctx.thorough() { 5 } else { 4 };
    let allowed = |path: &[usize], oi: usize| -> bool {
        let len = path.len() + 1;
        if path.iter().any(|x| is_ext(*x)) {
            len <= ext_depth
        } else if is_ext(oi) {
            len <= ext_last_depth
        } else {
            len <= max_depth
        }
    };
    let mut subtree = 0u64;
    'all: for init in 0..inits.len() {
        for first in 0..alpha.len() {
            subtree += 1;
            if !ctx.mine(subtree) {
                continue;
            }
            // BFS below (init, first); value = reached by a core-only path
            let mut seen: HashMap<u64, bool> = HashMap::new();
            let mut frontier: VecDeque<Vec<usize>> = VecDeque::new();
            let path0 = vec![first];
            out.transitions += 1;
            out.evaluations += 1;
            out.traces += 1;
            match run_path_entry(&alpha, &inits[init], &path0, Entry::ExecuteUpdate) {
                Ok(o) => {
                    note_extension(&mut out, &alpha, &path0, &o);
                    note_relative(&mut out, &o.pre_model, &alpha[first], screen[first]);
                    seen.insert(hash64(&(canon(&o.real), canon(&o.model))), !is_ext(first));
                    note_state(&mut out, &o.real, &alpha, init, &path0);
                    alt_entries(&mut out, &alpha, &inits, init, &path0);
                    frontier.push_back(path0);
                }
                Err(f) => {
                    note_relative(&mut out, &inits[init], &alpha[first], screen[first]);
                    record_fail(&mut out, &alpha, &inits, init, &path0, Entry::ExecuteUpdate, f);
                    continue;
                }
            }
            while let Some(path) = frontier.pop_front() {
                for oi in 0..alpha.len() {
                    if !allowed(&path, oi) {
                        continue;
                    }
                    if ctx.expired() {
                        out.capped.push(format!("wall-clock cap hit in subtree (initial {}, first op {}) at depth {}", init, first, path.len()));
                        break 'all;
                    }
                    let mut p2 = path.clone();
                    p2.push(oi);
                    out.transitions += 1;
                    out.evaluations += 1;
                    out.traces += 1;
                    match run_path_entry(&alpha, &inits[init], &p2, Entry::ExecuteUpdate) {
                        Ok(o) => {
                            out.count(if o.accepted { "accepted_steps" } else { "refused_steps" }, 1);
                            note_extension(&mut out, &alpha, &p2, &o);
                            note_relative(&mut out, &o.pre_model, &alpha[oi], screen[oi]);
                            let core_only = !p2.iter().any(|x| is_ext(*x));
                            let key = hash64(&(canon(&o.real), canon(&o.model)));
                            let fresh = match seen.get(&key) {
                                None => true,
                                // first seen below a depth-limited extension path: expand it again
                                Some(false) if core_only => {
                                    out.count("states_re_expanded_core_only", 1);
                                    true
                                }
                                Some(_) => false,
                            };
                            if fresh {
                                if seen.insert(key, core_only).is_none() {
                                    note_state(&mut out, &o.real, &alpha, init, &p2);
                                }
                                out.max_depth = out.max_depth.max(p2.len() as u64);
                                if p2.len() <= alt_depth {
                                    alt_entries(&mut out, &alpha, &inits, init, &p2);
                                }
                                frontier.push_back(p2);
                            } else {
                                out.count("dedup_hits", 1);
                                if p2.len() <= alt_depth {
                                    alt_entries(&mut out, &alpha, &inits, init, &p2);
                                }
                            }
                        }
                        Err(f) => {
                            note_relative(&mut out, &model_prestate(&alpha, &inits[init], &p2), &alpha[oi], screen[oi]);
                            record_fail(&mut out, &alpha, &inits, init, &p2, Entry::ExecuteUpdate, f)
                        }
                    }
                }
            }
        }
    }
    // family bnode_collision
    let mut idx = subtree;
    let mut aimed = true;
    'c: for case in collision_cases(&alpha, inits.len()) {
        idx += 1;
        if !ctx.mine(idx) {
            continue;
        }
        if ctx.expired() {
            out.capped.push("wall-clock cap hit in the bnode_collision family".into());
            break 'c;
        }
        out.evaluations += 1;
        out.count("bnode_collision_cases", 1);
        match run_collision(&alpha, &inits, &case) {
            Ok(None) => {
                aimed = false;
                break 'c;
            }
            Ok(Some(c)) => {
                if c.crossed {
                    out.count("bnode_collision_cases_crossing_the_retry_loop", 1);
                    out.nontrivial(&("bnode_collision", case.init, case.op, case.mask, case.reps));
                }
                out.max("max_bnode_collision_retries_in_one_case", c.retries);
            }
            Err(f) => record_collision_fail(&mut out, &alpha, &inits, &case, f),
        }
    }
    if !aimed {
        out.capped.push("bnode_collision family not run: the probe request did not reveal an allocation counter (label format changed?)".into());
    }
    out
}

/// Re-execute the last request of a validated path through the other entry points.
fn alt_entries(out: &mut ShardOut, alpha: &[Req], inits: &[Dataset], init: usize, path: &[usize]) {
    for entry in ALT_ENTRIES {
        out.evaluations += 1;
        out.count("alt_entry_executions", 1);
        match run_path_entry(alpha, &inits[init], path, entry) {
            Ok(o) => {
                if o.accepted {
                    out.count("alt_entry_accepted_steps_compared", 1);
                }
            }
            Err(f) => record_fail(out, alpha, inits, init, path, entry, f),
        }
    }
}

// ---------------------------------------------------------------------------------------
// family bnode_collision
// ---------------------------------------------------------------------------------------

const COLLISION_OFFSETS: u32 = 5;
const UPDATE_BNODE_PREFIX: &str = "_:kolibrie-update-";

#[derive(Clone, Debug)]
struct CollisionCase {
    init: usize,
    op: usize,
    mask: u32,
    reps: usize,
}

/// blank-node labels a request allocates (INSERT DATA / INSERT template), empty if none
fn insert_bnode_labels(u: &Update) -> Vec<String> {
    let quads = match u {
        Update::InsertData(q) => q.clone(),
        Update::Modify { insert: Some(i), .. } => i.clone(),
        _ => Vec::new(),
    };
    let mut labels = BTreeSet::new();
    for q in &quads {
        for t in [&q.t.s, &q.t.p, &q.t.o] {
            if let T::Bnode(l) = t {
                labels.insert(l.clone());
            }
        }
    }
    labels.into_iter().collect()
}

fn collision_cases(alpha: &[Req], ninits: usize) -> Vec<CollisionCase> {
    let mut v = Vec::new();
    for init in 0..ninits {
        for (op, req) in alpha.iter().enumerate() {
            let Some(u) = req.model() else { continue };
            // only requests the reference executes
            if insert_bnode_labels(u).is_empty() || update::apply(&Dataset::default(), u, 1).is_err() {
                continue;
            }
            for mask in 1..(1u32 << COLLISION_OFFSETS) {
                for reps in [1usize, 2] {
                    v.push(CollisionCase { init, op, mask, reps });
                }
            }
        }
    }
    v
}

fn update_bnode_number(term: &str) -> Option<u64> {
    let rest = term.strip_prefix(UPDATE_BNODE_PREFIX)?;
    let digits: String = rest.chars().take_while(|c| c.is_ascii_digit()).collect();
    digits.parse().ok()
}

/// Value of the process-global allocation counter = number carried by the node a probe request
/// just allocated on a scratch database.
fn probe_counter() -> Option<u64> {
    let mut db = SparqlDatabase::new();
    let text = format!("INSERT {{ _:probe <{}> <{}> }} WHERE {{ }}", P, A);
    guarded(|| db.execute_update(&text)).ok()?.ok()?;
    let ds = extract(&db);
    let n = ds.quads().into_iter().find_map(|q| if q.0.ends_with("-probe") { update_bnode_number(&q.0) } else { None });
    n
}

struct CollisionOut {
    crossed: bool,
    retries: u64,
}

/// Ok(None) = the probe failed (family cannot be aimed).
fn run_collision(alpha: &[Req], inits: &[Dataset], case: &CollisionCase) -> Result<Option<CollisionOut>, StepFail> {
    let Some(n) = probe_counter() else { return Ok(None) };
    let labels = alpha[case.op].model().map(insert_bnode_labels).unwrap_or_default();
    let mut init = inits[case.init].clone();
    let mut preloaded: BTreeSet<u64> = BTreeSet::new();
    for j in 1..=COLLISION_OFFSETS as u64 {
        if case.mask & (1 << (j - 1)) == 0 {
            continue;
        }
        preloaded.insert(n + j);
        for l in &labels {
            let node = format!("{}{}-{}", UPDATE_BNODE_PREFIX, n + j, l);
            // odd offsets: a subject the WHERE patterns over p can match; even offsets: an inert object
            if j % 2 == 1 {
                init.default.insert((node, P.to_string(), C.to_string()));
            } else {
                init.default.insert((A.to_string(), Q.to_string(), node));
            }
        }
    }
    let path: Vec<usize> = vec![case.op; case.reps];
    let o = run_path_entry(alpha, &init, &path, Entry::ExecuteUpdate)?;
    // vacuity: did an allocation have to step over a pre-loaded label?
    let old: BTreeSet<String> = init.quads().into_iter().flat_map(|q| [q.0, q.2]).collect();
    let new_numbers: Vec<u64> = o.real.quads().into_iter().flat_map(|q| [q.0, q.2]).filter(|t| !old.contains(t)).filter_map(|t| update_bnode_number(&t)).collect();
    let top = new_numbers.iter().copied().max().unwrap_or(0);
    let retries = preloaded.iter().filter(|p| **p < top).count() as u64;
    Ok(Some(CollisionOut { crossed: retries > 0, retries }))
}

fn collision_json(alpha: &[Req], c: &CollisionCase) -> Value {
    json!({"family": "bnode_collision", "initial": c.init, "op": c.op, "mask": c.mask, "reps": c.reps, "request": alpha[c.op].text()})
}

fn record_collision_fail(out: &mut ShardOut, alpha: &[Req], inits: &[Dataset], case: &CollisionCase, f: StepFail) {
    match run_collision(alpha, inits, case) {
        Err(f2) if f2.symptom == f.symptom => {
            let tags = vec!["family=bnode_collision".to_string(), format!("op={}", alpha[case.op].label()), format!("initial={}", case.init), format!("reps={}", case.reps)];
            out.fail(collision_json(alpha, case), f.symptom, f.detail, tags);
        }
        other => out.machinery_errors.push(format!("non-deterministic verdict on bnode_collision case {:?}: first {:?}, then {:?}", case, f.symptom, other.err().map(|e| e.symptom))),
    }
}

fn note_state(out: &mut ShardOut, real: &Dataset, alpha: &[Req], init: usize, path: &[usize]) {
    out.states += 1;
    let key = canon(real);
    out.outcomes.insert(key);
    if real.quad_count() >= 2 {
        out.nontrivial.insert(key);
    }
    if real.quads().iter().any(|q| q.0.starts_with("_:") || q.2.starts_with("_:")) {
        out.count("states_with_blank_nodes", 1);
    }
    if real.quads().iter().any(|q| q.1 != P && q.1 != Q && !update::is_relative_iri(&q.1)) {
        out.count("states_with_template_made_predicate", 1);
    }
    if real.named.keys().any(|g| g != G1 && g != G2 && !update::is_relative_iri(g)) {
        out.count("states_with_template_made_graph", 1);
    }
    if mentions_relative_iri(real) {
        out.count("states_with_relative_iri", 1);
    }
    if out.states % 400 == 3 {
        out.sample(case_json(init, alpha, path, Entry::ExecuteUpdate));
    }
}

fn replay(_ctx: &Ctx, case: &Value) -> ShardOut {
    let mut out = ShardOut::default();
    let alpha = ugen::alphabet();
    let inits = initial_datasets();
    let init = case["initial"].as_u64().unwrap_or(0) as usize;
    if case["family"].as_str() == Some("bnode_collision") {
        let c = CollisionCase { init, op: case["op"].as_u64().unwrap_or(0) as usize, mask: case["mask"].as_u64().unwrap_or(1) as u32, reps: case["reps"].as_u64().unwrap_or(1) as usize };
        if c.init >= inits.len() || c.op >= alpha.len() || c.reps == 0 || c.reps > 4 {
            out.machinery_errors.push("replay: bad case".into());
            return out;
        }
        out.evaluations = 1;
        match run_collision(&alpha, &inits, &c) {
            Ok(None) => out.machinery_errors.push("replay: the probe request did not reveal an allocation counter".into()),
            Ok(Some(_)) => {}
            Err(f) => record_collision_fail(&mut out, &alpha, &inits, &c, f),
        }
        return out;
    }
    let path: Vec<usize> = case["path"].as_array().map(|a| a.iter().filter_map(|x| x.as_u64().map(|y| y as usize)).collect()).unwrap_or_default();
    let entry = case["entry"].as_str().and_then(Entry::from_name).unwrap_or(Entry::ExecuteUpdate);
    if init >= inits.len() || path.is_empty() || path.iter().any(|i| *i >= alpha.len()) {
        out.machinery_errors.push("replay: bad case".into());
        return out;
    }
    out.evaluations = 1;
    if let Err(f) = run_path_entry(&alpha, &inits[init], &path, entry) {
        record_fail(&mut out, &alpha, &inits, init, &path, entry, f);
    }
    out
}
