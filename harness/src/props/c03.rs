//! C03 — SPARQL Update applies exactly the standard effect, atomically.
//! E-seq: explicit-state search over sequences of update requests on the real database,
//! whole-dataset comparison with R-update after every step.
use super::common::*;
use super::ugen::{self, Req};
use crate::infra::{guarded, hash64, Ctx, PropDef, ShardOut};
use crate::reference::sparql_eval::Dataset;
use crate::reference::update::{self, Effect};
use kolibrie::sparql_database::SparqlDatabase;
use serde_json::{json, Value};
use std::collections::{BTreeSet, HashSet, VecDeque};

pub const DEF: PropDef = PropDef {
    id: "C03",
    level: "model_checking",
    rule: "states = abstract datasets (quads up to blank-node renaming + graph catalog) reached from 3 initial datasets by sequences of requests from a 36-request alphabet (the six update forms over default and named graphs, self-referential and swapping templates, graph-variable templates, WHERE with FILTER/UNION/VALUES, blank-node templates (also over WHERE multisets with identical solutions), unbound and literal-subject template variables, and 11 malformed/rejected requests) executed through SparqlDatabase::execute_update; every transition replays the op prefix on a fresh database and compares, after the last step, all quads of all graphs (up to blank-node renaming), the catalog bounds, the UpdateSummary counts and acceptance/rejection with the R-update reference; a rejected request must leave quads and catalog untouched. BFS per (initial dataset, first op) subtree with de-duplication on the abstract state; distinct non-trivial = distinct reached states holding >=2 quads.",
    assumptions: &[
        "alphabet of 36 requests over U (harness/src/props/ugen.rs); depth 4 quick, 6 thorough",
        "de-duplication on the abstract dataset (quads + catalog): sound for this check because it compares the complete physical content through all_quads after every step; index-level divergence is C04's subject",
        "catalog: SPARQL Update leaves the fate of emptied graphs open, so Kolibrie's catalog is only required to contain every graph holding a quad and nothing never named",
        "reference R-update (harness/src/reference/update.rs), self-tested",
    ],
    run,
    replay,
    cap_s: (50, 1500),
    shards: 0,
};

pub fn initial_datasets() -> Vec<Dataset> {
    let t = |s: &str, p: &str, o: &str| (s.to_string(), p.to_string(), o.to_string());
    let mut d1 = Dataset::default();
    d1.default.insert(t(A, P, B));
    d1.default.insert(t(B, P, C));
    d1.default.insert(t(A, P, "1"));
    d1.named.entry(G1.into()).or_default().insert(t(A, P, B));
    d1.named.entry(G2.into()).or_default().insert(t(C, P, A));
    let mut d2 = Dataset::default();
    d2.default.insert(t(A, P, B));
    d2.named.entry(G1.into()).or_default().insert(t(A, P, B));
    vec![Dataset::default(), d1, d2]
}

/// canonical key of a dataset up to blank-node renaming (blank nodes renumbered by the
/// lexicographically smallest renaming; at most 4 blank nodes, otherwise labels are kept)
fn canon(ds: &Dataset) -> u64 {
    let quads: Vec<_> = ds.quads().into_iter().collect();
    let mut names: BTreeSet<String> = BTreeSet::new();
    for (s, _, o, _) in &quads {
        for t in [s, o] {
            if t.starts_with("_:") {
                names.insert(t.clone());
            }
        }
    }
    let names: Vec<String> = names.into_iter().collect();
    let catalog: Vec<&String> = ds.named.keys().collect();
    if names.is_empty() || names.len() > 4 {
        return hash64(&(&quads, &catalog));
    }
    let mut best: Option<Vec<(String, String, String, String)>> = None;
    let mut perm: Vec<usize> = (0..names.len()).collect();
    loop {
        let ren = |t: &String| -> String {
            match names.iter().position(|x| x == t) {
                Some(k) => format!("_:c{}", perm[k]),
                None => t.clone(),
            }
        };
        let mut q: Vec<_> = quads.iter().map(|(s, p, o, g)| (ren(s), p.clone(), ren(o), g.clone())).collect();
        q.sort();
        if best.as_ref().map_or(true, |b| &q < b) {
            best = Some(q);
        }
        // next permutation
        let n = perm.len();
        let mut i = n.wrapping_sub(1);
        while i > 0 && perm[i - 1] >= perm[i] {
            i -= 1;
        }
        if i == 0 {
            break;
        }
        let mut j = n - 1;
        while perm[j] <= perm[i - 1] {
            j -= 1;
        }
        perm.swap(i - 1, j);
        perm[i..].reverse();
    }
    hash64(&(&best, &catalog))
}

#[derive(Debug)]
pub struct StepFail {
    pub symptom: &'static str,
    pub detail: String,
}

/// Execute `path` (indexes into the alphabet) from initial dataset `init` on a fresh real
/// database and on the model; verify the LAST step. Returns the reached (real, model) datasets.
pub fn run_path(alpha: &[Req], init: &Dataset, path: &[usize]) -> Result<(Dataset, Dataset, bool), StepFail> {
    let mut db: SparqlDatabase = build_db(init);
    let mut model = init.clone();
    let mut accepted_last = false;
    for (k, &oi) in path.iter().enumerate() {
        let last = k + 1 == path.len();
        let req = &alpha[oi];
        let text = req.text();
        let before = if last { Some(extract(&db)) } else { None };
        let res = guarded(|| db.execute_update(&text));
        let res = match res {
            Ok(r) => r,
            Err(p) => return Err(StepFail { symptom: "panic", detail: format!("execute_update panicked on {:?}: {}", text, p) }),
        };
        let model_res: Result<(Dataset, Effect), String> = match req {
            Req::Ast(u) => update::apply(&model, u, k + 1),
            Req::Rejected(l, _) => Err(format!("malformed request ({})", l)),
        };
        if last {
            let after = extract(&db);
            match (&res, &model_res) {
                (Ok(sum), Ok((m2, eff))) => {
                    if !equal_quads_up_to_bnodes(&after, m2) {
                        return Err(StepFail { symptom: "dataset_differs", detail: format!("after {:?}\n  real : {:?}\n  model: {:?}", text, after.quads(), m2.quads()) });
                    }
                    if sum.inserted_quads != eff.inserted || sum.deleted_quads != eff.deleted {
                        return Err(StepFail {
                            symptom: "summary_counts_differ",
                            detail: format!("after {:?}: reported inserted={} deleted={}, actual change inserted={} deleted={}", text, sum.inserted_quads, sum.deleted_quads, eff.inserted, eff.deleted),
                        });
                    }
                    // catalog bounds
                    for (g, ts) in &m2.named {
                        if !ts.is_empty() && !after.named.contains_key(g) {
                            return Err(StepFail { symptom: "catalog_misses_nonempty_graph", detail: format!("after {:?}: graph {} holds quads but is not listed", text, g) });
                        }
                    }
                    for g in after.named.keys() {
                        if !m2.named.contains_key(g) && g != G1 && g != G2 {
                            return Err(StepFail { symptom: "catalog_lists_unknown_graph", detail: format!("after {:?}: graph {} listed but never named", text, g) });
                        }
                    }
                    accepted_last = true;
                }
                (Err(_), Err(_)) => {
                    let b = before.as_ref().unwrap();
                    if &after != b {
                        return Err(StepFail { symptom: "rejected_update_changed_dataset", detail: format!("{:?} was refused but the dataset changed\n  before: {:?}\n  after : {:?}", text, b, after) });
                    }
                }
                (Ok(sum), Err(why)) => {
                    // Requests that the SPARQL grammar itself allows and that have no effect (the empty
                    // request = zero operations; a template whose written subject is a literal = illegal
                    // triple skipped; a SELECT, which C17 only requires to leave the data alone) may be
                    // refused (as Kolibrie does) or accepted as a no-op: the statement fixes neither.
                    let tolerated = matches!(req, Req::Rejected(l, _) if matches!(*l, "empty" | "literal_subject_in_template" | "select_at_update_endpoint"));
                    if tolerated && sum.inserted_quads == 0 && sum.deleted_quads == 0 && Some(&after) == before.as_ref() {
                        continue;
                    }
                    return Err(StepFail { symptom: "invalid_update_accepted", detail: format!("{:?} must be rejected ({}), but was executed: {:?}", text, why, sum) });
                }
                (Err(e), Ok(_)) => {
                    return Err(StepFail { symptom: "valid_update_rejected", detail: format!("{:?} is a valid update but was refused: {}", text, e) });
                }
            }
        }
        if let Ok((m2, _)) = model_res {
            model = m2;
        }
    }
    Ok((extract(&db), model, accepted_last))
}

fn equal_quads_up_to_bnodes(real: &Dataset, model: &Dataset) -> bool {
    // compare quads only (catalog handled separately): project both onto quads with the
    // catalog of non-empty graphs
    let strip = |d: &Dataset| -> Dataset {
        let mut x = Dataset::default();
        x.default = d.default.clone();
        for (g, ts) in &d.named {
            if !ts.is_empty() {
                x.named.insert(g.clone(), ts.clone());
            }
        }
        x
    };
    equal_up_to_bnodes(&strip(real), &strip(model))
}

fn case_json(init: usize, alpha: &[Req], path: &[usize]) -> Value {
    json!({"initial": init, "path": path, "requests": path.iter().map(|i| alpha[*i].text()).collect::<Vec<_>>()})
}

fn record_fail(out: &mut ShardOut, alpha: &[Req], inits: &[Dataset], init: usize, path: &[usize], f: StepFail) {
    // determinism before verdict
    match run_path(alpha, &inits[init], path) {
        Err(f2) if f2.symptom == f.symptom => {
            let last = &alpha[*path.last().unwrap()];
            let tags = vec![format!("op={}", last.label()), format!("initial={}", init)];
            out.fail(case_json(init, alpha, path), f.symptom, f.detail, tags);
        }
        other => out.machinery_errors.push(format!("non-deterministic verdict on path {:?}: first {:?}, then {:?}", path, f.symptom, other.err().map(|e| e.symptom))),
    }
}

fn run(ctx: &Ctx) -> ShardOut {
    let mut out = ShardOut::default();
    let alpha = ugen::alphabet();
    let inits = initial_datasets();
    let max_depth = if ctx.thorough() { 6 } else { 4 };
    out.count("max_alphabet_size", alpha.len() as u64);
    let mut subtree = 0u64;
    'all: for init in 0..inits.len() {
        for first in 0..alpha.len() {
            subtree += 1;
            if !ctx.mine(subtree) {
                continue;
            }
            // BFS below (init, first)
            let mut seen: HashSet<u64> = HashSet::new();
            let mut frontier: VecDeque<Vec<usize>> = VecDeque::new();
            let path0 = vec![first];
            out.transitions += 1;
            out.evaluations += 1;
            out.traces += 1;
            match run_path(&alpha, &inits[init], &path0) {
                Ok((real, model, _)) => {
                    seen.insert(hash64(&(canon(&real), canon(&model))));
                    note_state(&mut out, &real, &alpha, init, &path0);
                    frontier.push_back(path0);
                }
                Err(f) => {
                    record_fail(&mut out, &alpha, &inits, init, &path0, f);
                    continue;
                }
            }
            while let Some(path) = frontier.pop_front() {
                if path.len() >= max_depth {
                    continue;
                }
                for oi in 0..alpha.len() {
                    if ctx.expired() {
                        out.capped.push(format!("wall-clock cap hit in subtree (initial {}, first op {}) at depth {}", init, first, path.len()));
                        break 'all;
                    }
                    let mut p2 = path.clone();
                    p2.push(oi);
                    out.transitions += 1;
                    out.evaluations += 1;
                    out.traces += 1;
                    match run_path(&alpha, &inits[init], &p2) {
                        Ok((real, model, accepted)) => {
                            out.count(if accepted { "accepted_steps" } else { "refused_steps" }, 1);
                            let key = hash64(&(canon(&real), canon(&model)));
                            if seen.insert(key) {
                                note_state(&mut out, &real, &alpha, init, &p2);
                                out.max_depth = out.max_depth.max(p2.len() as u64);
                                frontier.push_back(p2);
                            } else {
                                out.count("dedup_hits", 1);
                            }
                        }
                        Err(f) => record_fail(&mut out, &alpha, &inits, init, &p2, f),
                    }
                }
            }
        }
    }
    out
}

fn note_state(out: &mut ShardOut, real: &Dataset, alpha: &[Req], init: usize, path: &[usize]) {
    out.states += 1;
    let key = canon(real);
    out.outcomes.insert(key);
    if real.quad_count() >= 2 {
        out.nontrivial.insert(key);
    }
    if real.quads().iter().any(|q| q.0.starts_with("_:") || q.2.starts_with("_:")) {
        out.count("states_with_blank_nodes", 1);
    }
    if out.states % 400 == 3 {
        out.sample(case_json(init, alpha, path));
    }
}

fn replay(_ctx: &Ctx, case: &Value) -> ShardOut {
    let mut out = ShardOut::default();
    let alpha = ugen::alphabet();
    let inits = initial_datasets();
    let init = case["initial"].as_u64().unwrap_or(0) as usize;
    let path: Vec<usize> = case["path"].as_array().map(|a| a.iter().filter_map(|x| x.as_u64().map(|y| y as usize)).collect()).unwrap_or_default();
    if init >= inits.len() || path.is_empty() || path.iter().any(|i| *i >= alpha.len()) {
        out.machinery_errors.push("replay: bad case".into());
        return out;
    }
    out.evaluations = 1;
    if let Err(f) = run_path(&alpha, &inits[init], &path) {
        record_fail(&mut out, &alpha, &inits, init, &path, f);
    }
    out
}
