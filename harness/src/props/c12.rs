//! C12 — incremental cross-window reasoning equals recomputation from scratch.
//!
//! E-seq: explicit-state search over stream histories. The *real* `incremental_sds_plus` is driven
//! with the `SdsWithExpiry` it returned at the previous evaluation; at every `evaluate` its result
//! is compared, per component, with R-expiry (reference::expiry_fixpoint: naive (max,min) fixpoint
//! over the alive annotated facts, seeds `event_time + alpha`, static = infinity) and with the real
//! `naive_sds_plus`.
//!
//! History alphabet (8 ops): arrive(w,t) for 2 windows x 3 triples (the listing of t in w gets the
//! current time; a triple is listed once), tick (now += 1; listings with time + alpha <= now are
//! dropped — `translate_sds_to_datalog` calls a fact alive iff event_time + alpha > current_time),
//! evaluate (only at a time strictly later than the previous evaluation).
//! Configurations (each an independent search, this is how the check is sharded):
//! rule set x (alpha1, alpha2) in {2,3}^2 x static graph with 0/1 triple x eviction (a listing is
//! dropped at the tick at which it expires, or one tick later so that the subject is handed a
//! listed-but-expired fact, which by the statement must not contribute).
//!
//! De-duplication. A search state is (window listings, carried SdsWithExpiry, now, "evaluate is
//! enabled"). Its key is that state *relative to now*: listing ages now - time, carried expiries as
//! expiry - now (u64::MAX kept as Inf; facts whose expiry is already <= now are kept too, with
//! their non-positive offset, because whether the subject ignores them is part of what is checked),
//! and the enabled flag. Why merging two histories with equal keys is sound:
//!  * the harness-side transition function (arrive/tick/enabledness) reads nothing but this state
//!    and commutes with shifting every time by a constant, so equal keys have equal successor keys
//!    for arrive/tick;
//!  * the arguments of every future call of the subject are (rules, Sds built from the listings,
//!    carried map, dictionary, now): the key contains all of them up to one uniform time shift —
//!    in particular the carried map is in the key in full, not just the window contents — and the
//!    dictionary is identical by construction (the whole vocabulary is pre-encoded in a fixed order
//!    and `next_id` is asserted unchanged after every call, so ids cannot differ between merged
//!    histories; results are nevertheless compared lexically);
//!  * the oracle is invariant under a uniform time shift.
//!  Hence the only assumption is that the subject's *pass/fail* on an input does not change when
//!  all times in that input are shifted by the same constant (it only adds alpha, compares, takes
//!  min/max). It is stated in `assumptions`, and partly discharged by a second, plain tree search
//!  without any de-duplication to a smaller depth. De-duplication can never cause a false alarm:
//!  every reported case is the op list of a real execution and is re-executed from scratch.
//!  BFS order makes the first visit of a key the shallowest one, so the remaining depth budget of
//!  the kept representative is the largest.
use crate::infra::{guarded, hash64, Ctx, PropDef, ShardOut};
use crate::reference::expiry_fixpoint as rx;
use datalog::cross_window_sds::{Sds, WindowData, WindowedTriple};
use datalog::reasoning::materialisation::cross_window_incremental::{incremental_sds_plus, SdsWithExpiry};
use datalog::reasoning::materialisation::cross_window_naive::naive_sds_plus;
use serde_json::{json, Value};
use shared::dictionary::Dictionary;
use shared::rule::Rule;
use shared::terms::Term;
use std::collections::{BTreeMap, BTreeSet, HashMap, HashSet, VecDeque};
use std::sync::{Arc, RwLock};

pub const DEF: PropDef = PropDef {
    id: "C12",
    level: "model_checking",
    rule: "per configuration (rule set in {copy, join, chain, trans, transdag, static, wrec} x alpha1,alpha2 in {2,3} x static graph with 0/1 triple x eviction exact/one tick late = 128 configurations, each an independent search) breadth-first search over histories of ops arrive(w,t) [2 windows x 3 triples (cycle a-p-b b-p-c c-p-a, or a-p-b b-p-c a-p-c for transdag/wrec); a listing keeps the latest arrival time], tick [now+=1, listings with time+alpha(+1 if late)<=now dropped], evaluate [real incremental_sds_plus with the SdsWithExpiry carried from the previous evaluate; only at a strictly later time than the previous evaluation] up to depth 6 (quick) / 9 (thorough); states de-duplicated on the full state relative to now (listing ages, complete carried map with expiry-now, evaluate-enabled); plus a plain tree search without any de-duplication to depth 4 / 6; every evaluate compares fact sets and expiries per component with the (max,min) reference fixpoint over the alive annotated facts and the fact sets with the real naive_sds_plus. evaluations = evaluate transitions executed on the real code (BFS + tree); states/transitions = BFS only; non-trivial = BFS evaluate whose carried map has a fact still alive and whose expected result has a derived (non-seed) fact; distinct = distinct (configuration, relative pre-state); outcomes = distinct (configuration, relative result)",
    assumptions: &[
        "universe: windows http://w1/ http://w2/ (alpha 2 or 3), static graph http://sg/ with triple b-k-c or empty, output component http://out/, entities a b c, arrival time = current time, start time 0",
        "alive <=> event_time + alpha > now (translate_sds_to_datalog); a window may keep an expired listing for one more tick (eviction=late) — the statement speaks about alive facts only, so such a listing must not contribute",
        "all rule predicates are annotated with an IRI of a declared SDS component (window, static graph or output); facts of undeclared components are not part of the carried state and such rule sets are not generated",
        "strictly increasing evaluation times (two evaluations at the same time are not generated)",
        "de-duplication assumes the subject's pass/fail is invariant under shifting all times of one call by a constant; partly discharged by the tree search without de-duplication (counters tree_*); it cannot cause a false alarm, every reported history is re-executed from scratch",
        "reference model: harness/src/reference/expiry_fixpoint.rs (Kleene iteration in (max,min)), self-tested on hand-computed cases; it never calls Kolibrie",
        "one dictionary with the whole vocabulary pre-encoded in a fixed order; Dictionary.next_id asserted unchanged after every subject call; results compared lexically",
    ],
    run,
    replay,
    cap_s: (50, 880),
    shards: 0,
};

// ---------------------------------------------------------------- universe

const WIN: [&str; 2] = ["http://w1/", "http://w2/"];
const SG: &str = "http://sg/";
const OUT: &str = "http://out/";
const COMPONENTS: [&str; 4] = ["http://w1/", "http://w2/", "http://sg/", "http://out/"];
const ENT: [&str; 3] = ["a", "b", "c"];
/// the three triples of a window alphabet (indices into ENT, local predicate p), chosen per rule set:
/// a cycle a-p-b, b-p-c, c-p-a (three join pairs, deep recursion) or
/// a chain with a shortcut a-p-b, b-p-c, a-p-c (a listed fact that is also derivable)
const CYCLE: [(usize, usize); 3] = [(0, 1), (1, 2), (2, 0)];
const SHORTCUT: [(usize, usize); 3] = [(0, 1), (1, 2), (0, 2)];
const STATIC: (&str, &str, &str) = ("b", "k", "c");
const LOCALS: [&str; 9] = ["p", "k", "cp", "j", "q", "r", "t", "s", "st"];

/// atom: component, local predicate name, subject variable, object variable
#[derive(Clone, Copy)]
struct A(&'static str, &'static str, &'static str, &'static str);
struct RS {
    premise: &'static [A],
    conclusion: &'static [A],
}

const RULESETS: &[(&str, [(usize, usize); 3], &[RS])] = &[
    // copy both windows into the output component (two derivations of one fact: max)
    (
        "copy",
        CYCLE,
        &[
            RS { premise: &[A(WIN[0], "p", "x", "y")], conclusion: &[A(OUT, "cp", "x", "y")] },
            RS { premise: &[A(WIN[1], "p", "x", "y")], conclusion: &[A(OUT, "cp", "x", "y")] },
        ],
    ),
    // join across the two windows (min)
    ("join", CYCLE, &[RS { premise: &[A(WIN[0], "p", "x", "y"), A(WIN[1], "p", "y", "z")], conclusion: &[A(OUT, "j", "x", "z")] }]),
    // chain through the output component: w1 -> q -> r -> (join with w2) j
    (
        "chain",
        CYCLE,
        &[
            RS { premise: &[A(WIN[0], "p", "x", "y")], conclusion: &[A(OUT, "q", "x", "y")] },
            RS { premise: &[A(OUT, "q", "x", "y")], conclusion: &[A(OUT, "r", "x", "y")] },
            RS { premise: &[A(OUT, "r", "x", "y"), A(WIN[1], "p", "y", "z")], conclusion: &[A(OUT, "j", "x", "z")] },
        ],
    ),
    // recursive transitive rule over the copies of both windows, on the cycle (9 facts, derivations of
    // depth 2) and on the chain with shortcut (direct edge against the two-step path: max of min)
    (
        "trans",
        CYCLE,
        &[
            RS { premise: &[A(WIN[0], "p", "x", "y")], conclusion: &[A(OUT, "t", "x", "y")] },
            RS { premise: &[A(WIN[1], "p", "x", "y")], conclusion: &[A(OUT, "t", "x", "y")] },
            RS { premise: &[A(OUT, "t", "x", "y"), A(OUT, "t", "y", "z")], conclusion: &[A(OUT, "t", "x", "z")] },
        ],
    ),
    (
        "transdag",
        SHORTCUT,
        &[
            RS { premise: &[A(WIN[0], "p", "x", "y")], conclusion: &[A(OUT, "t", "x", "y")] },
            RS { premise: &[A(WIN[1], "p", "x", "y")], conclusion: &[A(OUT, "t", "x", "y")] },
            RS { premise: &[A(OUT, "t", "x", "y"), A(OUT, "t", "y", "z")], conclusion: &[A(OUT, "t", "x", "z")] },
        ],
    ),
    // static premise (infinite expiry), also a fact derived from the static graph alone
    (
        "static",
        CYCLE,
        &[
            RS { premise: &[A(WIN[0], "p", "x", "y"), A(SG, "k", "y", "z")], conclusion: &[A(OUT, "s", "x", "z")] },
            RS { premise: &[A(WIN[1], "p", "x", "y"), A(SG, "k", "y", "z")], conclusion: &[A(OUT, "s", "x", "z")] },
            RS { premise: &[A(SG, "k", "x", "y")], conclusion: &[A(OUT, "st", "x", "y")] },
        ],
    ),
    // a rule concluding INTO a window component from the other window: a fact can be alive both as
    // a listed stream fact of w1 and as a derivation from a (possibly longer-lived) listing of w2,
    // so its expiry is the max of its own window expiry and the derived one
    (
        "xwin",
        CYCLE,
        &[
            RS { premise: &[A(WIN[1], "p", "x", "y")], conclusion: &[A(WIN[0], "p", "x", "y")] },
            RS { premise: &[A(WIN[0], "p", "x", "y")], conclusion: &[A(OUT, "cp", "x", "y")] },
        ],
    ),
    // recursion inside a window component: derived facts coincide with stream facts of the same
    // component (a listed fact can be outlived by a derivation of itself), copied on and joined
    (
        "wrec",
        SHORTCUT,
        &[
            RS { premise: &[A(WIN[0], "p", "x", "y"), A(WIN[0], "p", "y", "z")], conclusion: &[A(WIN[0], "p", "x", "z")] },
            RS { premise: &[A(WIN[0], "p", "x", "y")], conclusion: &[A(OUT, "cp", "x", "y")] },
            RS { premise: &[A(WIN[0], "p", "x", "y"), A(WIN[1], "p", "y", "z")], conclusion: &[A(OUT, "j", "x", "z")] },
        ],
    ),
];

#[derive(Clone, Copy, Debug, PartialEq, Eq, Hash)]
pub struct Cfg {
    rs: usize,
    alpha: [u64; 2],
    stat: bool,
    /// false: a listing is dropped by the tick at which it expires (time + alpha <= now);
    /// true: one tick later (the window evicts lazily; the subject sees a listed, expired fact)
    late: bool,
}

fn configs() -> Vec<Cfg> {
    // rule set innermost: shard i % 16 then gets 7 different rule sets with 7 different
    // (alpha, static, eviction) combinations, which balances the very unequal search sizes
    let mut v = Vec::new();
    for a1 in [2u64, 3] {
        for a2 in [2u64, 3] {
            for stat in [false, true] {
                for late in [false, true] {
                    for rs in 0..RULESETS.len() {
                        v.push(Cfg { rs, alpha: [a1, a2], stat, late });
                    }
                }
            }
        }
    }
    v
}

fn cfg_json(c: &Cfg) -> Value {
    json!({"ruleset": RULESETS[c.rs].0, "alpha": [c.alpha[0], c.alpha[1]], "static": c.stat, "evict": if c.late { "late" } else { "exact" }})
}

fn parse_cfg(v: &Value) -> Option<Cfg> {
    let name = v["ruleset"].as_str()?;
    let rs = RULESETS.iter().position(|r| r.0 == name)?;
    let a = v["alpha"].as_array()?;
    let alpha = [a.first()?.as_u64()?, a.get(1)?.as_u64()?];
    if alpha.iter().any(|x| *x == 0 || *x > 1000) {
        return None;
    }
    let late = match v["evict"].as_str()? {
        "late" => true,
        "exact" => false,
        _ => return None,
    };
    Some(Cfg { rs, alpha, stat: v["static"].as_bool()?, late })
}

// ---------------------------------------------------------------- ops and state

const N_OPS: u8 = 8;
const OP_TICK: u8 = 6;
const OP_EVAL: u8 = 7;

fn op_name(op: u8) -> String {
    match op {
        0..=5 => format!("arrive({},{})", op / 3, op % 3),
        OP_TICK => "tick".to_string(),
        _ => "evaluate".to_string(),
    }
}
fn parse_op(s: &str) -> Option<u8> {
    (0..N_OPS).find(|o| op_name(*o) == s)
}
fn ops_json(path: &[u8]) -> Value {
    json!(path.iter().map(|o| op_name(*o)).collect::<Vec<_>>())
}

#[derive(Clone)]
struct St {
    now: u64,
    /// event time of the listing of triple t in window w
    win: [[Option<u64>; 3]; 2],
    carried: SdsWithExpiry,
    last_eval: Option<u64>,
}

impl St {
    fn initial() -> St {
        St { now: 0, win: [[None; 3]; 2], carried: HashMap::new(), last_eval: None }
    }
    fn eval_enabled(&self) -> bool {
        self.last_eval.map_or(true, |e| self.now > e)
    }
    fn arrive(&mut self, w: usize, t: usize) {
        self.win[w][t] = Some(self.now);
    }
    fn tick(&mut self, cfg: &Cfg) {
        self.now += 1;
        for w in 0..2 {
            for t in 0..3 {
                if let Some(time) = self.win[w][t] {
                    if time + cfg.alpha[w] + (cfg.late as u64) <= self.now {
                        self.win[w][t] = None;
                    }
                }
            }
        }
    }
}

#[derive(Clone, Debug, PartialEq, Eq, Hash, PartialOrd, Ord)]
enum RelExp {
    Rel(i64),
    Inf,
}
fn rel(e: u64, now: u64) -> RelExp {
    if e == u64::MAX {
        RelExp::Inf
    } else {
        RelExp::Rel(e as i64 - now as i64)
    }
}

type RelMap = Vec<(String, Vec<((u32, u32, u32), RelExp)>)>;

fn rel_map(m: &SdsWithExpiry, now: u64) -> RelMap {
    let mut v: RelMap = m
        .iter()
        .map(|(comp, facts)| {
            let mut f: Vec<((u32, u32, u32), RelExp)> = facts.iter().map(|(t, e)| ((t.subject, t.predicate, t.object), rel(*e, now))).collect();
            f.sort();
            (comp.clone(), f)
        })
        .collect();
    v.sort();
    v
}

#[derive(Hash)]
struct RelKey {
    ages: [[Option<u64>; 3]; 2],
    carried: RelMap,
    eval_enabled: bool,
}

fn rel_key(st: &St) -> RelKey {
    let mut ages = [[None; 3]; 2];
    for w in 0..2 {
        for t in 0..3 {
            ages[w][t] = st.win[w][t].map(|time| st.now - time);
        }
    }
    RelKey { ages, carried: rel_map(&st.carried, st.now), eval_enabled: st.eval_enabled() }
}

fn fp128<T: std::hash::Hash>(t: &T) -> (u64, u64) {
    (hash64(t), hash64(&(0x9e3779b97f4a7c15u64, t)))
}

// ---------------------------------------------------------------- environment of one configuration

struct Env {
    cfg: Cfg,
    dict: Arc<RwLock<Dictionary>>,
    names: Vec<String>,
    rules: Vec<Rule>,
    ref_rules: Vec<rx::Rule>,
}

fn make_env(cfg: Cfg) -> Env {
    let mut d = Dictionary::new();
    // whole vocabulary, fixed order
    for e in ENT {
        d.encode(e);
    }
    for l in LOCALS {
        d.encode(l);
    }
    for comp in COMPONENTS {
        for l in LOCALS {
            d.encode(&format!("{}{}", comp, l));
        }
    }
    let names: Vec<String> = (0..d.next_id).map(|i| d.decode(i).unwrap_or("<undecodable>").to_string()).collect();
    let mut rules = Vec::new();
    let mut ref_rules = Vec::new();
    for rs in RULESETS[cfg.rs].2 {
        let sub_atom = |a: &A, d: &mut Dictionary| (Term::Variable(a.2.to_string()), Term::Constant(d.encode(&format!("{}{}", a.0, a.1))), Term::Variable(a.3.to_string()));
        let ref_atom = |a: &A| (rx::v(a.2), rx::c(&format!("{}{}", a.0, a.1)), rx::v(a.3));
        rules.push(Rule {
            premise: rs.premise.iter().map(|a| sub_atom(a, &mut d)).collect(),
            negative_premise: vec![],
            filters: vec![],
            conclusion: rs.conclusion.iter().map(|a| sub_atom(a, &mut d)).collect(),
        });
        ref_rules.push(rx::Rule { premise: rs.premise.iter().map(ref_atom).collect(), conclusion: rs.conclusion.iter().map(ref_atom).collect() });
    }
    assert_eq!(d.next_id as usize, names.len(), "rule predicates must be part of the pre-encoded vocabulary");
    Env { cfg, dict: Arc::new(RwLock::new(d)), names, rules, ref_rules }
}

impl Env {
    fn triples(&self) -> [(usize, usize); 3] {
        RULESETS[self.cfg.rs].1
    }
    fn name(&self, id: u32) -> String {
        self.names.get(id as usize).cloned().unwrap_or_else(|| format!("<id {} outside the vocabulary>", id))
    }
    fn build_sds(&self, st: &St) -> Sds {
        let mut sds = Sds::new();
        for w in 0..2 {
            let mut triples = Vec::new();
            for t in 0..3 {
                if let Some(time) = st.win[w][t] {
                    triples.push(WindowedTriple { subject: ENT[self.triples()[t].0].to_string(), predicate: "p".to_string(), object: ENT[self.triples()[t].1].to_string(), event_time: time });
                }
            }
            sds.windows.insert(WIN[w].to_string(), WindowData { alpha: self.cfg.alpha[w], triples });
        }
        let stat = if self.cfg.stat { vec![(STATIC.0.to_string(), STATIC.1.to_string(), STATIC.2.to_string())] } else { vec![] };
        sds.static_graphs.insert(SG.to_string(), stat);
        sds.output_iris.insert(OUT.to_string());
        sds
    }
    /// annotated seed facts with their expiry (event time + alpha; static = infinity)
    fn seeds(&self, st: &St) -> Vec<(rx::Fact, u64)> {
        let mut v = Vec::new();
        for w in 0..2 {
            for t in 0..3 {
                if let Some(time) = st.win[w][t] {
                    v.push(((ENT[self.triples()[t].0].to_string(), format!("{}p", WIN[w]), ENT[self.triples()[t].1].to_string()), time + self.cfg.alpha[w]));
                }
            }
        }
        if self.cfg.stat {
            v.push(((STATIC.0.to_string(), format!("{}{}", SG, STATIC.1), STATIC.2.to_string()), rx::INF));
        }
        v
    }
}

/// (component, subject, local predicate, object)
type FactKey = (String, String, String, String);

fn split_component(pred: &str) -> (String, String) {
    for comp in COMPONENTS {
        if let Some(local) = pred.strip_prefix(comp) {
            return (comp.to_string(), local.to_string());
        }
    }
    ("<no component>".to_string(), pred.to_string())
}

fn show_exp(e: u64) -> String {
    if e == u64::MAX {
        "inf".to_string()
    } else {
        e.to_string()
    }
}

fn show_facts(m: &BTreeMap<FactKey, u64>) -> String {
    let v: Vec<String> = m.iter().map(|(k, e)| format!("{}:{}({},{})@{}", k.0, k.2, k.1, k.3, show_exp(*e))).collect();
    format!("[{}]", v.join(" "))
}

#[derive(Default, Clone)]
struct Flags {
    first: bool,
    carried_alive: bool,
    carried_expired: bool,
    renewed_base: bool,
    new_base: bool,
    carried_over_fact: bool,
    derived_expiry_changed: bool,
    rederived_after_expiry: bool,
    derived_present: bool,
    derived_infinite: bool,
    two_window_fact: bool,
    seed_outlived: bool,
    listed_expired: bool,
    nontrivial: bool,
    facts: u64,
}

struct Violation {
    symptom: &'static str,
    detail: String,
    tags: Vec<String>,
}

enum EvalErr {
    Violation(Violation),
    Machinery(String),
}

struct EvalOk {
    result: SdsWithExpiry,
    flags: Flags,
    expected: BTreeMap<FactKey, u64>,
}

/// the oracle's expected result; kept in one place so that it can be weakened for a detection demo
fn expected_result(env: &Env, st: &St) -> BTreeMap<FactKey, u64> {
    let fix = rx::fixpoint_alive(&env.ref_rules, &env.seeds(st), st.now);
    fix.into_iter()
        .map(|((s, p, o), e)| {
            let (comp, local) = split_component(&p);
            ((comp, s, local, o), e)
        })
        .collect()
}

/// One `evaluate` on the real code at state `st`, compared with the reference.
fn evaluate(env: &Env, st: &St) -> Result<EvalOk, EvalErr> {
    let sds = env.build_sds(st);
    let id_before = env.dict.read().unwrap().next_id;
    let expected = expected_result(env, st);
    let seeds: BTreeMap<FactKey, u64> = env
        .seeds(st)
        .into_iter()
        .filter(|(_, e)| *e > st.now)
        .map(|((s, p, o), e)| {
            let (comp, local) = split_component(&p);
            ((comp, s, local, o), e)
        })
        .collect();

    // old (carried) facts, lexical
    let mut old: BTreeMap<FactKey, u64> = BTreeMap::new();
    for (comp, m) in &st.carried {
        for (t, e) in m {
            let pred = env.name(t.predicate);
            let local = pred.strip_prefix(comp.as_str()).map(|s| s.to_string()).unwrap_or(pred.clone());
            old.insert((comp.clone(), env.name(t.subject), local, env.name(t.object)), *e);
        }
    }

    let mut flags = Flags::default();
    flags.first = st.last_eval.is_none();
    flags.carried_alive = old.values().any(|e| *e > st.now);
    flags.carried_expired = old.values().any(|e| *e <= st.now);
    flags.renewed_base = seeds.iter().any(|(k, e)| old.get(k).map_or(false, |o| *o > st.now && *o < *e));
    flags.new_base = seeds.keys().any(|k| old.get(k).map_or(true, |o| *o <= st.now));
    flags.derived_present = expected.keys().any(|k| !seeds.contains_key(k));
    flags.derived_infinite = expected.iter().any(|(k, e)| !seeds.contains_key(k) && *e == u64::MAX);
    flags.carried_over_fact = expected.keys().any(|k| old.get(k).map_or(false, |o| *o > st.now));
    flags.derived_expiry_changed = expected.iter().any(|(k, e)| !seeds.contains_key(k) && old.get(k).map_or(false, |o| *o > st.now && *o != *e));
    flags.rederived_after_expiry = expected.keys().any(|k| !seeds.contains_key(k) && old.get(k).map_or(false, |o| *o <= st.now));
    flags.two_window_fact = (0..3).any(|t| st.win[0][t].is_some() && st.win[1][t].is_some());
    flags.seed_outlived = seeds.iter().any(|(k, e)| expected.get(k).map_or(false, |x| *x > *e));
    flags.listed_expired = env.seeds(st).iter().any(|(_, e)| *e <= st.now);
    flags.nontrivial = flags.carried_alive && flags.derived_present;
    flags.facts = expected.len() as u64;

    let mut tags = vec![
        format!("ruleset={}", RULESETS[env.cfg.rs].0),
        format!("alpha={},{}", env.cfg.alpha[0], env.cfg.alpha[1]),
        format!("static={}", env.cfg.stat as u8),
        format!("evict={}", if env.cfg.late { "late" } else { "exact" }),
        (if flags.first { "first_evaluation" } else { "later_evaluation" }).to_string(),
    ];
    if flags.carried_alive {
        tags.push("carried_alive_fact".into());
    }
    if flags.carried_expired {
        tags.push("carried_expired_fact".into());
    }
    if flags.renewed_base {
        tags.push("renewed_base_fact".into());
    }
    if flags.new_base {
        tags.push("new_base_fact".into());
    }
    if flags.listed_expired {
        tags.push("expired_fact_still_listed".into());
    }

    // ---- the real code
    let inc = match guarded(|| incremental_sds_plus(&env.rules, &sds, &st.carried, &env.dict, st.now)) {
        Ok(r) => r,
        Err(msg) => {
            return Err(EvalErr::Violation(Violation { symptom: "panic", detail: format!("incremental_sds_plus panicked: {}", msg), tags }));
        }
    };
    let naive = match guarded(|| naive_sds_plus(&env.rules, &sds, &env.dict, st.now)) {
        Ok(r) => r,
        Err(msg) => {
            tags.push("in=naive_sds_plus".into());
            return Err(EvalErr::Violation(Violation { symptom: "panic", detail: format!("naive_sds_plus panicked: {}", msg), tags }));
        }
    };
    let id_after = env.dict.read().unwrap().next_id;
    if id_after != id_before {
        return Err(EvalErr::Machinery(format!("dictionary grew from {} to {} during an evaluation: the vocabulary is not closed, ids may differ between merged histories", id_before, id_after)));
    }

    // ---- decode
    let mut got: BTreeMap<FactKey, u64> = BTreeMap::new();
    for (comp, m) in &inc {
        for (t, e) in m {
            let pred = env.name(t.predicate);
            let local = match pred.strip_prefix(comp.as_str()) {
                Some(l) => l.to_string(),
                None => format!("<predicate {} filed under another component>", pred),
            };
            got.insert((comp.clone(), env.name(t.subject), local, env.name(t.object)), *e);
        }
    }
    let mut got_naive: BTreeSet<FactKey> = BTreeSet::new();
    for (comp, v) in &naive {
        for t in v {
            got_naive.insert((comp.clone(), env.name(t.subject), env.name(t.predicate), env.name(t.object)));
        }
    }

    // ---- compare: incremental against the reference
    let context = |what: String| format!("{} | now={} expected={} incremental={} carried={}", what, st.now, show_facts(&expected), show_facts(&got), show_facts(&old));
    for k in expected.keys() {
        if !got.contains_key(k) {
            tags.push(format!("component={}", k.0));
            tags.push(format!("predicate={}", k.2));
            return Err(EvalErr::Violation(Violation { symptom: "missing_fact", detail: context(format!("{}:{}({},{}) is derivable from the alive facts but absent from the incremental result", k.0, k.2, k.1, k.3)), tags }));
        }
    }
    for k in got.keys() {
        if !expected.contains_key(k) {
            tags.push(format!("component={}", k.0));
            tags.push(format!("predicate={}", k.2));
            return Err(EvalErr::Violation(Violation { symptom: "extra_fact", detail: context(format!("{}:{}({},{}) is in the incremental result but not derivable from the alive facts", k.0, k.2, k.1, k.3)), tags }));
        }
    }
    for (k, e) in &expected {
        let g = got[k];
        if g != *e {
            tags.push(format!("component={}", k.0));
            tags.push(format!("predicate={}", k.2));
            let symptom = if g < *e { "expiry_too_low" } else { "expiry_too_high" };
            return Err(EvalErr::Violation(Violation {
                symptom,
                detail: context(format!("expiry of {}:{}({},{}) is {} but the latest time some derivation stays supported is {}", k.0, k.2, k.1, k.3, show_exp(g), show_exp(*e))),
                tags,
            }));
        }
    }
    // ---- compare: the real from-scratch computation against the reference (fact sets)
    let exp_set: BTreeSet<FactKey> = expected.keys().cloned().collect();
    if got_naive != exp_set {
        let missing: Vec<&FactKey> = exp_set.difference(&got_naive).collect();
        let extra: Vec<&FactKey> = got_naive.difference(&exp_set).collect();
        tags.push("in=naive_sds_plus".into());
        return Err(EvalErr::Violation(Violation {
            symptom: "naive_recomputation_differs",
            detail: format!("naive_sds_plus at now={} misses {:?} and has extra {:?}; expected {}", st.now, missing, extra, show_facts(&expected)),
            tags,
        }));
    }
    Ok(EvalOk { result: inc, flags, expected })
}

fn note_flags(out: &mut ShardOut, prefix: &str, f: &Flags) {
    let mut c = |name: &str, b: bool| {
        if b {
            out.count(&format!("{}evals_{}", prefix, name), 1);
        }
    };
    c("first_of_history", f.first);
    c("with_carried_alive_fact", f.carried_alive);
    c("with_carried_expired_fact", f.carried_expired);
    c("with_renewed_base_fact", f.renewed_base);
    c("with_new_base_fact", f.new_base);
    c("with_fact_carried_over", f.carried_over_fact);
    c("with_derived_fact_expiry_changed", f.derived_expiry_changed);
    c("with_derived_fact_rederived_after_expiry", f.rederived_after_expiry);
    c("with_derived_fact", f.derived_present);
    c("with_infinite_derived_fact", f.derived_infinite);
    c("with_same_triple_in_both_windows", f.two_window_fact);
    c("with_listed_fact_outlived_by_its_derivation", f.seed_outlived);
    c("with_expired_fact_still_listed", f.listed_expired);
    out.count(&format!("{}facts_compared", prefix), f.facts);
}

// ---------------------------------------------------------------- executing a history from scratch

struct HistoryResult {
    /// (index of the failing op, violation)
    failure: Option<(usize, Violation)>,
    machinery: Option<String>,
    evals: u64,
    /// per evaluate: relative result
    results: Vec<String>,
}

fn run_history(cfg: Cfg, path: &[u8]) -> HistoryResult {
    let env = make_env(cfg);
    let mut st = St::initial();
    let mut res = HistoryResult { failure: None, machinery: None, evals: 0, results: vec![] };
    for (i, op) in path.iter().enumerate() {
        match *op {
            0..=5 => st.arrive((*op / 3) as usize, (*op % 3) as usize),
            OP_TICK => st.tick(&cfg),
            _ => {
                if !st.eval_enabled() {
                    res.machinery = Some(format!("op {} is an evaluate at the time of the previous evaluation (outside the quantifier)", i));
                    return res;
                }
                res.evals += 1;
                match evaluate(&env, &st) {
                    Ok(ok) => {
                        res.results.push(format!("now={} {}", st.now, show_facts(&ok.expected)));
                        st.carried = ok.result;
                        st.last_eval = Some(st.now);
                    }
                    Err(EvalErr::Violation(v)) => {
                        res.failure = Some((i, v));
                        return res;
                    }
                    Err(EvalErr::Machinery(m)) => {
                        res.machinery = Some(m);
                        return res;
                    }
                }
            }
        }
    }
    res
}

fn record_failure(out: &mut ShardOut, cfg: Cfg, path: &[u8], v: Violation) {
    // determinism before verdict: the same history once more from scratch, fresh dictionary
    let again = run_history(cfg, path);
    match again.failure {
        Some((step, v2)) if step == path.len() - 1 && v2.symptom == v.symptom && v2.detail == v.detail => {
            let mut tags = v.tags;
            tags.push(format!("history_evaluations={}", again.evals.min(3)));
            out.fail(json!({"config": cfg_json(&cfg), "ops": ops_json(path)}), v.symptom, v.detail, tags);
        }
        other => {
            out.machinery_errors.push(format!(
                "non-deterministic re-execution of {} {}: first run {} / {}, second run {:?}",
                cfg_json(&cfg),
                ops_json(path),
                v.symptom,
                v.detail,
                other.map(|(s, v2)| (s, v2.symptom, v2.detail))
            ));
        }
    }
}

// ---------------------------------------------------------------- searches

fn bfs(env: &Env, depth: usize, out: &mut ShardOut, ctx: &Ctx, cfg_index: usize) {
    let cfg = env.cfg;
    let mut seen: HashSet<(u64, u64)> = HashSet::new();
    let mut frontier: VecDeque<(St, Vec<u8>)> = VecDeque::new();
    let st0 = St::initial();
    seen.insert(fp128(&rel_key(&st0)));
    out.states += 1;
    frontier.push_back((st0, vec![]));
    let mut completed_depth = 0usize;
    while let Some((st, path)) = frontier.pop_front() {
        if path.len() >= depth {
            continue;
        }
        if ctx.expired() {
            out.capped.push(format!(
                "wall-clock cap hit in BFS of configuration {} at depth {} (all histories of length <= {} of this configuration were completed; depth bound {})",
                cfg_json(&cfg),
                path.len() + 1,
                completed_depth,
                depth
            ));
            out.count("bfs_configurations_capped", 1);
            return;
        }
        completed_depth = path.len();
        for op in 0..N_OPS {
            let mut st2 = st.clone();
            let mut p2 = path.clone();
            p2.push(op);
            match op {
                0..=5 => st2.arrive((op / 3) as usize, (op % 3) as usize),
                OP_TICK => st2.tick(&cfg),
                _ => {
                    if !st.eval_enabled() {
                        out.count("bfs_evaluate_disabled", 1);
                        continue;
                    }
                    out.evaluations += 1;
                    out.traces += 1;
                    let pre_key = fp128(&rel_key(&st));
                    match evaluate(env, &st) {
                        Ok(ok) => {
                            note_flags(out, "bfs_", &ok.flags);
                            if ok.flags.nontrivial {
                                out.nontrivial(&(cfg_index, pre_key));
                            }
                            let rel_result = rel_map(&ok.result, st.now);
                            out.outcome(&(cfg_index, &rel_result));
                            if ok.flags.nontrivial && ok.flags.derived_expiry_changed {
                                out.sample(json!({"config": cfg_json(&cfg), "ops": ops_json(&p2), "now": st.now, "result": show_facts(&ok.expected)}));
                            }
                            st2.carried = ok.result;
                            st2.last_eval = Some(st.now);
                        }
                        Err(EvalErr::Violation(v)) => {
                            out.transitions += 1;
                            record_failure(out, cfg, &p2, v);
                            continue; // a wrong state is not explored further
                        }
                        Err(EvalErr::Machinery(m)) => {
                            out.machinery_errors.push(format!("{} {}: {}", cfg_json(&cfg), ops_json(&p2), m));
                            return;
                        }
                    }
                }
            }
            out.transitions += 1;
            if !seen.insert(fp128(&rel_key(&st2))) {
                out.count("dedup_hits", 1);
                continue;
            }
            out.states += 1;
            out.max_depth = out.max_depth.max(p2.len() as u64);
            if p2.len() < depth {
                // states at the depth bound are counted and were checked, but never expanded
                frontier.push_back((st2, p2));
            }
        }
    }
    out.count("bfs_configurations_completed", 1);
}

/// plain tree search, no de-duplication of any kind
fn tree(env: &Env, st: &St, path: &mut Vec<u8>, depth: usize, out: &mut ShardOut, ctx: &Ctx) -> bool {
    if path.len() >= depth {
        return true;
    }
    if ctx.expired() {
        return false;
    }
    let cfg = env.cfg;
    for op in 0..N_OPS {
        let mut st2 = st.clone();
        path.push(op);
        let mut descend = true;
        match op {
            0..=5 => st2.arrive((op / 3) as usize, (op % 3) as usize),
            OP_TICK => st2.tick(&cfg),
            _ => {
                if !st.eval_enabled() {
                    descend = false;
                } else {
                    out.evaluations += 1;
                    out.traces += 1;
                    out.count("tree_evaluations", 1);
                    match evaluate(env, st) {
                        Ok(ok) => {
                            note_flags(out, "tree_", &ok.flags);
                            st2.carried = ok.result;
                            st2.last_eval = Some(st.now);
                        }
                        Err(EvalErr::Violation(v)) => {
                            record_failure(out, cfg, path, v);
                            descend = false;
                        }
                        Err(EvalErr::Machinery(m)) => {
                            out.machinery_errors.push(format!("{} {}: {}", cfg_json(&cfg), ops_json(path), m));
                            path.pop();
                            return false;
                        }
                    }
                }
            }
        }
        if descend {
            out.count("tree_nodes", 1);
            if !tree(env, &st2, path, depth, out, ctx) {
                path.pop();
                return false;
            }
        }
        path.pop();
    }
    true
}

fn run(ctx: &Ctx) -> ShardOut {
    let mut out = ShardOut::default();
    let (bfs_depth, tree_depth) = if ctx.thorough() { (9, 6) } else { (6, 4) };
    out.max("max_bfs_depth_bound", bfs_depth as u64);
    out.max("max_tree_depth_bound", tree_depth as u64);
    let cfgs = configs();
    // tree searches first (small), then the BFS of every configuration of this shard
    for (i, cfg) in cfgs.iter().enumerate() {
        if !ctx.mine(i as u64) {
            continue;
        }
        let env = make_env(*cfg);
        let mut path = Vec::new();
        if !tree(&env, &St::initial(), &mut path, tree_depth, &mut out, ctx) && out.machinery_errors.is_empty() {
            out.capped.push(format!("wall-clock cap hit in the tree search of configuration {}", cfg_json(cfg)));
        }
    }
    for (i, cfg) in cfgs.iter().enumerate() {
        if !ctx.mine(i as u64) {
            continue;
        }
        if let Some(p) = &ctx.progress {
            p.mark(&cfg_json(cfg).to_string());
        }
        let env = make_env(*cfg);
        bfs(&env, bfs_depth, &mut out, ctx, i);
        if !out.machinery_errors.is_empty() {
            break;
        }
    }
    out
}

fn replay(_ctx: &Ctx, case: &Value) -> ShardOut {
    let mut out = ShardOut::default();
    let cfg = match parse_cfg(&case["config"]) {
        Some(c) => c,
        None => {
            out.machinery_errors.push(format!("replay: cannot read configuration from {}", case));
            return out;
        }
    };
    let mut path = Vec::new();
    for v in case["ops"].as_array().cloned().unwrap_or_default() {
        match v.as_str().and_then(parse_op) {
            Some(o) => path.push(o),
            None => {
                out.machinery_errors.push(format!("replay: unknown op {}", v));
                return out;
            }
        }
    }
    let r = run_history(cfg, &path);
    out.evaluations = r.evals;
    out.traces = 1;
    for (i, line) in r.results.iter().enumerate() {
        out.sample(json!({"evaluation": i, "agreed_result": line}));
    }
    if let Some(m) = r.machinery {
        out.machinery_errors.push(m);
    }
    if let Some((step, v)) = r.failure {
        let mut tags = v.tags;
        tags.push(format!("history_evaluations={}", r.evals.min(3)));
        out.fail(json!({"config": cfg_json(&cfg), "ops": ops_json(&path[..=step])}), v.symptom, v.detail, tags);
    }
    out
}
