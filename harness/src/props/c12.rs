//! C12 — incremental cross-window reasoning equals recomputation from scratch.
//!
//! E-seq: explicit-state search over stream histories. The *real* `incremental_sds_plus` is driven
//! with the `SdsWithExpiry` it returned at the previous evaluation; at every `evaluate` its result
//! is compared, per component, with R-expiry (reference::expiry_fixpoint: naive (max,min) fixpoint
//! over the alive annotated facts, seeds `event_time + alpha`, static = infinity) and with the real
//! `naive_sds_plus`; the external view `sds_with_expiry_to_external(result, all_component_iris(sds))`
//! — the read path `rsp_engine::emit_cross_window_results` uses on the maintained state — must show
//! the same fact sets per component.
//!
//! History alphabet: arrive(w,t) for 2 windows x 3 triples (the listing of t in w gets the
//! current time; a triple is listed once), tick (now += 1; listings with time + alpha <= now are
//! dropped — `translate_sds_to_datalog` calls a fact alive iff event_time + alpha > current_time),
//! evaluate (only at a time strictly later than the previous evaluation), and — in the
//! de-duplicated searches only — flush (= max(alpha)+1 ticks, +1 with late eviction: every listing
//! and every finite carried expiry is over afterwards; a macro that brings "expire everything, then
//! re-derive" inside the depth bound).
//! Configurations (each an independent search, this is how the check is sharded):
//! rule set x (alpha1, alpha2) x static graph empty / filled x eviction (a listing is
//! dropped at the tick at which it expires, or one tick later so that the subject is handed a
//! listed-but-expired fact, which by the statement must not contribute) x component IRI scheme
//! (pairwise prefix-free IRIs, or IRIs that are proper prefixes of one another, where filing a
//! fact under its component depends on the longest-prefix rule of `all_component_iris` /
//! `strip_window_prefix`; local names never contain '/', every component IRI ends in '/', so the
//! component of an annotated predicate is unambiguous and the harness knows it by construction,
//! from the table of (component, local name) pairs it generated, never by splitting strings).
//!
//! Searches per configuration:
//!  (1) BFS from the empty history at start time 0 (depth 6 / 9, thorough 8 for the configurations
//!      added after the first round), de-duplicated;
//!  (2) a plain tree search from the empty history at start time 0 (depth 4 / 6, resp. 5), no
//!      de-duplication;
//!  (3) seeded searches: 8 fixed prefixes (histories with one to three evaluations: carried alive
//!      facts, an evaluated renewal, full windows, renewal followed by total expiry, staggered
//!      ages, three incremental evaluations, re-derivation after total expiry, partial renewal)
//!      are executed on the real code at a start time of 1000 or 2^40 (every evaluation of the
//!      prefix is checked too), then a de-duplicated BFS (depth 3 / 4) and an undeduplicated tree
//!      (depth 3 / 4) continue from the reached state. The quick tier thereby reaches third and
//!      fourth evaluations after renew -> expire -> re-derive, and the time-shift assumption of the
//!      de-duplication is exercised at three absolute start times.
//!
//! De-duplication. A search state is (window listings, carried SdsWithExpiry, now, "evaluate is
//! enabled"). Its key is that state *relative to now*: listing ages now - time, carried expiries as
//! expiry - now (u64::MAX kept as Inf; facts whose expiry is already <= now are kept too, with
//! their non-positive offset, because whether the subject ignores them is part of what is checked),
//! and the enabled flag. Why merging two histories with equal keys is sound:
//!  * the harness-side transition function (arrive/tick/flush/enabledness) reads nothing but this
//!    state and commutes with shifting every time by a constant, so equal keys have equal successor
//!    keys for arrive/tick/flush;
//!  * the arguments of every future call of the subject are (rules, Sds built from the listings,
//!    carried map, dictionary, now): the key contains all of them up to one uniform time shift —
//!    in particular the carried map is in the key in full, not just the window contents — and the
//!    dictionary is identical by construction (the whole vocabulary is pre-encoded in a fixed order
//!    and `next_id` is asserted unchanged after every call, so ids cannot differ between merged
//!    histories; results are nevertheless compared lexically);
//!  * the oracle is invariant under a uniform time shift.
//!  Hence the only assumption is that the subject's *pass/fail* on an input does not change when
//!  all times in that input are shifted by the same constant (it only adds alpha, compares, takes
//!  min/max). It is stated in `assumptions`, and partly discharged by the plain tree searches
//!  without any de-duplication and by running the seeded searches at other absolute times.
//!  De-duplication can never cause a false alarm: every reported case is the op list of a real
//!  execution and is re-executed from scratch.
//!  BFS order makes the first visit of a key the shallowest one, so the remaining depth budget of
//!  the kept representative is the largest (every BFS has its own `seen` set).
use crate::infra::{guarded, hash64, Ctx, PropDef, ShardOut};
use crate::reference::expiry_fixpoint as rx;
use datalog::cross_window_sds::{all_component_iris, sds_with_expiry_to_external, Sds, WindowData, WindowedTriple};
use datalog::reasoning::materialisation::cross_window_incremental::{incremental_sds_plus, SdsWithExpiry};
use datalog::reasoning::materialisation::cross_window_naive::naive_sds_plus;
use serde_json::{json, Value};
use shared::dictionary::Dictionary;
use shared::rule::Rule;
use shared::terms::Term;
use std::collections::{BTreeMap, BTreeSet, HashMap, HashSet, VecDeque};
use std::sync::{Arc, RwLock};

pub const DEF: PropDef = PropDef {
    id: "C12",
    level: "model_checking",
    rule: "per configuration (rule set in {copy, join, chain, trans, transdag, static, xwin, wrec, tri [3-premise rules over w1,w2,w1 and w1,w2,static], twohead [one rule with two conclusions, one of them INTO window w2, plus a join reading it], const [constants in premise and conclusion, a fully ground premise], loop [repeated variable w1:p(x,x), 2-cycle join], late_consumer_first / late_producers_first [two derivations of unequal length for one fact plus a consumer of it, in both rule listing orders]} x {IRIs prefix-free, alpha1,alpha2 in {2,3}, static graph empty/filled, eviction exact/one tick late: 16} + {prefix-free, alpha (1,4)/(4,1), static filled, eviction exact/late: 4} + {prefix-NESTED component IRIs http://w/ http://w/x/ http://w/sg/ http://w/x/out/, alpha (2,3)/(3,2), static filled, eviction exact/late: 4} = 14 x 24 = 336 configurations, each an independent search) histories of ops arrive(w,t) [2 windows x 3 triples (cycle a-p-b b-p-c c-p-a; a-p-b b-p-c a-p-c for transdag/wrec; a-p-a a-p-b b-p-a for twohead/loop); a listing keeps the latest arrival time], tick [now+=1, listings with time+alpha(+1 if late)<=now dropped], evaluate [real incremental_sds_plus with the SdsWithExpiry carried from the previous evaluate; only at a strictly later time than the previous evaluation], flush [max(alpha)+1(+1 if late) ticks; de-duplicated searches only]: (1) BFS from the empty history at start time 0 up to depth 6 (quick) / 9 (thorough; 8 for the 160 configurations that are not among the first 8 rule sets x prefix-free x alpha in {2,3}), states de-duplicated on the full state relative to now (listing ages, complete carried map with expiry-now, evaluate-enabled); (2) plain tree search without any de-duplication from the empty history to depth 4 / 6 (5 for those 160); (3) 8 seeded prefixes per configuration (1-3 evaluations each: carried-alive, evaluated renewal, full windows, renewal then total expiry, staggered ages, three incremental evaluations, re-derivation after total expiry, partial renewal) executed at start time 1000 or 2^40 and continued by a de-duplicated BFS to depth 3 / 4 and by an undeduplicated tree to depth 3 / 4 (the two at different start times); every evaluate (also those inside the prefixes) compares fact sets and expiries per component with the (max,min) reference fixpoint over the alive annotated facts and the fact sets with the real naive_sds_plus and with the RSP engine's read path of the maintained state, sds_with_expiry_to_external(result, all_component_iris(sds)); an empty static graph is declared without triples when alpha1=2 and not declared at all when alpha1=3 (what the engine's build_cross_window_sds does); a fact filed under a component other than the one whose IRI + local name spells its predicate is a violation (per-component clause). evaluations = evaluate transitions executed on the real code (all searches + prefixes); states/transitions = the BFSs (1)+(3) (each BFS has its own seen set); non-trivial = BFS evaluate whose carried map has a fact still alive and whose expected result has a derived (non-seed) fact; distinct = distinct (configuration, relative pre-state); outcomes = distinct (configuration, relative result)",
    assumptions: &[
        "universe: two windows and one static graph (triple b-k-c, for rule set tri b-k-c and c-k-a, or empty) and one output component; component IRIs either http://w1/ http://w2/ http://sg/ http://out/ or the prefix-nested http://w/ http://w/x/ http://w/sg/ http://w/x/out/; every component IRI ends in '/', local predicate names contain no '/', so an annotated predicate has exactly one reading (component, local name); entities a b c, arrival time = current time, start time 0, 1000 or 2^40; alpha in {1,2,3,4}",
        "alive <=> event_time + alpha > now (translate_sds_to_datalog); a window may keep an expired listing for one more tick (eviction=late) — the statement speaks about alive facts only, so such a listing must not contribute",
        "all rule predicates are annotated with an IRI of a declared SDS component (window, static graph or output); facts of undeclared components are not part of the carried state and such rule sets are not generated; rules are positive, have 1-3 premises and 1-2 conclusions, subject/object terms are variables or entity constants, predicates are constants",
        "strictly increasing evaluation times (two evaluations at the same time are not generated)",
        "de-duplication assumes the subject's pass/fail is invariant under shifting all times of one call by a constant; partly discharged by the tree searches without de-duplication (counters tree_*, stree_*) and by running the seeded searches at start times 1000 and 2^40 (counter evals_at_shifted_start); it cannot cause a false alarm, every reported history is re-executed from scratch at its own start time",
        "reference model: harness/src/reference/expiry_fixpoint.rs (Kleene iteration in (max,min)), self-tested on hand-computed cases; it never calls Kolibrie; the component of a fact is taken from the table of generated (component, local) pairs, not from string splitting",
        "one dictionary with the whole vocabulary pre-encoded in a fixed order; Dictionary.next_id asserted unchanged after every subject call that agreed with the oracle (a disagreeing call is reported as a violation, and re-executed from scratch, whether or not it also grew the dictionary); results compared lexically",
    ],
    run,
    replay,
    cap_s: (50, 880),
    shards: 0,
};

// ---------------------------------------------------------------- universe

/// component indices (into `Iris::comps`)
const W1: usize = 0;
const W2: usize = 1;
const SGC: usize = 2;
const OUTC: usize = 3;

#[derive(Clone, Copy, Debug, PartialEq, Eq, Hash)]
enum Iris {
    /// pairwise prefix-free
    Plain,
    /// w1 is a proper prefix of every other component IRI, w2 of the output IRI
    Nested,
}

impl Iris {
    fn comps(self) -> [&'static str; 4] {
        match self {
            Iris::Plain => ["http://w1/", "http://w2/", "http://sg/", "http://out/"],
            Iris::Nested => ["http://w/", "http://w/x/", "http://w/sg/", "http://w/x/out/"],
        }
    }
    fn name(self) -> &'static str {
        match self {
            Iris::Plain => "plain",
            Iris::Nested => "nested",
        }
    }
}

const ENT: [&str; 3] = ["a", "b", "c"];
/// the three triples of a window alphabet (indices into ENT, local predicate p), chosen per rule set:
/// a cycle a-p-b, b-p-c, c-p-a (three join pairs, deep recursion),
/// a chain with a shortcut a-p-b, b-p-c, a-p-c (a listed fact that is also derivable), or
/// a self-loop with a 2-cycle a-p-a, a-p-b, b-p-a (repeated variables; a triple and its inverse)
const CYCLE: [(usize, usize); 3] = [(0, 1), (1, 2), (2, 0)];
const SHORTCUT: [(usize, usize); 3] = [(0, 1), (1, 2), (0, 2)];
const LOOPY: [(usize, usize); 3] = [(0, 0), (0, 1), (1, 0)];
type StaticTriples = &'static [(&'static str, &'static str, &'static str)];
const ST_ONE: StaticTriples = &[("b", "k", "c")];
const ST_TWO: StaticTriples = &[("b", "k", "c"), ("c", "k", "a")];
/// local predicate names: no '/', none equal to an entity name
const LOCALS: [&str; 19] = ["p", "k", "cp", "j", "q", "r", "t", "s", "st", "j3", "j3s", "c1", "d1", "l1", "m1", "n1", "e1", "f1", "g1"];

/// atom: component index, local predicate name, subject term, object term
/// (a term that is an entity name a|b|c is a constant, anything else a variable)
#[derive(Clone, Copy)]
struct A(usize, &'static str, &'static str, &'static str);
struct RS {
    premise: &'static [A],
    conclusion: &'static [A],
}

struct RuleSetDef {
    name: &'static str,
    triples: [(usize, usize); 3],
    statics: StaticTriples,
    rules: &'static [RS],
    /// vacuity marks: (counter name, local predicates whose presence in the expected result of an
    /// evaluation shows that the rule shape this set was added for really fired)
    marks: &'static [(&'static str, &'static [&'static str])],
}

const RULESETS: &[RuleSetDef] = &[
    // copy both windows into the output component (two derivations of one fact: max)
    RuleSetDef {
        name: "copy",
        triples: CYCLE,
        statics: ST_ONE,
        rules: &[
            RS { premise: &[A(W1, "p", "x", "y")], conclusion: &[A(OUTC, "cp", "x", "y")] },
            RS { premise: &[A(W2, "p", "x", "y")], conclusion: &[A(OUTC, "cp", "x", "y")] },
        ],
        marks: &[],
    },
    // join across the two windows (min)
    RuleSetDef {
        name: "join",
        triples: CYCLE,
        statics: ST_ONE,
        rules: &[RS { premise: &[A(W1, "p", "x", "y"), A(W2, "p", "y", "z")], conclusion: &[A(OUTC, "j", "x", "z")] }],
        marks: &[],
    },
    // chain through the output component: w1 -> q -> r -> (join with w2) j
    RuleSetDef {
        name: "chain",
        triples: CYCLE,
        statics: ST_ONE,
        rules: &[
            RS { premise: &[A(W1, "p", "x", "y")], conclusion: &[A(OUTC, "q", "x", "y")] },
            RS { premise: &[A(OUTC, "q", "x", "y")], conclusion: &[A(OUTC, "r", "x", "y")] },
            RS { premise: &[A(OUTC, "r", "x", "y"), A(W2, "p", "y", "z")], conclusion: &[A(OUTC, "j", "x", "z")] },
        ],
        marks: &[],
    },
    // recursive transitive rule over the copies of both windows, on the cycle (9 facts, derivations of
    // depth 2) and on the chain with shortcut (direct edge against the two-step path: max of min)
    RuleSetDef {
        name: "trans",
        triples: CYCLE,
        statics: ST_ONE,
        rules: &[
            RS { premise: &[A(W1, "p", "x", "y")], conclusion: &[A(OUTC, "t", "x", "y")] },
            RS { premise: &[A(W2, "p", "x", "y")], conclusion: &[A(OUTC, "t", "x", "y")] },
            RS { premise: &[A(OUTC, "t", "x", "y"), A(OUTC, "t", "y", "z")], conclusion: &[A(OUTC, "t", "x", "z")] },
        ],
        marks: &[],
    },
    RuleSetDef {
        name: "transdag",
        triples: SHORTCUT,
        statics: ST_ONE,
        rules: &[
            RS { premise: &[A(W1, "p", "x", "y")], conclusion: &[A(OUTC, "t", "x", "y")] },
            RS { premise: &[A(W2, "p", "x", "y")], conclusion: &[A(OUTC, "t", "x", "y")] },
            RS { premise: &[A(OUTC, "t", "x", "y"), A(OUTC, "t", "y", "z")], conclusion: &[A(OUTC, "t", "x", "z")] },
        ],
        marks: &[],
    },
    // static premise (infinite expiry), also a fact derived from the static graph alone
    RuleSetDef {
        name: "static",
        triples: CYCLE,
        statics: ST_ONE,
        rules: &[
            RS { premise: &[A(W1, "p", "x", "y"), A(SGC, "k", "y", "z")], conclusion: &[A(OUTC, "s", "x", "z")] },
            RS { premise: &[A(W2, "p", "x", "y"), A(SGC, "k", "y", "z")], conclusion: &[A(OUTC, "s", "x", "z")] },
            RS { premise: &[A(SGC, "k", "x", "y")], conclusion: &[A(OUTC, "st", "x", "y")] },
        ],
        marks: &[],
    },
    // a rule concluding INTO a window component from the other window: a fact can be alive both as
    // a listed stream fact of w1 and as a derivation from a (possibly longer-lived) listing of w2,
    // so its expiry is the max of its own window expiry and the derived one
    RuleSetDef {
        name: "xwin",
        triples: CYCLE,
        statics: ST_ONE,
        rules: &[
            RS { premise: &[A(W2, "p", "x", "y")], conclusion: &[A(W1, "p", "x", "y")] },
            RS { premise: &[A(W1, "p", "x", "y")], conclusion: &[A(OUTC, "cp", "x", "y")] },
        ],
        marks: &[],
    },
    // recursion inside a window component: derived facts coincide with stream facts of the same
    // component (a listed fact can be outlived by a derivation of itself), copied on and joined
    RuleSetDef {
        name: "wrec",
        triples: SHORTCUT,
        statics: ST_ONE,
        rules: &[
            RS { premise: &[A(W1, "p", "x", "y"), A(W1, "p", "y", "z")], conclusion: &[A(W1, "p", "x", "z")] },
            RS { premise: &[A(W1, "p", "x", "y")], conclusion: &[A(OUTC, "cp", "x", "y")] },
            RS { premise: &[A(W1, "p", "x", "y"), A(W2, "p", "y", "z")], conclusion: &[A(OUTC, "j", "x", "z")] },
        ],
        marks: &[],
    },
    // three premises: three expiry sources (w1, w2, w1 again / static), the delta of a later
    // evaluation can sit at each of the three premise positions
    // (find_premise_solutions_with_triples loops over i in 0..3); a consumer of the result
    RuleSetDef {
        name: "tri",
        triples: CYCLE,
        statics: ST_TWO,
        rules: &[
            RS { premise: &[A(W1, "p", "x", "y"), A(W2, "p", "y", "z"), A(W1, "p", "z", "w")], conclusion: &[A(OUTC, "j3", "x", "w")] },
            RS { premise: &[A(W1, "p", "x", "y"), A(W2, "p", "y", "z"), A(SGC, "k", "z", "w")], conclusion: &[A(OUTC, "j3s", "x", "w")] },
            RS { premise: &[A(OUTC, "j3", "x", "y")], conclusion: &[A(OUTC, "r", "x", "y")] },
        ],
        marks: &[("three_premise_derivation", &["j3", "j3s"]), ("three_premise_derivation_with_static_premise", &["j3s"])],
    },
    // one rule with two conclusions in different components, one of them a window component (the
    // inverse triple, which the alphabet can also list in w2), and a join reading the derived fact
    RuleSetDef {
        name: "twohead",
        triples: LOOPY,
        statics: ST_ONE,
        rules: &[
            RS { premise: &[A(W1, "p", "x", "y")], conclusion: &[A(OUTC, "q", "x", "y"), A(W2, "p", "y", "x")] },
            RS { premise: &[A(W1, "p", "x", "y"), A(W2, "p", "y", "z")], conclusion: &[A(OUTC, "j", "x", "z")] },
        ],
        marks: &[("two_conclusion_derivation", &["q"]), ("join_over_two_conclusion_derivation", &["j"])],
    },
    // constants: in a premise subject and the conclusion object; in a premise object; a fully
    // ground premise
    RuleSetDef {
        name: "const",
        triples: CYCLE,
        statics: ST_ONE,
        rules: &[
            RS { premise: &[A(W1, "p", "a", "y")], conclusion: &[A(OUTC, "c1", "y", "a")] },
            RS { premise: &[A(W2, "p", "x", "b"), A(W1, "p", "b", "c")], conclusion: &[A(OUTC, "d1", "x", "c")] },
            RS { premise: &[A(OUTC, "c1", "x", "y"), A(W2, "p", "y", "x")], conclusion: &[A(OUTC, "r", "x", "y")] },
        ],
        marks: &[("constant_premise_derivation", &["c1", "d1"]), ("ground_premise_derivation", &["d1"])],
    },
    // repeated variable in one premise, a 2-cycle join, and a rule joining on a derived self-loop
    RuleSetDef {
        name: "loop",
        triples: LOOPY,
        statics: ST_ONE,
        rules: &[
            RS { premise: &[A(W1, "p", "x", "x")], conclusion: &[A(OUTC, "l1", "x", "x")] },
            RS { premise: &[A(W1, "p", "x", "y"), A(W2, "p", "y", "x")], conclusion: &[A(OUTC, "m1", "x", "y")] },
            RS { premise: &[A(W2, "p", "x", "y"), A(OUTC, "l1", "x", "x")], conclusion: &[A(OUTC, "n1", "x", "y")] },
        ],
        marks: &[("repeated_variable_derivation", &["l1", "n1"]), ("two_cycle_join_derivation", &["m1"])],
    },
    // two derivations of UNEQUAL length for one fact (e1 directly from w1, and from w2 through f1),
    // with a consumer of that fact (g1) - in both listing orders: consumer FIRST (the consumer fires on
    // e1 in the same round in which the longer derivation improves e1's expiry, i.e. while e1 is in the
    // current delta, and must be re-triggered) and producers first. With alpha1 < alpha2 the longer
    // path carries the later expiry.
    RuleSetDef {
        name: "late_consumer_first",
        triples: CYCLE,
        statics: ST_ONE,
        rules: &[
            RS { premise: &[A(OUTC, "e1", "x", "y")], conclusion: &[A(OUTC, "g1", "x", "y")] },
            RS { premise: &[A(W1, "p", "x", "y")], conclusion: &[A(OUTC, "e1", "x", "y")] },
            RS { premise: &[A(W2, "p", "x", "y")], conclusion: &[A(OUTC, "f1", "x", "y")] },
            RS { premise: &[A(OUTC, "f1", "x", "y")], conclusion: &[A(OUTC, "e1", "x", "y")] },
        ],
        marks: &[("unequal_length_derivations_consumer_first", &["g1"])],
    },
    RuleSetDef {
        name: "late_producers_first",
        triples: CYCLE,
        statics: ST_ONE,
        rules: &[
            RS { premise: &[A(OUTC, "f1", "x", "y")], conclusion: &[A(OUTC, "e1", "x", "y")] },
            RS { premise: &[A(W2, "p", "x", "y")], conclusion: &[A(OUTC, "f1", "x", "y")] },
            RS { premise: &[A(W1, "p", "x", "y")], conclusion: &[A(OUTC, "e1", "x", "y")] },
            RS { premise: &[A(OUTC, "e1", "x", "y")], conclusion: &[A(OUTC, "g1", "x", "y")] },
        ],
        marks: &[("unequal_length_derivations_producers_first", &["g1"])],
    },
];

#[derive(Clone, Copy, Debug, PartialEq, Eq, Hash)]
pub struct Cfg {
    rs: usize,
    alpha: [u64; 2],
    stat: bool,
    /// false: a listing is dropped by the tick at which it expires (time + alpha <= now);
    /// true: one tick later (the window evicts lazily; the subject sees a listed, expired fact)
    late: bool,
    iris: Iris,
}

fn configs() -> Vec<Cfg> {
    // rule set outermost: the 24 configurations of one rule set are dealt round-robin over the 16
    // shards (consecutive rule sets start at offsets 0, 8, 0, ...), which balances the very unequal
    // search sizes of the rule sets
    let mut v = Vec::new();
    for rs in 0..RULESETS.len() {
        for a1 in [2u64, 3] {
            for a2 in [2u64, 3] {
                for stat in [false, true] {
                    for late in [false, true] {
                        v.push(Cfg { rs, alpha: [a1, a2], stat, late, iris: Iris::Plain });
                    }
                }
            }
        }
        for alpha in [[1u64, 4], [4, 1]] {
            for late in [false, true] {
                v.push(Cfg { rs, alpha, stat: true, late, iris: Iris::Plain });
            }
        }
        for alpha in [[2u64, 3], [3, 2]] {
            for late in [false, true] {
                v.push(Cfg { rs, alpha, stat: true, late, iris: Iris::Nested });
            }
        }
    }
    v
}

fn cfg_json(c: &Cfg) -> Value {
    json!({"ruleset": RULESETS[c.rs].name, "alpha": [c.alpha[0], c.alpha[1]], "static": c.stat, "evict": if c.late { "late" } else { "exact" }, "iris": c.iris.name()})
}

fn parse_cfg(v: &Value) -> Option<Cfg> {
    let name = v["ruleset"].as_str()?;
    let rs = RULESETS.iter().position(|r| r.name == name)?;
    let a = v["alpha"].as_array()?;
    let alpha = [a.first()?.as_u64()?, a.get(1)?.as_u64()?];
    if alpha.iter().any(|x| *x == 0 || *x > 1000) {
        return None;
    }
    let late = match v["evict"].as_str()? {
        "late" => true,
        "exact" => false,
        _ => return None,
    };
    // cases recorded before the IRI scheme existed have no "iris" member: prefix-free
    let iris = match v.get("iris").and_then(|x| x.as_str()) {
        None | Some("plain") => Iris::Plain,
        Some("nested") => Iris::Nested,
        _ => return None,
    };
    Some(Cfg { rs, alpha, stat: v["static"].as_bool()?, late, iris })
}

const STARTS: [u64; 3] = [0, 1000, 1 << 40];

// ---------------------------------------------------------------- ops and state

/// ops of the undeduplicated tree searches: 0..=5 arrive, tick, evaluate
const N_OPS_TREE: u8 = 8;
/// the de-duplicated searches also have flush
const N_OPS_BFS: u8 = 9;
const OP_TICK: u8 = 6;
const OP_EVAL: u8 = 7;
const OP_FLUSH: u8 = 8;

fn op_name(op: u8) -> String {
    match op {
        0..=5 => format!("arrive({},{})", op / 3, op % 3),
        OP_TICK => "tick".to_string(),
        OP_EVAL => "evaluate".to_string(),
        _ => "flush".to_string(),
    }
}
fn parse_op(s: &str) -> Option<u8> {
    (0..N_OPS_BFS).find(|o| op_name(*o) == s)
}
fn ops_json(path: &[u8]) -> Value {
    json!(path.iter().map(|o| op_name(*o)).collect::<Vec<_>>())
}
fn case_json(cfg: &Cfg, start: u64, path: &[u8]) -> Value {
    json!({"config": cfg_json(cfg), "start": start, "ops": ops_json(path)})
}

#[derive(Clone)]
struct St {
    /// start time of the history (not part of the relative key; only recorded for tags/counters)
    start: u64,
    now: u64,
    /// event time of the listing of triple t in window w
    win: [[Option<u64>; 3]; 2],
    carried: SdsWithExpiry,
    last_eval: Option<u64>,
    /// number of evaluations executed so far in this history (statistics only, not part of the key)
    evals_done: u32,
}

impl St {
    fn initial_at(start: u64) -> St {
        St { start, now: start, win: [[None; 3]; 2], carried: HashMap::new(), last_eval: None, evals_done: 0 }
    }
    fn eval_enabled(&self) -> bool {
        self.last_eval.map_or(true, |e| self.now > e)
    }
    fn arrive(&mut self, w: usize, t: usize) {
        self.win[w][t] = Some(self.now);
    }
    fn tick(&mut self, cfg: &Cfg) {
        self.now += 1;
        for w in 0..2 {
            for t in 0..3 {
                if let Some(time) = self.win[w][t] {
                    if time + cfg.alpha[w] + (cfg.late as u64) <= self.now {
                        self.win[w][t] = None;
                    }
                }
            }
        }
    }
    /// enough single ticks that every listing is dropped and every finite carried expiry is over
    fn flush(&mut self, cfg: &Cfg) {
        for _ in 0..(cfg.alpha[0].max(cfg.alpha[1]) + 1 + cfg.late as u64) {
            self.tick(cfg);
        }
    }
    /// arrive / tick / flush (never evaluate)
    fn apply_plain(&mut self, cfg: &Cfg, op: u8) {
        match op {
            0..=5 => self.arrive((op / 3) as usize, (op % 3) as usize),
            OP_TICK => self.tick(cfg),
            OP_FLUSH => self.flush(cfg),
            _ => unreachable!("evaluate is not a plain op"),
        }
    }
    fn after_eval(&mut self, result: SdsWithExpiry) {
        self.carried = result;
        self.last_eval = Some(self.now);
        self.evals_done += 1;
    }
}

#[derive(Clone, Debug, PartialEq, Eq, Hash, PartialOrd, Ord)]
enum RelExp {
    Rel(i64),
    Inf,
}
fn rel(e: u64, now: u64) -> RelExp {
    if e == u64::MAX {
        RelExp::Inf
    } else {
        RelExp::Rel((e as i128 - now as i128) as i64)
    }
}

type RelMap = Vec<(String, Vec<((u32, u32, u32), RelExp)>)>;

fn rel_map(m: &SdsWithExpiry, now: u64) -> RelMap {
    let mut v: RelMap = m
        .iter()
        .map(|(comp, facts)| {
            let mut f: Vec<((u32, u32, u32), RelExp)> = facts.iter().map(|(t, e)| ((t.subject, t.predicate, t.object), rel(*e, now))).collect();
            f.sort();
            (comp.clone(), f)
        })
        .collect();
    v.sort();
    v
}

#[derive(Hash)]
struct RelKey {
    ages: [[Option<u64>; 3]; 2],
    carried: RelMap,
    eval_enabled: bool,
}

fn rel_key(st: &St) -> RelKey {
    let mut ages = [[None; 3]; 2];
    for w in 0..2 {
        for t in 0..3 {
            ages[w][t] = st.win[w][t].map(|time| st.now - time);
        }
    }
    RelKey { ages, carried: rel_map(&st.carried, st.now), eval_enabled: st.eval_enabled() }
}

fn fp128<T: std::hash::Hash>(t: &T) -> (u64, u64) {
    (hash64(t), hash64(&(0x9e3779b97f4a7c15u64, t)))
}

// ---------------------------------------------------------------- seeded prefixes

const fn arr(w: u8, t: u8) -> u8 {
    w * 3 + t
}

/// Fixed prefixes (the same for every configuration; what they reach depends on alpha). Every
/// evaluate in them is enabled: each is preceded by a tick/flush since the previous one.
fn seed_prefixes() -> Vec<(&'static str, Vec<u8>)> {
    const T: u8 = OP_TICK;
    const E: u8 = OP_EVAL;
    const F: u8 = OP_FLUSH;
    vec![
        // two listed facts evaluated, one tick later: carried facts alive
        ("carried_alive", vec![arr(0, 0), arr(1, 1), E, T]),
        // ... then one of them renewed and evaluated again: the next evaluation is the third
        ("renewal_evaluated", vec![arr(0, 0), arr(1, 1), E, T, arr(0, 0), E, T]),
        // both windows full
        ("full_windows", vec![arr(0, 0), arr(1, 0), arr(0, 1), arr(1, 1), arr(0, 2), arr(1, 2), E, T]),
        // renewal evaluated, then everything expires: the carried map holds only expired facts
        ("renewal_then_total_expiry", vec![arr(0, 0), arr(1, 1), E, T, arr(0, 0), E, F]),
        // listings of different ages, the older ones at or past their expiry for the smaller alphas
        ("staggered_ages", vec![arr(0, 0), arr(0, 1), T, arr(1, 1), arr(1, 2), E, T, T]),
        // three evaluations, each with new arrivals: the next evaluation is the fourth
        ("three_evaluations", vec![arr(0, 2), arr(1, 2), E, T, arr(0, 0), arr(1, 1), E, T, arr(0, 1), arr(1, 0), E, T]),
        // evaluate, expire everything, the same facts arrive again and are evaluated: re-derivation
        ("rederived_after_total_expiry", vec![arr(0, 0), arr(1, 0), arr(1, 1), E, F, arr(0, 0), arr(1, 0), arr(1, 1), E, T]),
        // two ticks, then two of three listed facts arrive again (renewed for alpha 3/4, expired and
        // new for alpha 1/2), third left to age
        ("partial_renewal", vec![arr(0, 0), arr(1, 1), arr(0, 2), arr(1, 2), E, T, T, arr(0, 0), arr(1, 1), E, T]),
    ]
}

// ---------------------------------------------------------------- environment of one configuration

struct Env {
    cfg: Cfg,
    comps: [&'static str; 4],
    dict: Arc<RwLock<Dictionary>>,
    names: Vec<String>,
    /// annotated predicate -> (component index, local name): the generated pairs, unique by assertion
    table: HashMap<String, (usize, &'static str)>,
    /// component indices whose IRI has another declared component IRI as a proper prefix
    inner_comps: Vec<usize>,
    rules: Vec<Rule>,
    ref_rules: Vec<rx::Rule>,
}

fn is_entity(name: &str) -> bool {
    ENT.contains(&name)
}

fn make_env(cfg: Cfg) -> Env {
    let comps = cfg.iris.comps();
    let mut d = Dictionary::new();
    // whole vocabulary, fixed order
    for e in ENT {
        d.encode(e);
    }
    for l in LOCALS {
        assert!(!l.contains('/') && !is_entity(l), "local names contain no '/' and differ from entity names");
        d.encode(l);
    }
    let mut table: HashMap<String, (usize, &'static str)> = HashMap::new();
    for (ci, comp) in comps.iter().enumerate() {
        assert!(comp.ends_with('/'), "component IRIs end in '/'");
        for l in LOCALS {
            let annotated = format!("{}{}", comp, l);
            d.encode(&annotated);
            assert!(table.insert(annotated, (ci, l)).is_none(), "an annotated predicate has one reading");
        }
    }
    let inner_comps: Vec<usize> = (0..4).filter(|i| (0..4).any(|j| j != *i && comps[*i].starts_with(comps[j]))).collect();
    let names: Vec<String> = (0..d.next_id).map(|i| d.decode(i).unwrap_or("<undecodable>").to_string()).collect();
    let mut rules = Vec::new();
    let mut ref_rules = Vec::new();
    for rs in RULESETS[cfg.rs].rules {
        let sub_term = |name: &str, d: &mut Dictionary| if is_entity(name) { Term::Constant(d.encode(name)) } else { Term::Variable(name.to_string()) };
        let sub_atom = |a: &A, d: &mut Dictionary| {
            let s = sub_term(a.2, d);
            let p = Term::Constant(d.encode(&format!("{}{}", comps[a.0], a.1)));
            let o = sub_term(a.3, d);
            (s, p, o)
        };
        let ref_term = |name: &str| if is_entity(name) { rx::c(name) } else { rx::v(name) };
        let ref_atom = |a: &A| (ref_term(a.2), rx::c(&format!("{}{}", comps[a.0], a.1)), ref_term(a.3));
        rules.push(Rule {
            premise: rs.premise.iter().map(|a| sub_atom(a, &mut d)).collect(),
            negative_premise: vec![],
            filters: vec![],
            conclusion: rs.conclusion.iter().map(|a| sub_atom(a, &mut d)).collect(),
        });
        ref_rules.push(rx::Rule { premise: rs.premise.iter().map(ref_atom).collect(), conclusion: rs.conclusion.iter().map(ref_atom).collect() });
    }
    assert_eq!(d.next_id as usize, names.len(), "rule predicates must be part of the pre-encoded vocabulary");
    Env { cfg, comps, dict: Arc::new(RwLock::new(d)), names, table, inner_comps, rules, ref_rules }
}

impl Env {
    fn triples(&self) -> [(usize, usize); 3] {
        RULESETS[self.cfg.rs].triples
    }
    fn statics(&self) -> StaticTriples {
        if self.cfg.stat {
            RULESETS[self.cfg.rs].statics
        } else {
            &[]
        }
    }
    /// An empty static graph is either declared with no triples (alpha1 = 2) or not declared at all
    /// (alpha1 = 3; this is what the RSP engine's build_cross_window_sds does when the static
    /// database is empty). Rules reading the static component then simply never fire; no fact of an
    /// undeclared component can arise, because no rule set concludes into the static component.
    fn static_undeclared(&self) -> bool {
        !self.cfg.stat && self.cfg.alpha[0] == 3
    }
    fn name(&self, id: u32) -> String {
        self.names.get(id as usize).cloned().unwrap_or_else(|| format!("<id {} outside the vocabulary>", id))
    }
    /// (component IRI, local name) of an annotated predicate, by construction
    fn reading(&self, pred: &str) -> (String, String) {
        match self.table.get(pred) {
            Some((ci, local)) => (self.comps[*ci].to_string(), local.to_string()),
            None => ("<no component>".to_string(), pred.to_string()),
        }
    }
    fn build_sds(&self, st: &St) -> Sds {
        let mut sds = Sds::new();
        for w in 0..2 {
            let mut triples = Vec::new();
            for t in 0..3 {
                if let Some(time) = st.win[w][t] {
                    triples.push(WindowedTriple { subject: ENT[self.triples()[t].0].to_string(), predicate: "p".to_string(), object: ENT[self.triples()[t].1].to_string(), event_time: time });
                }
            }
            sds.windows.insert(self.comps[w].to_string(), WindowData { alpha: self.cfg.alpha[w], triples });
        }
        let stat: Vec<(String, String, String)> = self.statics().iter().map(|t| (t.0.to_string(), t.1.to_string(), t.2.to_string())).collect();
        if !self.static_undeclared() {
            sds.static_graphs.insert(self.comps[SGC].to_string(), stat);
        }
        sds.output_iris.insert(self.comps[OUTC].to_string());
        sds
    }
    /// annotated seed facts with their expiry (event time + alpha; static = infinity)
    fn seeds(&self, st: &St) -> Vec<(rx::Fact, u64)> {
        let mut v = Vec::new();
        for w in 0..2 {
            for t in 0..3 {
                if let Some(time) = st.win[w][t] {
                    v.push(((ENT[self.triples()[t].0].to_string(), format!("{}p", self.comps[w]), ENT[self.triples()[t].1].to_string()), time + self.cfg.alpha[w]));
                }
            }
        }
        for t in self.statics() {
            v.push(((t.0.to_string(), format!("{}{}", self.comps[SGC], t.1), t.2.to_string()), rx::INF));
        }
        v
    }
}

/// (component, subject, local predicate, object)
type FactKey = (String, String, String, String);

fn show_exp(e: u64) -> String {
    if e == u64::MAX {
        "inf".to_string()
    } else {
        e.to_string()
    }
}

fn show_facts(m: &BTreeMap<FactKey, u64>) -> String {
    let v: Vec<String> = m.iter().map(|(k, e)| format!("{}:{}({},{})@{}", k.0, k.2, k.1, k.3, show_exp(*e))).collect();
    format!("[{}]", v.join(" "))
}

#[derive(Default, Clone)]
struct Flags {
    first: bool,
    third_or_later: bool,
    carried_alive: bool,
    carried_expired: bool,
    renewed_base: bool,
    new_base: bool,
    carried_over_fact: bool,
    derived_expiry_changed: bool,
    rederived_after_expiry: bool,
    derived_present: bool,
    derived_infinite: bool,
    two_window_fact: bool,
    seed_outlived: bool,
    listed_expired: bool,
    nontrivial: bool,
    shifted_start: bool,
    alpha_1_or_4: bool,
    static_undeclared: bool,
    /// the expected result has a fact in a component whose IRI extends another component's IRI
    fact_in_nested_component: bool,
    /// marks of the rule set that are present in the expected result
    marks: Vec<&'static str>,
    facts: u64,
}

struct Violation {
    symptom: &'static str,
    detail: String,
    tags: Vec<String>,
}

enum EvalErr {
    Violation(Violation),
    Machinery(String),
}

struct EvalOk {
    result: SdsWithExpiry,
    flags: Flags,
    expected: BTreeMap<FactKey, u64>,
}

/// the oracle's expected result; kept in one place so that it can be weakened for a detection demo
fn expected_result(env: &Env, st: &St) -> BTreeMap<FactKey, u64> {
    let fix = rx::fixpoint_alive(&env.ref_rules, &env.seeds(st), st.now);
    fix.into_iter()
        .map(|((s, p, o), e)| {
            let (comp, local) = env.reading(&p);
            ((comp, s, local, o), e)
        })
        .collect()
}

/// One `evaluate` on the real code at state `st`, compared with the reference.
fn evaluate(env: &Env, st: &St) -> Result<EvalOk, EvalErr> {
    let sds = env.build_sds(st);
    let id_before = env.dict.read().unwrap().next_id;
    let expected = expected_result(env, st);
    let seeds: BTreeMap<FactKey, u64> = env
        .seeds(st)
        .into_iter()
        .filter(|(_, e)| *e > st.now)
        .map(|((s, p, o), e)| {
            let (comp, local) = env.reading(&p);
            ((comp, s, local, o), e)
        })
        .collect();

    // old (carried) facts, lexical; a carried map is a previous, already checked result of the
    // subject, so every fact in it is filed under the component its predicate spells
    let mut old: BTreeMap<FactKey, u64> = BTreeMap::new();
    for (comp, m) in &st.carried {
        for (t, e) in m {
            let (_, local) = env.reading(&env.name(t.predicate));
            old.insert((comp.clone(), env.name(t.subject), local, env.name(t.object)), *e);
        }
    }

    let mut flags = Flags::default();
    flags.first = st.last_eval.is_none();
    flags.third_or_later = st.evals_done >= 2;
    flags.carried_alive = old.values().any(|e| *e > st.now);
    flags.carried_expired = old.values().any(|e| *e <= st.now);
    flags.renewed_base = seeds.iter().any(|(k, e)| old.get(k).map_or(false, |o| *o > st.now && *o < *e));
    flags.new_base = seeds.keys().any(|k| old.get(k).map_or(true, |o| *o <= st.now));
    flags.derived_present = expected.keys().any(|k| !seeds.contains_key(k));
    flags.derived_infinite = expected.iter().any(|(k, e)| !seeds.contains_key(k) && *e == u64::MAX);
    flags.carried_over_fact = expected.keys().any(|k| old.get(k).map_or(false, |o| *o > st.now));
    flags.derived_expiry_changed = expected.iter().any(|(k, e)| !seeds.contains_key(k) && old.get(k).map_or(false, |o| *o > st.now && *o != *e));
    flags.rederived_after_expiry = expected.keys().any(|k| !seeds.contains_key(k) && old.get(k).map_or(false, |o| *o <= st.now));
    flags.two_window_fact = (0..3).any(|t| st.win[0][t].is_some() && st.win[1][t].is_some());
    flags.seed_outlived = seeds.iter().any(|(k, e)| expected.get(k).map_or(false, |x| *x > *e));
    flags.listed_expired = env.seeds(st).iter().any(|(_, e)| *e <= st.now);
    flags.nontrivial = flags.carried_alive && flags.derived_present;
    flags.shifted_start = st.start != 0;
    flags.alpha_1_or_4 = env.cfg.alpha.iter().any(|a| *a == 1 || *a == 4);
    flags.static_undeclared = env.static_undeclared();
    flags.fact_in_nested_component = expected.keys().any(|k| env.inner_comps.iter().any(|i| env.comps[*i] == k.0));
    flags.marks = RULESETS[env.cfg.rs].marks.iter().filter(|(_, locals)| expected.keys().any(|k| locals.contains(&k.2.as_str()))).map(|(name, _)| *name).collect();
    flags.facts = expected.len() as u64;

    let mut tags = vec![
        format!("ruleset={}", RULESETS[env.cfg.rs].name),
        format!("alpha={},{}", env.cfg.alpha[0], env.cfg.alpha[1]),
        format!("static={}", env.cfg.stat as u8),
        format!("evict={}", if env.cfg.late { "late" } else { "exact" }),
        format!("iris={}", env.cfg.iris.name()),
        (if flags.first { "first_evaluation" } else { "later_evaluation" }).to_string(),
    ];
    if flags.carried_alive {
        tags.push("carried_alive_fact".into());
    }
    if flags.carried_expired {
        tags.push("carried_expired_fact".into());
    }
    if flags.renewed_base {
        tags.push("renewed_base_fact".into());
    }
    if flags.new_base {
        tags.push("new_base_fact".into());
    }
    if flags.listed_expired {
        tags.push("expired_fact_still_listed".into());
    }
    if flags.shifted_start {
        tags.push("start_time_nonzero".into());
    }
    if flags.static_undeclared {
        tags.push("static_graph_undeclared".into());
    }

    // ---- the real code
    let inc = match guarded(|| incremental_sds_plus(&env.rules, &sds, &st.carried, &env.dict, st.now)) {
        Ok(r) => r,
        Err(msg) => {
            return Err(EvalErr::Violation(Violation { symptom: "panic", detail: format!("incremental_sds_plus panicked: {}", msg), tags }));
        }
    };
    let naive = match guarded(|| naive_sds_plus(&env.rules, &sds, &env.dict, st.now)) {
        Ok(r) => r,
        Err(msg) => {
            tags.push("in=naive_sds_plus".into());
            return Err(EvalErr::Violation(Violation { symptom: "panic", detail: format!("naive_sds_plus panicked: {}", msg), tags }));
        }
    };
    // the read path the RSP engine uses on the maintained state (emit_cross_window_results):
    // per component, the facts with the component prefix stripped from the predicate
    let external = match guarded(|| sds_with_expiry_to_external(&inc, &env.dict, &all_component_iris(&sds))) {
        Ok(r) => r,
        Err(msg) => {
            tags.push("in=sds_with_expiry_to_external".into());
            return Err(EvalErr::Violation(Violation { symptom: "panic", detail: format!("sds_with_expiry_to_external panicked: {}", msg), tags }));
        }
    };
    let id_after = env.dict.read().unwrap().next_id;

    // ---- decode
    let mut got: BTreeMap<FactKey, u64> = BTreeMap::new();
    // facts filed under a component other than the one their predicate spells (sorted: the
    // subject's maps iterate in hash order, the report must be deterministic)
    let mut misfiled: BTreeSet<(String, String)> = BTreeSet::new();
    for (comp, m) in &inc {
        for (t, e) in m {
            let pred = env.name(t.predicate);
            let (true_comp, local) = env.reading(&pred);
            if true_comp != *comp {
                misfiled.insert((format!("{}({},{})", pred, env.name(t.subject), env.name(t.object)), format!("filed under {} instead of {}", comp, true_comp)));
                // shown with its full predicate: (wrong component, local) could coincide with a
                // rightly filed fact, and which of the two a map keeps would depend on hash order
                got.insert((comp.clone(), env.name(t.subject), format!("<{}>", pred), env.name(t.object)), *e);
                continue;
            }
            got.insert((comp.clone(), env.name(t.subject), local, env.name(t.object)), *e);
        }
    }
    let mut got_naive: BTreeSet<FactKey> = BTreeSet::new();
    for (comp, v) in &naive {
        for t in v {
            got_naive.insert((comp.clone(), env.name(t.subject), env.name(t.predicate), env.name(t.object)));
        }
    }

    // ---- compare: incremental against the reference
    let context = |what: String| format!("{} | now={} expected={} incremental={} carried={}", what, st.now, show_facts(&expected), show_facts(&got), show_facts(&old));
    if let Some((fact, how)) = misfiled.iter().next() {
        tags.push("in=incremental_sds_plus".into());
        return Err(EvalErr::Violation(Violation {
            symptom: "fact_under_wrong_component",
            detail: context(format!("{} is {} ({} facts misfiled)", fact, how, misfiled.len())),
            tags,
        }));
    }
    for k in expected.keys() {
        if !got.contains_key(k) {
            tags.push(format!("component={}", k.0));
            tags.push(format!("predicate={}", k.2));
            return Err(EvalErr::Violation(Violation { symptom: "missing_fact", detail: context(format!("{}:{}({},{}) is derivable from the alive facts but absent from the incremental result", k.0, k.2, k.1, k.3)), tags }));
        }
    }
    for k in got.keys() {
        if !expected.contains_key(k) {
            tags.push(format!("component={}", k.0));
            tags.push(format!("predicate={}", k.2));
            return Err(EvalErr::Violation(Violation { symptom: "extra_fact", detail: context(format!("{}:{}({},{}) is in the incremental result but not derivable from the alive facts", k.0, k.2, k.1, k.3)), tags }));
        }
    }
    for (k, e) in &expected {
        let g = got[k];
        if g != *e {
            tags.push(format!("component={}", k.0));
            tags.push(format!("predicate={}", k.2));
            let symptom = if g < *e { "expiry_too_low" } else { "expiry_too_high" };
            return Err(EvalErr::Violation(Violation {
                symptom,
                detail: context(format!("expiry of {}:{}({},{}) is {} but the latest time some derivation stays supported is {}", k.0, k.2, k.1, k.3, show_exp(g), show_exp(*e))),
                tags,
            }));
        }
    }
    // ---- compare: the real from-scratch computation against the reference (fact sets)
    let exp_set: BTreeSet<FactKey> = expected.keys().cloned().collect();
    if got_naive != exp_set {
        let missing: Vec<&FactKey> = exp_set.difference(&got_naive).collect();
        let extra: Vec<&FactKey> = got_naive.difference(&exp_set).collect();
        tags.push("in=naive_sds_plus".into());
        return Err(EvalErr::Violation(Violation {
            symptom: "naive_recomputation_differs",
            detail: format!("naive_sds_plus at now={} misses {:?} and has extra {:?}; expected {}", st.now, missing, extra, show_facts(&expected)),
            tags,
        }));
    }
    // ---- compare: the external view of the maintained state against the reference (fact sets)
    let mut got_external: BTreeSet<FactKey> = BTreeSet::new();
    for (comp, v) in &external {
        for t in v {
            got_external.insert((comp.clone(), env.name(t.subject), env.name(t.predicate), env.name(t.object)));
        }
    }
    if got_external != exp_set {
        let missing: Vec<&FactKey> = exp_set.difference(&got_external).collect();
        let extra: Vec<&FactKey> = got_external.difference(&exp_set).collect();
        tags.push("in=sds_with_expiry_to_external".into());
        return Err(EvalErr::Violation(Violation {
            symptom: "external_view_differs",
            detail: format!("the external view (sds_with_expiry_to_external over all_component_iris) of the incremental result at now={} misses {:?} and has extra {:?}; expected {}", st.now, missing, extra, show_facts(&expected)),
            tags,
        }));
    }
    // ---- the vocabulary must be closed (soundness of merging histories); only reached when the
    // results agree, so a defect that also encodes new strings is reported as the violation it is
    if id_after != id_before {
        return Err(EvalErr::Machinery(format!("dictionary grew from {} to {} during an evaluation: the vocabulary is not closed, ids may differ between merged histories", id_before, id_after)));
    }
    Ok(EvalOk { result: inc, flags, expected })
}

fn note_flags(out: &mut ShardOut, prefix: &str, f: &Flags) {
    let mut c = |name: &str, b: bool| {
        if b {
            out.count(&format!("{}evals_{}", prefix, name), 1);
        }
    };
    c("first_of_history", f.first);
    c("third_or_later_of_history", f.third_or_later);
    c("third_or_later_with_rederivation_after_expiry", f.third_or_later && f.rederived_after_expiry);
    c("third_or_later_with_renewed_base_fact", f.third_or_later && f.renewed_base);
    c("with_carried_alive_fact", f.carried_alive);
    c("with_carried_expired_fact", f.carried_expired);
    c("with_renewed_base_fact", f.renewed_base);
    c("with_new_base_fact", f.new_base);
    c("with_fact_carried_over", f.carried_over_fact);
    c("with_derived_fact_expiry_changed", f.derived_expiry_changed);
    c("with_derived_fact_rederived_after_expiry", f.rederived_after_expiry);
    c("with_derived_fact", f.derived_present);
    c("with_infinite_derived_fact", f.derived_infinite);
    c("with_same_triple_in_both_windows", f.two_window_fact);
    c("with_listed_fact_outlived_by_its_derivation", f.seed_outlived);
    c("with_expired_fact_still_listed", f.listed_expired);
    out.count(&format!("{}facts_compared", prefix), f.facts);
    // family counters, over all searches
    let mut g = |name: String, b: bool| {
        if b {
            out.count(&name, 1);
        }
    };
    g("evals_at_shifted_start".into(), f.shifted_start);
    g("evals_at_shifted_start_with_carried_alive_fact".into(), f.shifted_start && f.carried_alive);
    g("evals_at_shifted_start_with_renewed_base_fact".into(), f.shifted_start && f.renewed_base);
    g("evals_alpha_1_or_4".into(), f.alpha_1_or_4);
    g("evals_alpha_1_or_4_with_carried_alive_fact".into(), f.alpha_1_or_4 && f.carried_alive);
    g("evals_alpha_1_or_4_with_carried_expired_fact".into(), f.alpha_1_or_4 && f.carried_expired);
    g("evals_alpha_1_or_4_with_renewed_base_fact".into(), f.alpha_1_or_4 && f.renewed_base);
    g("evals_with_static_graph_undeclared".into(), f.static_undeclared);
    g("evals_with_fact_in_prefix_nested_component".into(), f.fact_in_nested_component);
    g("evals_with_fact_in_prefix_nested_component_and_carried_alive_fact".into(), f.fact_in_nested_component && f.carried_alive);
    for m in &f.marks {
        g(format!("evals_with_{}", m), true);
        // later evaluation in which only part of the alive facts is new: the delta is a strict subset
        g(format!("evals_with_{}_carried_alive_and_new_or_renewed_base", m), f.carried_alive && (f.new_base || f.renewed_base));
        g(format!("evals_with_{}_and_derived_expiry_changed", m), f.derived_expiry_changed);
    }
}

// ---------------------------------------------------------------- executing a history from scratch

struct HistoryResult {
    /// (index of the failing op, violation)
    failure: Option<(usize, Violation)>,
    machinery: Option<String>,
    evals: u64,
    /// per evaluate: relative result
    results: Vec<String>,
}

fn run_history(cfg: Cfg, start: u64, path: &[u8]) -> HistoryResult {
    let env = make_env(cfg);
    let mut st = St::initial_at(start);
    let mut res = HistoryResult { failure: None, machinery: None, evals: 0, results: vec![] };
    for (i, op) in path.iter().enumerate() {
        match *op {
            OP_EVAL => {
                if !st.eval_enabled() {
                    res.machinery = Some(format!("op {} is an evaluate at the time of the previous evaluation (outside the quantifier)", i));
                    return res;
                }
                res.evals += 1;
                match evaluate(&env, &st) {
                    Ok(ok) => {
                        res.results.push(format!("now={} {}", st.now, show_facts(&ok.expected)));
                        st.after_eval(ok.result);
                    }
                    Err(EvalErr::Violation(v)) => {
                        res.failure = Some((i, v));
                        return res;
                    }
                    Err(EvalErr::Machinery(m)) => {
                        res.machinery = Some(m);
                        return res;
                    }
                }
            }
            o if o < N_OPS_BFS => st.apply_plain(&cfg, o),
            o => {
                res.machinery = Some(format!("op {} has the unknown code {}", i, o));
                return res;
            }
        }
    }
    res
}

fn record_failure(out: &mut ShardOut, cfg: Cfg, start: u64, path: &[u8], v: Violation) {
    // determinism before verdict: the same history once more from scratch, fresh dictionary
    let again = run_history(cfg, start, path);
    match again.failure {
        Some((step, v2)) if step == path.len() - 1 && v2.symptom == v.symptom && v2.detail == v.detail => {
            let mut tags = v.tags;
            tags.push(format!("history_evaluations={}", again.evals.min(3)));
            out.fail(case_json(&cfg, start, path), v.symptom, v.detail, tags);
        }
        other => {
            out.machinery_errors.push(format!(
                "non-deterministic re-execution of {}: first run {} / {}, second run {:?}",
                case_json(&cfg, start, path),
                v.symptom,
                v.detail,
                other.map(|(s, v2)| (s, v2.symptom, v2.detail))
            ));
        }
    }
}

/// Executes a seeded prefix on the real code (every evaluate in it is checked like any other).
/// None: the prefix itself failed (recorded) or hit a machinery problem (recorded).
fn run_prefix(env: &Env, start: u64, prefix: &[u8], out: &mut ShardOut) -> Option<St> {
    let mut st = St::initial_at(start);
    for (i, op) in prefix.iter().enumerate() {
        if *op != OP_EVAL {
            st.apply_plain(&env.cfg, *op);
            continue;
        }
        if !st.eval_enabled() {
            out.machinery_errors.push(format!("seeded prefix {} has a disabled evaluate at op {}", ops_json(prefix), i));
            return None;
        }
        out.evaluations += 1;
        out.traces += 1;
        out.count("prefix_evaluations", 1);
        match evaluate(env, &st) {
            Ok(ok) => {
                note_flags(out, "prefix_", &ok.flags);
                st.after_eval(ok.result);
            }
            Err(EvalErr::Violation(v)) => {
                record_failure(out, env.cfg, start, &prefix[..=i], v);
                return None;
            }
            Err(EvalErr::Machinery(m)) => {
                out.machinery_errors.push(format!("{}: {}", case_json(&env.cfg, start, &prefix[..=i]), m));
                return None;
            }
        }
    }
    Some(st)
}

// ---------------------------------------------------------------- searches

/// De-duplicated BFS over the continuations (up to `depth` further ops) of the state `st0` that the
/// history `prefix` reached. `tag` prefixes the counters ("bfs_" from the empty history, "sbfs_" seeded).
fn bfs(env: &Env, st0: St, prefix: &[u8], depth: usize, out: &mut ShardOut, ctx: &Ctx, cfg_index: usize, tag: &str) {
    let cfg = env.cfg;
    let start = st0.start;
    let base = prefix.len();
    let mut seen: HashSet<(u64, u64)> = HashSet::new();
    let mut frontier: VecDeque<(St, Vec<u8>)> = VecDeque::new();
    seen.insert(fp128(&rel_key(&st0)));
    out.states += 1;
    frontier.push_back((st0, prefix.to_vec()));
    let mut completed_depth = 0usize;
    while let Some((st, path)) = frontier.pop_front() {
        if path.len() - base >= depth {
            continue;
        }
        if ctx.expired() {
            out.capped.push(format!(
                "wall-clock cap hit in the BFS of configuration {} from prefix {} (start {}) at depth {} (all continuations of length <= {} were completed; depth bound {})",
                cfg_json(&cfg),
                ops_json(prefix),
                start,
                path.len() - base + 1,
                completed_depth,
                depth
            ));
            out.count(&format!("{}searches_capped", tag), 1);
            return;
        }
        completed_depth = path.len() - base;
        for op in 0..N_OPS_BFS {
            let mut st2 = st.clone();
            let mut p2 = path.clone();
            p2.push(op);
            if op == OP_EVAL {
                if !st.eval_enabled() {
                    out.count(&format!("{}evaluate_disabled", tag), 1);
                    continue;
                }
                out.evaluations += 1;
                out.traces += 1;
                let pre_key = fp128(&rel_key(&st));
                match evaluate(env, &st) {
                    Ok(ok) => {
                        note_flags(out, tag, &ok.flags);
                        if ok.flags.nontrivial {
                            out.nontrivial(&(cfg_index, pre_key));
                        }
                        let rel_result = rel_map(&ok.result, st.now);
                        out.outcome(&(cfg_index, &rel_result));
                        if ok.flags.nontrivial && ok.flags.derived_expiry_changed && (base > 0 || cfg_index % 5 == 0) {
                            out.sample(json!({"case": case_json(&cfg, start, &p2), "now": st.now, "result": show_facts(&ok.expected)}));
                        }
                        st2.after_eval(ok.result);
                    }
                    Err(EvalErr::Violation(v)) => {
                        out.transitions += 1;
                        record_failure(out, cfg, start, &p2, v);
                        continue; // a wrong state is not explored further
                    }
                    Err(EvalErr::Machinery(m)) => {
                        out.machinery_errors.push(format!("{}: {}", case_json(&cfg, start, &p2), m));
                        return;
                    }
                }
            } else {
                st2.apply_plain(&cfg, op);
                if op == OP_FLUSH {
                    out.count(&format!("{}flush_transitions", tag), 1);
                }
            }
            out.transitions += 1;
            if !seen.insert(fp128(&rel_key(&st2))) {
                out.count("dedup_hits", 1);
                continue;
            }
            out.states += 1;
            out.max_depth = out.max_depth.max(p2.len() as u64);
            out.max("max_evaluations_in_one_history", st2.evals_done as u64);
            if p2.len() - base < depth {
                // states at the depth bound are counted and were checked, but never expanded
                frontier.push_back((st2, p2));
            }
        }
    }
    out.count(&format!("{}searches_completed", tag), 1);
}

/// plain tree search, no de-duplication of any kind, over the continuations of `st` (reached by
/// the first `base` ops of `path`) up to `depth` further ops
fn tree(env: &Env, st: &St, path: &mut Vec<u8>, base: usize, depth: usize, out: &mut ShardOut, ctx: &Ctx, tag: &str) -> bool {
    if path.len() - base >= depth {
        return true;
    }
    if ctx.expired() {
        return false;
    }
    let cfg = env.cfg;
    for op in 0..N_OPS_TREE {
        let mut st2 = st.clone();
        path.push(op);
        let mut descend = true;
        if op == OP_EVAL {
            if !st.eval_enabled() {
                descend = false;
            } else {
                out.evaluations += 1;
                out.traces += 1;
                out.count(&format!("{}evaluations", tag), 1);
                match evaluate(env, st) {
                    Ok(ok) => {
                        note_flags(out, tag, &ok.flags);
                        st2.after_eval(ok.result);
                        out.max("max_evaluations_in_one_history", st2.evals_done as u64);
                    }
                    Err(EvalErr::Violation(v)) => {
                        record_failure(out, cfg, st.start, path, v);
                        descend = false;
                    }
                    Err(EvalErr::Machinery(m)) => {
                        out.machinery_errors.push(format!("{}: {}", case_json(&cfg, st.start, path), m));
                        path.pop();
                        return false;
                    }
                }
            }
        } else {
            st2.apply_plain(&cfg, op);
        }
        if descend {
            out.count(&format!("{}nodes", tag), 1);
            if !tree(env, &st2, path, base, depth, out, ctx, tag) {
                path.pop();
                return false;
            }
        }
        path.pop();
    }
    true
}

fn run(ctx: &Ctx) -> ShardOut {
    let mut out = ShardOut::default();
    // thorough: the 128 configurations of the first round (first 8 rule sets, prefix-free IRIs,
    // alpha in {2,3}) keep depth 9 / 6; the 160 later ones get 8 / 5, so that the tier stays inside
    // its wall-clock cap
    let (seed_bfs_depth, seed_tree_depth) = if ctx.thorough() { (4, 4) } else { (3, 3) };
    let depths = |cfg: &Cfg| -> (usize, usize) {
        let first_round = cfg.rs < 8 && cfg.iris == Iris::Plain && cfg.alpha.iter().all(|a| *a == 2 || *a == 3);
        match (ctx.thorough(), first_round) {
            (false, _) => (6, 4),
            (true, true) => (9, 6),
            (true, false) => (8, 5),
        }
    };
    out.max("max_bfs_depth_bound", if ctx.thorough() { 9 } else { 6 });
    out.max("max_tree_depth_bound", if ctx.thorough() { 6 } else { 4 });
    out.max("max_seeded_bfs_depth_bound", seed_bfs_depth as u64);
    out.max("max_seeded_tree_depth_bound", seed_tree_depth as u64);
    let cfgs = configs();
    let prefixes = seed_prefixes();
    out.max("max_configurations", cfgs.len() as u64);
    // tree searches first (small), then the BFSs of every configuration of this shard
    'trees: for (i, cfg) in cfgs.iter().enumerate() {
        if !ctx.mine(i as u64) {
            continue;
        }
        let env = make_env(*cfg);
        let mut path = Vec::new();
        if !tree(&env, &St::initial_at(STARTS[0]), &mut path, 0, depths(cfg).1, &mut out, ctx, "tree_") {
            if out.machinery_errors.is_empty() {
                out.capped.push(format!("wall-clock cap hit in the tree search of configuration {}", cfg_json(cfg)));
            }
            break 'trees;
        }
        for (k, (_, prefix)) in prefixes.iter().enumerate() {
            let start = STARTS[1 + k % 2];
            let st = match run_prefix(&env, start, prefix, &mut out) {
                Some(st) => st,
                None => continue,
            };
            let mut path = prefix.clone();
            if !tree(&env, &st, &mut path, prefix.len(), seed_tree_depth, &mut out, ctx, "stree_") {
                if out.machinery_errors.is_empty() {
                    out.capped.push(format!("wall-clock cap hit in the seeded tree search of configuration {} from prefix {}", cfg_json(cfg), ops_json(prefix)));
                }
                break 'trees;
            }
            out.count("stree_searches_completed", 1);
        }
    }
    for (i, cfg) in cfgs.iter().enumerate() {
        if !ctx.mine(i as u64) || !out.machinery_errors.is_empty() {
            continue;
        }
        if let Some(p) = &ctx.progress {
            p.mark(&cfg_json(cfg).to_string());
        }
        let env = make_env(*cfg);
        bfs(&env, St::initial_at(STARTS[0]), &[], depths(cfg).0, &mut out, ctx, i, "bfs_");
        for (k, (name, prefix)) in prefixes.iter().enumerate() {
            if !out.machinery_errors.is_empty() {
                break;
            }
            // the other shifted start time than the seeded tree of the same prefix
            let start = STARTS[2 - k % 2];
            if let Some(st) = run_prefix(&env, start, prefix, &mut out) {
                out.count(&format!("seed_{}_reached_with_carried_alive_fact", name), st.carried.values().any(|m| m.values().any(|e| *e > st.now)) as u64);
                out.count(&format!("seed_{}_reached_with_only_expired_carried_facts", name), (!st.carried.is_empty() && st.carried.values().all(|m| m.values().all(|e| *e <= st.now))) as u64);
                bfs(&env, st, prefix, seed_bfs_depth, &mut out, ctx, i, "sbfs_");
            }
        }
    }
    out
}

fn replay(_ctx: &Ctx, case: &Value) -> ShardOut {
    let mut out = ShardOut::default();
    let cfg = match parse_cfg(&case["config"]) {
        Some(c) => c,
        None => {
            out.machinery_errors.push(format!("replay: cannot read configuration from {}", case));
            return out;
        }
    };
    // cases recorded before the start-time dimension existed have no "start" member: 0
    let start = match case.get("start") {
        None | Some(Value::Null) => 0,
        Some(v) => match v.as_u64() {
            Some(s) if s <= (1u64 << 60) => s,
            _ => {
                out.machinery_errors.push(format!("replay: unusable start time {}", v));
                return out;
            }
        },
    };
    let mut path = Vec::new();
    for v in case["ops"].as_array().cloned().unwrap_or_default() {
        match v.as_str().and_then(parse_op) {
            Some(o) => path.push(o),
            None => {
                out.machinery_errors.push(format!("replay: unknown op {}", v));
                return out;
            }
        }
    }
    let r = run_history(cfg, start, &path);
    out.evaluations = r.evals;
    out.traces = 1;
    for (i, line) in r.results.iter().enumerate() {
        out.sample(json!({"evaluation": i, "agreed_result": line}));
    }
    if let Some(m) = r.machinery {
        out.machinery_errors.push(m);
    }
    if let Some((step, v)) = r.failure {
        let mut tags = v.tags;
        tags.push(format!("history_evaluations={}", r.evals.min(3)));
        out.fail(case_json(&cfg, start, &path[..=step]), v.symptom, v.detail, tags);
    }
    out
}
