//! E-sched, harness side: run a closure under the baton scheduler of hook H1
//! (kolibrie::verif_sched) with a given schedule prefix and return the recorded trace.
use kolibrie::verif_sched as vs;

#[derive(Clone, Debug)]
pub struct Point {
    pub enabled: usize,
    pub running_still_enabled: bool,
    pub chosen: usize,
}

#[derive(Clone, Debug, Default)]
pub struct Trace {
    pub points: Vec<Point>,
    pub choices: Vec<usize>,
}

impl Trace {
    /// number of preemptions among the first `i` decisions: a switch away from a thread that
    /// could have continued
    pub fn preemptions_before(&self, i: usize) -> usize {
        self.points[..i.min(self.points.len())].iter().filter(|p| p.running_still_enabled && p.chosen != 0).count()
    }
}

pub fn available() -> bool {
    true
}

/// Run `f` on the calling thread as thread 0 of a controlled session. `Err` carries a deadlock,
/// a diverged prefix, or a stuck scheduler.
pub fn run_controlled(prefix: &[usize], f: impl FnOnce()) -> Result<Trace, String> {
    vs::session_begin(prefix);
    let r = std::panic::catch_unwind(std::panic::AssertUnwindSafe(f));
    let t = vs::session_end();
    if let Err(e) = r {
        std::panic::resume_unwind(e);
    }
    if let Some(e) = t.error {
        return Err(e);
    }
    Ok(Trace { points: t.points.iter().map(|p| Point { enabled: p.enabled, running_still_enabled: p.running_still_enabled, chosen: p.chosen }).collect(), choices: t.choices })
}

/// Thread 0 waits until every other registered thread is blocked on an empty channel or done.
pub fn main_wait_quiescent() {
    vs::wait_quiescent();
}

/// Stateless depth-first exploration of schedules with iterative preemption bounding: `run` executes
/// the program once under the given choice prefix (default choices afterwards) and returns the
/// recorded trace (None = the execution could not be used, e.g. it failed; alternatives of it are not
/// expanded). Every alternative choice whose preemption cost stays within `bound` is explored.
/// Returns the number of executions.
pub fn dfs(bound: usize, mut stop: impl FnMut() -> bool, mut run: impl FnMut(&[usize]) -> Option<Trace>) -> u64 {
    let mut stack: Vec<Vec<usize>> = vec![vec![]];
    let mut n = 0u64;
    while let Some(prefix) = stack.pop() {
        if stop() {
            break;
        }
        n += 1;
        let Some(trace) = run(&prefix) else { continue };
        for i in prefix.len()..trace.points.len() {
            let p = &trace.points[i];
            let mut cost = trace.preemptions_before(i);
            if p.running_still_enabled {
                cost += 1;
            }
            if cost > bound {
                continue;
            }
            for alt in 1..p.enabled {
                let mut np: Vec<usize> = trace.choices[..i].to_vec();
                np.push(alt);
                stack.push(np);
            }
        }
    }
    n
}
