//! Exploration engines. E-seq / E-in / E-fault are small enough to live inside the property
//! modules; the schedule explorer (E-sched) has a subject side (hook H1) and this harness side.
pub mod sched;
