//! Exploration engines (E-seq, E-in helpers, E-fault, E-sched).
