//! R-update: SPARQL 1.1 Update semantics of the six supported forms on the abstract dataset,
//! using R-sparql for WHERE. Never calls Kolibrie code.
use super::sparql_ast::*;
use super::sparql_eval::{eval_group, Dataset, Mu, View};
use std::collections::{BTreeMap, BTreeSet};

pub type Quad4 = (String, String, String, String); // graph "" = default

#[derive(Clone, Debug, Default, PartialEq, Eq)]
pub struct Effect {
    pub inserted: usize,
    pub deleted: usize,
}

fn is_bnode(v: &str) -> bool {
    v.starts_with("_:")
}

/// `scheme:` prefix as in RFC 3986: the lexical form of an ABSOLUTE IRI.
pub fn is_iri_like(v: &str) -> bool {
    match v.split_once(':') {
        None => false,
        Some((scheme, _)) => {
            let mut cs = scheme.chars();
            cs.next().map_or(false, |c| c.is_ascii_alphabetic()) && cs.all(|c| c.is_ascii_alphanumeric() || matches!(c, '+' | '-' | '.'))
        }
    }
}

/// The RELATIVE IRIs of the update universe: legal IRIREFs (`<k>`) whose lexical form carries no
/// scheme. No request of the universe has a BASE, so they are kept as written. The bare lexical
/// value model cannot tell them from a literal by their look, so the reference knows them by
/// name; the lexical spaces of IRIs and literals are disjoint by construction (no literal of the
/// universe is spelled like one of these, see `ugen::lexical_spaces_disjoint`).
pub const RELATIVE_IRIS: [&str; 1] = ["k"];

pub fn is_relative_iri(v: &str) -> bool {
    RELATIVE_IRIS.contains(&v)
}

/// term kind of a lexical value: IRI (absolute, or one of the relative IRIs of the universe)
pub fn is_iri(v: &str) -> bool {
    is_iri_like(v) || is_relative_iri(v)
}

// Legality of an instantiated template term depends on the KIND of the bound term only (RDF:
// subject = IRI or blank node, predicate = IRI, graph name = IRI), never on the store.
fn legal_subject(v: &str) -> bool {
    is_bnode(v) || is_iri(v)
}
fn legal_predicate(v: &str) -> bool {
    !is_bnode(v) && is_iri(v)
}
fn legal_graph(v: &str) -> bool {
    !is_bnode(v) && is_iri(v)
}

fn remove_quad(ds: &mut Dataset, q: &Quad4) -> bool {
    if q.3.is_empty() {
        ds.default.remove(&(q.0.clone(), q.1.clone(), q.2.clone()))
    } else {
        match ds.named.get_mut(&q.3) {
            Some(g) => g.remove(&(q.0.clone(), q.1.clone(), q.2.clone())),
            None => false,
        }
    }
}

fn insert_quad(ds: &mut Dataset, q: &Quad4) -> bool {
    if q.3.is_empty() {
        ds.default.insert((q.0.clone(), q.1.clone(), q.2.clone()))
    } else {
        ds.named.entry(q.3.clone()).or_default().insert((q.0.clone(), q.1.clone(), q.2.clone()))
    }
}

struct BnodeAlloc {
    next: usize,
}

/// template position whose legality depends on the kind of the term put there
#[derive(Clone, Copy, Debug, PartialEq, Eq, PartialOrd, Ord, Hash)]
pub enum Pos {
    Subject,
    Predicate,
    Graph,
}

impl Pos {
    pub fn name(&self) -> &'static str {
        match self {
            Pos::Subject => "subject",
            Pos::Predicate => "predicate",
            Pos::Graph => "graph",
        }
    }
}

/// one quad produced by (solution, template quad), with the subject / predicate / graph positions
/// that were filled through a VARIABLE and the value put there
#[derive(Clone, Debug)]
struct Derivation {
    quad: Quad4,
    via_var: Vec<(Pos, String)>,
}

fn instantiate(templates: &[QuadT], sols: &[Mu], alloc: &mut BnodeAlloc, insert: bool) -> Result<Vec<Derivation>, String> {
    let mut out = Vec::new();
    for mu in sols {
        let mut local: BTreeMap<String, String> = BTreeMap::new();
        for qt in templates {
            let mut term = |t: &T| -> Result<Option<String>, String> {
                match t {
                    T::Var(n) => Ok(mu.get(n).cloned()),
                    T::Bnode(l) => {
                        if !insert {
                            return Err("blank node in DELETE template".into());
                        }
                        Ok(Some(
                            local
                                .entry(l.clone())
                                .or_insert_with(|| {
                                    alloc.next += 1;
                                    format!("_:ref{}", alloc.next)
                                })
                                .clone(),
                        ))
                    }
                    other => Ok(Some(other.lexical())),
                }
            };
            let (Some(s), Some(p), Some(o)) = (term(&qt.t.s)?, term(&qt.t.p)?, term(&qt.t.o)?) else {
                continue; // unbound variable: this quad is skipped for this solution
            };
            let mut via_var = Vec::new();
            // illegal triples are skipped (SPARQL Update §3.1.3)
            if qt.t.s.is_var() {
                if !legal_subject(&s) {
                    continue;
                }
                via_var.push((Pos::Subject, s.clone()));
            }
            if qt.t.p.is_var() {
                if !legal_predicate(&p) {
                    continue;
                }
                via_var.push((Pos::Predicate, p.clone()));
            }
            let g = match &qt.g {
                None => String::new(),
                Some(T::Var(n)) => match mu.get(n) {
                    Some(v) if legal_graph(v) => {
                        via_var.push((Pos::Graph, v.clone()));
                        v.clone()
                    }
                    _ => continue,
                },
                Some(other) => other.lexical(),
            };
            out.push(Derivation { quad: (s, p, o, g), via_var });
        }
    }
    Ok(out)
}

fn has_var(quads: &[QuadT]) -> bool {
    quads.iter().any(|q| q.t.s.is_var() || q.t.p.is_var() || q.t.o.is_var() || q.g.as_ref().map_or(false, |g| g.is_var()))
}
fn has_bnode(quads: &[QuadT]) -> bool {
    quads.iter().any(|q| matches!(q.t.s, T::Bnode(_)) || matches!(q.t.o, T::Bnode(_)))
}

/// deletions and insertions of one request, every derivation kept
struct Plan {
    dels: Vec<Derivation>,
    ins: Vec<Derivation>,
}

/// `Err` = the request must be rejected.
fn plan(ds: &Dataset, u: &Update, bnode_seed: usize) -> Result<Plan, String> {
    let mut alloc = BnodeAlloc { next: bnode_seed * 1000 };
    Ok(match u {
        Update::InsertData(q) => {
            if has_var(q) {
                return Err("variable in INSERT DATA".into());
            }
            Plan { dels: Vec::new(), ins: instantiate(q, &[Mu::new()], &mut alloc, true)? }
        }
        Update::DeleteData(q) => {
            if has_var(q) || has_bnode(q) {
                return Err("variable or blank node in DELETE DATA".into());
            }
            Plan { dels: instantiate(q, &[Mu::new()], &mut alloc, false)?, ins: Vec::new() }
        }
        Update::Modify { delete, insert, pattern } => {
            if delete.as_ref().map_or(false, |d| has_bnode(d)) {
                return Err("blank node in DELETE template".into());
            }
            // the WHERE pattern is evaluated once, on the pre-operation dataset
            let view = View::of(ds, &[], &[]);
            let sols = eval_group(pattern, &view, None)?;
            let dels = match delete {
                Some(d) => instantiate(d, &sols, &mut alloc, false)?,
                None => Vec::new(),
            };
            let ins = match insert {
                Some(i) => instantiate(i, &sols, &mut alloc, true)?,
                None => Vec::new(),
            };
            Plan { dels, ins }
        }
        Update::DeleteWhere(q) => {
            if has_bnode(q) {
                return Err("blank node in DELETE WHERE".into());
            }
            // the quad block is both the template and the WHERE pattern
            let mut elems = Vec::new();
            let mut i = 0;
            while i < q.len() {
                let g = &q[i].g;
                let mut j = i;
                let mut ts = Vec::new();
                while j < q.len() && &q[j].g == g {
                    ts.push(q[j].t.clone());
                    j += 1;
                }
                match g {
                    None => elems.push(Elem::Triples(ts)),
                    Some(gt) => elems.push(Elem::Graph(gt.clone(), Group(vec![Elem::Triples(ts)]))),
                }
                i = j;
            }
            let view = View::of(ds, &[], &[]);
            let sols = eval_group(&Group(elems), &view, None)?;
            Plan { dels: instantiate(q, &sols, &mut alloc, false)?, ins: Vec::new() }
        }
    })
}

/// Apply one update request. `Err` = the request must be rejected and the dataset stay as is.
pub fn apply(ds: &Dataset, u: &Update, bnode_seed: usize) -> Result<(Dataset, Effect), String> {
    let pl = plan(ds, u, bnode_seed)?;
    // sets: all deletions are applied before all insertions
    let dels: BTreeSet<Quad4> = pl.dels.into_iter().map(|d| d.quad).collect();
    let ins: BTreeSet<Quad4> = pl.ins.into_iter().map(|d| d.quad).collect();
    let mut out = ds.clone();
    let mut eff = Effect::default();
    for q in &dels {
        if remove_quad(&mut out, q) {
            eff.deleted += 1;
        }
    }
    for q in &ins {
        if insert_quad(&mut out, q) {
            eff.inserted += 1;
        }
    }
    Ok((out, eff))
}

// ---------------------------------------------------------------------------------------
// structural facts about a transition: relative IRIs put into subject / predicate / graph
// position through a template variable (vacuity counters and failure tags of C03)
// ---------------------------------------------------------------------------------------

/// A template variable bound to a relative IRI, instantiated in subject / predicate / graph
/// position of a template quad (one entry per distinct (template kind, position, IRI)).
#[derive(Clone, Debug, PartialEq, Eq, PartialOrd, Ord)]
pub struct RelBinding {
    /// INSERT template (false = DELETE template / DELETE WHERE block)
    pub insert: bool,
    pub pos: Pos,
    pub iri: String,
    /// the IRI occurs in that position in some quad of the pre-operation dataset (graph position:
    /// it names a graph of the pre-operation dataset, possibly an empty one)
    pub present: bool,
    /// the IRI names a graph of the pre-operation dataset (possibly an empty one)
    pub names_graph: bool,
    /// it occurs there in the pre-operation dataset (graph position: the graph holds a quad) and
    /// no longer once the deletions of this same operation are applied
    pub last_occurrence_deleted: bool,
}

#[derive(Clone, Debug, Default)]
pub struct RelReport {
    pub bindings: Vec<RelBinding>,
    /// quads this operation adds to the dataset ALL of whose derivations put, through a variable, a
    /// relative IRI into a position where the pre-operation dataset does not have it (and which
    /// does not name a pre-operation graph either)
    pub inserts_only_via_unseen: BTreeSet<Quad4>,
}

fn occurs(ds: &Dataset, pos: Pos, iri: &str) -> bool {
    match pos {
        Pos::Subject => ds.default.iter().chain(ds.named.values().flatten()).any(|t| t.0 == iri),
        Pos::Predicate => ds.default.iter().chain(ds.named.values().flatten()).any(|t| t.1 == iri),
        Pos::Graph => ds.named.get(iri).map_or(false, |g| !g.is_empty()),
    }
}

/// `None` = the request is rejected by the reference.
pub fn relative_iri_bindings(ds: &Dataset, u: &Update) -> Option<RelReport> {
    let pl = plan(ds, u, 1).ok()?;
    let mut after_dels = ds.clone();
    for d in &pl.dels {
        remove_quad(&mut after_dels, &d.quad);
    }
    let fact = |insert: bool, pos: Pos, iri: &str| -> RelBinding {
        let names_graph = ds.named.contains_key(iri);
        let present = if pos == Pos::Graph { names_graph } else { occurs(ds, pos, iri) };
        RelBinding { insert, pos, iri: iri.to_string(), present, names_graph, last_occurrence_deleted: occurs(ds, pos, iri) && !occurs(&after_dels, pos, iri) }
    };
    let mut set: BTreeSet<RelBinding> = BTreeSet::new();
    for (insert, ders) in [(false, &pl.dels), (true, &pl.ins)] {
        for d in ders {
            for (pos, v) in &d.via_var {
                if is_relative_iri(v) {
                    set.insert(fact(insert, *pos, v));
                }
            }
        }
    }
    // quads added to the dataset whose every derivation goes through an unseen relative IRI
    let unseen = |d: &Derivation| d.via_var.iter().any(|(pos, v)| is_relative_iri(v) && { let f = fact(true, *pos, v); !f.present && !f.names_graph });
    let mut only: BTreeSet<Quad4> = pl.ins.iter().filter(|d| unseen(d)).map(|d| d.quad.clone()).collect();
    for d in &pl.ins {
        if !unseen(d) {
            only.remove(&d.quad);
        }
    }
    if !only.is_empty() {
        let kept = after_dels.quads();
        only.retain(|q| !kept.contains(q));
    }
    Some(RelReport { bindings: set.into_iter().collect(), inserts_only_via_unseen: only })
}

pub fn selftest() -> Vec<String> {
    let mut errs = Vec::new();
    let v = |n: &str| T::var(n);
    let i = |n: &str| T::iri(n);
    let q = |s: T, p: T, o: T| QuadT { g: None, t: tp(s, p, o) };
    let mut ds = Dataset::default();
    ds.default.insert(("x:a".into(), "x:p".into(), "x:b".into()));
    ds.default.insert(("x:b".into(), "x:p".into(), "x:c".into()));
    // swap: single pre-state evaluation, deletes before inserts
    let swap = Update::Modify {
        delete: Some(vec![q(v("s"), i("x:p"), v("o"))]),
        insert: Some(vec![q(v("o"), i("x:p"), v("s"))]),
        pattern: Group(vec![Elem::Triples(vec![tp(v("s"), i("x:p"), v("o"))])]),
    };
    match apply(&ds, &swap, 1) {
        Ok((d2, eff)) => {
            let want: BTreeSet<_> = [("x:b".to_string(), "x:p".to_string(), "x:a".to_string()), ("x:c".to_string(), "x:p".to_string(), "x:b".to_string())].into_iter().collect();
            if d2.default != want || eff != (Effect { inserted: 2, deleted: 2 }) {
                errs.push(format!("update selftest swap: {:?} {:?}", d2.default, eff));
            }
        }
        Err(e) => errs.push(format!("update selftest swap rejected: {}", e)),
    }
    // blank nodes: fresh per solution, shared inside one solution
    let bn = Update::Modify {
        delete: None,
        insert: Some(vec![q(v("s"), i("x:q"), T::Bnode("n".into())), q(T::Bnode("n".into()), i("x:q"), v("o"))]),
        pattern: Group(vec![Elem::Triples(vec![tp(v("s"), i("x:p"), v("o"))])]),
    };
    match apply(&ds, &bn, 1) {
        Ok((d2, eff)) => {
            let bnodes: BTreeSet<_> = d2.default.iter().filter(|t| t.2.starts_with("_:")).map(|t| t.2.clone()).collect();
            if eff.inserted != 4 || bnodes.len() != 2 {
                errs.push(format!("update selftest bnodes: {:?} {:?}", d2.default, eff));
            }
        }
        Err(e) => errs.push(format!("update selftest bnodes rejected: {}", e)),
    }
    // literal subject through a variable is skipped; unbound variable is skipped
    let mut ds2 = Dataset::default();
    ds2.default.insert(("x:a".into(), "x:p".into(), "1".into()));
    let lit = Update::Modify {
        delete: None,
        insert: Some(vec![q(v("o"), i("x:p"), v("s")), q(v("s"), i("x:p"), v("nb"))]),
        pattern: Group(vec![Elem::Triples(vec![tp(v("s"), i("x:p"), v("o"))])]),
    };
    match apply(&ds2, &lit, 1) {
        Ok((d2, eff)) => {
            if d2 != ds2 || eff.inserted != 0 {
                errs.push(format!("update selftest literal-subject: {:?}", d2.default));
            }
        }
        Err(e) => errs.push(format!("update selftest literal-subject rejected: {}", e)),
    }
    // rejected requests
    if apply(&ds, &Update::InsertData(vec![q(v("s"), i("x:p"), i("x:b"))]), 1).is_ok() {
        errs.push("update selftest: variable in INSERT DATA accepted".into());
    }
    if apply(&ds, &Update::DeleteData(vec![q(T::Bnode("b".into()), i("x:p"), i("x:b"))]), 1).is_ok() {
        errs.push("update selftest: bnode in DELETE DATA accepted".into());
    }
    // DELETE WHERE on a named graph
    let mut ds3 = Dataset::default();
    ds3.named.entry("x:g".into()).or_default().insert(("x:a".into(), "x:p".into(), "x:b".into()));
    ds3.default.insert(("x:a".into(), "x:p".into(), "x:b".into()));
    let dw = Update::DeleteWhere(vec![QuadT { g: Some(i("x:g")), t: tp(v("s"), i("x:p"), v("o")) }]);
    match apply(&ds3, &dw, 1) {
        Ok((d2, eff)) => {
            if eff.deleted != 1 || d2.default.len() != 1 || !d2.named["x:g"].is_empty() {
                errs.push(format!("update selftest delete-where: {:?}", d2));
            }
        }
        Err(e) => errs.push(format!("update selftest delete-where rejected: {}", e)),
    }
    // template variable in predicate / graph position: an IRI is legal, a literal and a blank
    // node are illegal and skipped for that solution
    let mut ds4 = Dataset::default();
    ds4.default.insert(("x:a".into(), "x:p".into(), "x:b".into()));
    ds4.default.insert(("x:a".into(), "x:p".into(), "1".into()));
    ds4.default.insert(("x:a".into(), "x:p".into(), "_:n1".into()));
    let vp = Update::Modify {
        delete: None,
        insert: Some(vec![q(v("s"), v("o"), v("s")), QuadT { g: Some(v("o")), t: tp(v("s"), i("x:p"), v("s")) }]),
        pattern: Group(vec![Elem::Triples(vec![tp(v("s"), i("x:p"), v("o"))])]),
    };
    match apply(&ds4, &vp, 1) {
        Ok((d2, eff)) => {
            let want_named: BTreeSet<_> = [("x:a".to_string(), "x:p".to_string(), "x:a".to_string())].into_iter().collect();
            if eff != (Effect { inserted: 2, deleted: 0 })
                || !d2.default.contains(&("x:a".to_string(), "x:b".to_string(), "x:a".to_string()))
                || d2.default.len() != 4
                || d2.named.len() != 1
                || d2.named.get("x:b") != Some(&want_named)
            {
                errs.push(format!("update selftest variable predicate/graph: {:?} {:?}", d2, eff));
            }
        }
        Err(e) => errs.push(format!("update selftest variable predicate/graph rejected: {}", e)),
    }
    // an unbound variable in a DELETE template is not a wildcard; unbound graph / subject skipped
    let ub = Update::Modify {
        delete: Some(vec![q(v("s"), i("x:p"), v("nb")), QuadT { g: Some(v("nb")), t: tp(v("s"), i("x:p"), v("o")) }]),
        insert: Some(vec![q(v("nb"), i("x:p"), v("s")), q(v("s"), v("nb"), v("o"))]),
        pattern: Group(vec![Elem::Triples(vec![tp(v("s"), i("x:p"), v("o"))])]),
    };
    match apply(&ds4, &ub, 1) {
        Ok((d2, eff)) => {
            if d2 != ds4 || eff != Effect::default() {
                errs.push(format!("update selftest unbound template variables: {:?} {:?}", d2, eff));
            }
        }
        Err(e) => errs.push(format!("update selftest unbound template variables rejected: {}", e)),
    }
    // blank node in INSERT DATA: one node per request, shared inside the request
    let idb = Update::InsertData(vec![q(T::Bnode("b".into()), i("x:p"), i("x:c")), q(T::Bnode("b".into()), i("x:p"), i("x:a"))]);
    match apply(&Dataset::default(), &idb, 1).and_then(|(d1, _)| apply(&d1, &idb, 2)) {
        Ok((d2, eff)) => {
            let subjects: BTreeSet<_> = d2.default.iter().map(|t| t.0.clone()).collect();
            if eff.inserted != 2 || d2.default.len() != 4 || subjects.len() != 2 {
                errs.push(format!("update selftest INSERT DATA blank node: {:?} {:?}", d2.default, eff));
            }
        }
        Err(e) => errs.push(format!("update selftest INSERT DATA blank node rejected: {}", e)),
    }
    // multi-quad DELETE WHERE: the block is pattern (a join) and template (both quads go)
    let mq = Update::DeleteWhere(vec![q(v("s"), i("x:p"), v("o")), q(v("o"), i("x:p"), v("z"))]);
    match apply(&ds, &mq, 1) {
        Ok((d2, eff)) => {
            if eff.deleted != 2 || !d2.default.is_empty() {
                errs.push(format!("update selftest multi-quad DELETE WHERE: {:?} {:?}", d2.default, eff));
            }
        }
        Err(e) => errs.push(format!("update selftest multi-quad DELETE WHERE rejected: {}", e)),
    }
    // DELETE WHERE with a graph variable only touches named graphs
    let gv = Update::DeleteWhere(vec![QuadT { g: Some(v("g")), t: tp(v("s"), i("x:p"), i("x:b")) }]);
    match apply(&ds3, &gv, 1) {
        Ok((d2, eff)) => {
            if eff.deleted != 1 || d2.default.len() != 1 || !d2.named["x:g"].is_empty() {
                errs.push(format!("update selftest graph-variable DELETE WHERE: {:?}", d2));
            }
        }
        Err(e) => errs.push(format!("update selftest graph-variable DELETE WHERE rejected: {}", e)),
    }
    // relative IRIs of the universe are IRIs: a variable bound to one is a legal subject, predicate and
    // graph name whatever the store holds; the literal "x" in the same places is skipped
    let k = RELATIVE_IRIS[0];
    if is_iri_like(k) || !is_iri(k) || is_iri("x") || is_iri("1") {
        errs.push("update selftest: term kinds of the relative IRI / literals".into());
    }
    let mut ds5 = Dataset::default();
    ds5.default.insert(("x:a".into(), "x:p".into(), k.into()));
    ds5.default.insert(("x:b".into(), "x:p".into(), "x".into()));
    let mv = Update::Modify {
        delete: None,
        insert: Some(vec![q(v("o"), i("x:p"), v("s")), q(v("s"), v("o"), v("s")), QuadT { g: Some(v("o")), t: tp(v("s"), i("x:p"), v("s")) }]),
        pattern: Group(vec![Elem::Triples(vec![tp(v("s"), i("x:p"), v("o"))])]),
    };
    match apply(&ds5, &mv, 1) {
        Ok((d2, eff)) => {
            let want_named: BTreeSet<_> = [("x:a".to_string(), "x:p".to_string(), "x:a".to_string())].into_iter().collect();
            if eff != (Effect { inserted: 3, deleted: 0 })
                || !d2.default.contains(&(k.to_string(), "x:p".to_string(), "x:a".to_string()))
                || !d2.default.contains(&("x:a".to_string(), k.to_string(), "x:a".to_string()))
                || d2.default.len() != 4
                || d2.named.len() != 1
                || d2.named.get(k) != Some(&want_named)
            {
                errs.push(format!("update selftest relative IRI moved to subject/predicate/graph: {:?} {:?}", d2, eff));
            }
        }
        Err(e) => errs.push(format!("update selftest relative IRI rejected: {}", e)),
    }
    match relative_iri_bindings(&ds5, &mv) {
        Some(r) => {
            let pos: Vec<Pos> = r.bindings.iter().map(|b| b.pos).collect();
            if pos != vec![Pos::Subject, Pos::Predicate, Pos::Graph] || r.bindings.iter().any(|b| !b.insert || b.present || b.names_graph || b.last_occurrence_deleted || b.iri != k) || r.inserts_only_via_unseen.len() != 3 {
                errs.push(format!("update selftest relative IRI report (absent): {:?}", r));
            }
        }
        None => errs.push("update selftest relative IRI report: rejected".into()),
    }
    // rewrite: the only quad holding k as subject is deleted and a quad with the same variable as subject
    // inserted - legal because k is an IRI (nothing is read from the store)
    let mut ds6 = Dataset::default();
    ds6.default.insert((k.into(), "x:p".into(), "x:a".into()));
    ds6.named.entry(k.into()).or_default();
    let rw = Update::Modify {
        delete: Some(vec![q(v("s"), i("x:p"), v("o"))]),
        insert: Some(vec![q(v("s"), i("x:q"), v("o"))]),
        pattern: Group(vec![Elem::Triples(vec![tp(v("s"), i("x:p"), v("o"))])]),
    };
    match apply(&ds6, &rw, 1) {
        Ok((d2, eff)) => {
            let want: BTreeSet<_> = [(k.to_string(), "x:q".to_string(), "x:a".to_string())].into_iter().collect();
            if d2.default != want || eff != (Effect { inserted: 1, deleted: 1 }) {
                errs.push(format!("update selftest relative IRI rewrite: {:?} {:?}", d2.default, eff));
            }
        }
        Err(e) => errs.push(format!("update selftest relative IRI rewrite rejected: {}", e)),
    }
    match relative_iri_bindings(&ds6, &rw) {
        Some(r) => {
            let want = vec![
                RelBinding { insert: false, pos: Pos::Subject, iri: k.to_string(), present: true, names_graph: true, last_occurrence_deleted: true },
                RelBinding { insert: true, pos: Pos::Subject, iri: k.to_string(), present: true, names_graph: true, last_occurrence_deleted: true },
            ];
            if r.bindings != want || !r.inserts_only_via_unseen.is_empty() {
                errs.push(format!("update selftest relative IRI report (rewrite): {:?}", r));
            }
        }
        None => errs.push("update selftest relative IRI report (rewrite): rejected".into()),
    }
    errs
}
