//! R-datalog and R-worlds: boring reference semantics for rule materialisation.
//!
//! * ground facts are triples of symbols (`u16` indices into a `Symbols` table of lexical forms);
//! * a rule has 1..n positive atoms, 0..m negated atoms, filters and 1..k head atoms; any position
//!   (also the predicate) may hold a constant or a variable, variables may repeat anywhere;
//! * `eval` computes the least fixpoint by *naive* iteration (every round re-evaluates every rule
//!   against everything known so far) in an arbitrary idempotent, absorptive semiring (Boolean;
//!   (max,min)); for every fact it records the *stage* = first round in which it became non-zero;
//! * one stratum of safe negation: `stratify` splits the rules into stratum 0 (rules that can never
//!   consume the conclusion of a rule with a negated atom) and stratum 1 (the rules with a negated
//!   atom and every rule that may consume their conclusions); negated atoms are read against the
//!   finished stratum 0. A program in which a negated atom may match the conclusion of a stratum-1
//!   rule needs more than one stratum of negation (or is not stratifiable) and is rejected;
//! * `worlds` sums, over all 2^n subsets of the uncertain facts, world weight x [fact in model(world)].
//!
//! Nothing here calls Kolibrie code.
use std::collections::{BTreeMap, BTreeSet};

pub type Sym = u16;
pub type Fact = [Sym; 3];

#[derive(Clone, Copy, PartialEq, Eq, Hash, PartialOrd, Ord, Debug)]
pub enum T {
    /// constant symbol
    C(Sym),
    /// variable number (0..MAXV)
    V(u8),
}
pub type Atom = [T; 3];
pub const MAXV: usize = 8;

#[derive(Clone, Copy, PartialEq, Eq, Hash, PartialOrd, Ord, Debug)]
pub enum FOp {
    Gt,
    Lt,
    Ge,
    Le,
    Eq,
    Ne,
}

#[derive(Clone, Copy, PartialEq, PartialOrd, Debug)]
pub enum Rhs {
    /// compare the numeric value of the variable's binding with this number
    Num(f64),
    /// term (in)equality with a second variable (only Eq / Ne)
    Var(u8),
}

#[derive(Clone, Copy, PartialEq, PartialOrd, Debug)]
pub struct Filter {
    pub var: u8,
    pub op: FOp,
    pub rhs: Rhs,
}

#[derive(Clone, PartialEq, Debug, Default)]
pub struct Rule {
    pub pos: Vec<Atom>,
    pub neg: Vec<Atom>,
    pub filters: Vec<Filter>,
    pub heads: Vec<Atom>,
}

/// lexical forms of the symbols; a symbol is numeric iff its lexical form parses as a number
#[derive(Clone, Debug, Default)]
pub struct Symbols {
    pub names: Vec<String>,
}

impl Symbols {
    pub fn new(names: &[&str]) -> Symbols {
        Symbols { names: names.iter().map(|s| s.to_string()).collect() }
    }
    pub fn sym(&self, s: &str) -> Sym {
        self.names.iter().position(|n| n == s).unwrap_or_else(|| panic!("unknown symbol {}", s)) as Sym
    }
    pub fn name(&self, s: Sym) -> &str {
        &self.names[s as usize]
    }
    pub fn numeric(&self, s: Sym) -> Option<f64> {
        let n = &self.names[s as usize];
        // plain decimal numerals only (no "inf"/"nan" spellings)
        if n.is_empty() || !n.chars().all(|c| c.is_ascii_digit() || c == '.' || c == '-') {
            return None;
        }
        n.parse::<f64>().ok()
    }
    pub fn fact_str(&self, f: &Fact) -> String {
        format!("{}({},{})", self.name(f[1]), self.name(f[0]), self.name(f[2]))
    }
}

/// What a numeric comparison does with a binding that is not a number. The Datalog/SPARQL reading
/// is a type error (the binding is dropped); an engine may also read it as 0. Callers that want to
/// stay inside what a statement fixes evaluate both and only judge where they coincide.
#[derive(Clone, Copy, PartialEq, Eq, Debug)]
pub enum NonNumeric {
    TypeError,
    Zero,
}

pub trait Semiring {
    type V: Clone + PartialEq + std::fmt::Debug;
    fn zero(&self) -> Self::V;
    fn one(&self) -> Self::V;
    /// must be idempotent (a+a=a) and absorptive (a + a*b = a) for the fixpoint to be reached
    fn add(&self, a: &Self::V, b: &Self::V) -> Self::V;
    fn mul(&self, a: &Self::V, b: &Self::V) -> Self::V;
}

#[derive(Clone, Copy)]
pub struct BoolSr;
impl Semiring for BoolSr {
    type V = bool;
    fn zero(&self) -> bool {
        false
    }
    fn one(&self) -> bool {
        true
    }
    fn add(&self, a: &bool, b: &bool) -> bool {
        *a || *b
    }
    fn mul(&self, a: &bool, b: &bool) -> bool {
        *a && *b
    }
}

/// (max, min) over [0,1]
#[derive(Clone, Copy)]
pub struct MaxMinSr;
impl Semiring for MaxMinSr {
    type V = f64;
    fn zero(&self) -> f64 {
        0.0
    }
    fn one(&self) -> f64 {
        1.0
    }
    fn add(&self, a: &f64, b: &f64) -> f64 {
        if *a >= *b {
            *a
        } else {
            *b
        }
    }
    fn mul(&self, a: &f64, b: &f64) -> f64 {
        if *a <= *b {
            *a
        } else {
            *b
        }
    }
}

/// (max, min) over u64 (C12 expiry times: one = u64::MAX)
#[allow(dead_code)]
#[derive(Clone, Copy)]
pub struct MaxMinU64Sr;
impl Semiring for MaxMinU64Sr {
    type V = u64;
    fn zero(&self) -> u64 {
        0
    }
    fn one(&self) -> u64 {
        u64::MAX
    }
    fn add(&self, a: &u64, b: &u64) -> u64 {
        (*a).max(*b)
    }
    fn mul(&self, a: &u64, b: &u64) -> u64 {
        (*a).min(*b)
    }
}

// ---------------------------------------------------------------------------------------------
// safety and stratification

fn atom_vars(a: &Atom, out: &mut BTreeSet<u8>) {
    for t in a {
        if let T::V(v) = t {
            out.insert(*v);
        }
    }
}

/// Safe = every variable of a head, a negated atom or a filter occurs in a positive atom.
pub fn is_safe(r: &Rule) -> bool {
    if r.pos.is_empty() || r.heads.is_empty() {
        return false;
    }
    let mut bound = BTreeSet::new();
    for a in &r.pos {
        atom_vars(a, &mut bound);
    }
    let mut used = BTreeSet::new();
    for a in r.neg.iter().chain(r.heads.iter()) {
        atom_vars(a, &mut used);
    }
    for f in &r.filters {
        used.insert(f.var);
        if let Rhs::Var(v) = f.rhs {
            used.insert(v);
        }
    }
    used.iter().all(|v| bound.contains(v) && (*v as usize) < MAXV)
}

/// predicate-level "may match": equal constants, or a variable on either side
fn pred_may_match(a: &Atom, b: &Atom) -> bool {
    match (a[1], b[1]) {
        (T::C(x), T::C(y)) => x == y,
        _ => true,
    }
}

/// Returns (stratum0, stratum1) as rule indices, or Err if one stratum of negation is not enough.
/// A rule is in stratum 1 iff it has a negated atom or one of its positive atoms may match (on the
/// predicate) a head of a stratum-1 rule.
pub fn stratify(rules: &[Rule]) -> Result<(Vec<usize>, Vec<usize>), String> {
    let n = rules.len();
    let mut upper = vec![false; n];
    for (i, r) in rules.iter().enumerate() {
        if !r.neg.is_empty() {
            upper[i] = true;
        }
    }
    loop {
        let mut changed = false;
        for i in 0..n {
            if upper[i] {
                continue;
            }
            let consumes = rules[i].pos.iter().any(|a| (0..n).any(|j| upper[j] && rules[j].heads.iter().any(|h| pred_may_match(a, h))));
            if consumes {
                upper[i] = true;
                changed = true;
            }
        }
        if !changed {
            break;
        }
    }
    for (i, r) in rules.iter().enumerate() {
        for na in &r.neg {
            for j in 0..n {
                if upper[j] && rules[j].heads.iter().any(|h| pred_may_match(na, h)) {
                    return Err(format!("negated atom of rule {} may match a conclusion of rule {} which is itself above a negation", i, j));
                }
            }
        }
    }
    Ok(((0..n).filter(|i| !upper[*i]).collect(), (0..n).filter(|i| upper[*i]).collect()))
}

// ---------------------------------------------------------------------------------------------
// evaluation

type Binding = [Option<Sym>; MAXV];

#[inline]
fn match_atom(a: &Atom, f: &Fact, b: &Binding) -> Option<Binding> {
    let mut nb = *b;
    for i in 0..3 {
        match a[i] {
            T::C(c) => {
                if c != f[i] {
                    return None;
                }
            }
            T::V(v) => match nb[v as usize] {
                Some(x) => {
                    if x != f[i] {
                        return None;
                    }
                }
                None => nb[v as usize] = Some(f[i]),
            },
        }
    }
    Some(nb)
}

fn ground(a: &Atom, b: &Binding) -> Option<Fact> {
    let mut f = [0 as Sym; 3];
    for i in 0..3 {
        f[i] = match a[i] {
            T::C(c) => c,
            T::V(v) => b[v as usize]?,
        };
    }
    Some(f)
}

fn filter_ok(f: &Filter, b: &Binding, syms: &Symbols, nn: NonNumeric) -> bool {
    let l = match b[f.var as usize] {
        Some(x) => x,
        None => return false,
    };
    match f.rhs {
        Rhs::Var(v) => {
            let r = match b[v as usize] {
                Some(x) => x,
                None => return false,
            };
            match f.op {
                FOp::Eq => l == r,
                FOp::Ne => l != r,
                // ordering between two variables is not part of the modelled fragment
                _ => panic!("reference: ordering filter between two variables is not modelled"),
            }
        }
        Rhs::Num(k) => {
            let x = match syms.numeric(l) {
                Some(x) => x,
                None => match nn {
                    NonNumeric::TypeError => return false,
                    NonNumeric::Zero => 0.0,
                },
            };
            match f.op {
                FOp::Gt => x > k,
                FOp::Lt => x < k,
                FOp::Ge => x >= k,
                FOp::Le => x <= k,
                FOp::Eq => x == k,
                FOp::Ne => x != k,
            }
        }
    }
}

/// value and stage of every fact with a non-zero value
pub type Model<V> = BTreeMap<Fact, (V, u32)>;

/// all (binding, product of the matched facts' values) of the positive body of `r` over `m`
fn body_matches<S: Semiring>(sr: &S, r: &Rule, m: &Model<S::V>, out: &mut Vec<(Binding, S::V)>) {
    fn rec<S: Semiring>(sr: &S, r: &Rule, m: &Model<S::V>, i: usize, b: Binding, v: S::V, out: &mut Vec<(Binding, S::V)>) {
        if i == r.pos.len() {
            out.push((b, v));
            return;
        }
        for (f, (fv, _)) in m.iter() {
            if let Some(nb) = match_atom(&r.pos[i], f, &b) {
                let nv = sr.mul(&v, fv);
                if nv != sr.zero() {
                    rec(sr, r, m, i + 1, nb, nv, out);
                }
            }
        }
    }
    rec(sr, r, m, 0, [None; MAXV], sr.one(), out);
}

/// One ground instance of a rule: matched positive facts, ground negated atoms, ground heads.
#[derive(Clone, Debug, PartialEq, Eq)]
pub struct Instance {
    pub body: Vec<Fact>,
    pub neg: Vec<Fact>,
    pub heads: Vec<Fact>,
}

/// every ground instance of `r` whose positive body lies in `facts` and whose filters hold
/// (negated atoms are returned ground, not evaluated)
pub fn instances(r: &Rule, facts: &BTreeSet<Fact>, syms: &Symbols, nn: NonNumeric) -> Vec<Instance> {
    let m: Model<bool> = facts.iter().map(|f| (*f, (true, 0))).collect();
    let mut ms = Vec::new();
    body_matches(&BoolSr, r, &m, &mut ms);
    let mut out = Vec::new();
    'b: for (b, _) in ms {
        for f in &r.filters {
            if !filter_ok(f, &b, syms, nn) {
                continue 'b;
            }
        }
        let g = |atoms: &Vec<Atom>| -> Option<Vec<Fact>> { atoms.iter().map(|a| ground(a, &b)).collect() };
        if let (Some(body), Some(neg), Some(heads)) = (g(&r.pos), g(&r.neg), g(&r.heads)) {
            out.push(Instance { body, neg, heads });
        }
    }
    out
}

/// naive iteration of the rules `idx` on top of `m` until nothing changes; negated atoms are read
/// against `neg_base` (a finished lower stratum): present with non-zero value => the atom fails.
fn fixpoint<S: Semiring>(sr: &S, rules: &[Rule], idx: &[usize], m: &mut Model<S::V>, neg_base: Option<&Model<S::V>>, syms: &Symbols, nn: NonNumeric, round0: u32) -> u32 {
    let mut round = round0;
    loop {
        round += 1;
        let mut updates: BTreeMap<Fact, S::V> = BTreeMap::new();
        for &ri in idx {
            let r = &rules[ri];
            let mut ms = Vec::new();
            body_matches(sr, r, m, &mut ms);
            'b: for (b, v) in ms {
                for f in &r.filters {
                    if !filter_ok(f, &b, syms, nn) {
                        continue 'b;
                    }
                }
                for na in &r.neg {
                    let g = match ground(na, &b) {
                        Some(g) => g,
                        None => continue 'b, // unsafe: cannot fire
                    };
                    let base = neg_base.expect("negated atom evaluated without a finished lower stratum");
                    if base.contains_key(&g) {
                        continue 'b;
                    }
                }
                for h in &r.heads {
                    if let Some(g) = ground(h, &b) {
                        let e = updates.entry(g).or_insert_with(|| sr.zero());
                        *e = sr.add(e, &v);
                    }
                }
            }
        }
        let mut changed = false;
        for (g, v) in updates {
            match m.get_mut(&g) {
                Some((old, _)) => {
                    let nv = sr.add(old, &v);
                    if nv != *old {
                        *old = nv;
                        changed = true;
                    }
                }
                None => {
                    if v != sr.zero() {
                        m.insert(g, (v, round));
                        changed = true;
                    }
                }
            }
        }
        if !changed {
            return round - 1;
        }
        if round > 10_000 {
            panic!("reference fixpoint does not terminate (semiring not absorptive?)");
        }
    }
}

/// Least (stratified) model of `rules` over the valued input facts. Input facts have stage 0;
/// an input fact with value zero is absent. Err = not evaluable with one stratum of negation.
pub fn eval<S: Semiring>(sr: &S, rules: &[Rule], input: &[(Fact, S::V)], syms: &Symbols, nn: NonNumeric) -> Result<Model<S::V>, String> {
    for (i, r) in rules.iter().enumerate() {
        if !is_safe(r) {
            return Err(format!("rule {} is not safe", i));
        }
    }
    let (s0, s1) = stratify(rules)?;
    let mut m: Model<S::V> = BTreeMap::new();
    for (f, v) in input {
        if *v == sr.zero() {
            continue;
        }
        match m.get_mut(f) {
            Some((old, _)) => *old = sr.add(old, v),
            None => {
                m.insert(*f, (v.clone(), 0));
            }
        }
    }
    let last = fixpoint(sr, rules, &s0, &mut m, None, syms, nn, 0);
    if !s1.is_empty() {
        let base = m.clone();
        fixpoint(sr, rules, &s1, &mut m, Some(&base), syms, nn, last);
    }
    Ok(m)
}

/// Boolean least model as a set, with stages.
pub fn least_model(rules: &[Rule], facts: &[Fact], syms: &Symbols, nn: NonNumeric) -> Result<BTreeMap<Fact, u32>, String> {
    let input: Vec<(Fact, bool)> = facts.iter().map(|f| (*f, true)).collect();
    Ok(eval(&BoolSr, rules, &input, syms, nn)?.into_iter().map(|(f, (_, st))| (f, st)).collect())
}

pub fn model_set(rules: &[Rule], facts: &[Fact], syms: &Symbols, nn: NonNumeric) -> Result<BTreeSet<Fact>, String> {
    Ok(least_model(rules, facts, syms, nn)?.into_keys().collect())
}

/// R-worlds: probability of every fact = sum over all subsets W of the uncertain facts of
/// prod_{f in W} p_f * prod_{f not in W} (1-p_f) * [fact in model(certain + W)].
/// Facts that are in no positive-weight world's model are not listed. n <= 20.
pub fn worlds(rules: &[Rule], certain: &[Fact], uncertain: &[(Fact, f64)], syms: &Symbols, nn: NonNumeric) -> Result<BTreeMap<Fact, f64>, String> {
    stratify(rules)?;
    worlds_with(certain, uncertain, &|facts: &[Fact]| model_set(rules, facts, syms, nn))
}

/// R-worlds with an arbitrary per-world evaluator.
pub fn worlds_with(certain: &[Fact], uncertain: &[(Fact, f64)], model_of: &dyn Fn(&[Fact]) -> Result<BTreeSet<Fact>, String>) -> Result<BTreeMap<Fact, f64>, String> {
    let n = uncertain.len();
    assert!(n <= 20, "R-worlds: too many uncertain facts");
    // the same fact listed twice (or also as certain) would not be independent evidence
    let distinct: BTreeSet<Fact> = uncertain.iter().map(|u| u.0).collect();
    assert!(distinct.len() == n, "R-worlds: duplicate uncertain fact");
    assert!(certain.iter().all(|f| !distinct.contains(f)), "R-worlds: fact both certain and uncertain");
    for (_, p) in uncertain {
        assert!((0.0..=1.0).contains(p), "R-worlds: probability outside [0,1]");
    }
    let mut acc: BTreeMap<Fact, f64> = BTreeMap::new();
    let mut facts: Vec<Fact> = Vec::with_capacity(certain.len() + n);
    for mask in 0u32..(1u32 << n) {
        let mut w = 1.0f64;
        for (i, (_, p)) in uncertain.iter().enumerate() {
            w *= if mask & (1 << i) != 0 { *p } else { 1.0 - *p };
            if w == 0.0 {
                break;
            }
        }
        if w == 0.0 {
            continue;
        }
        facts.clear();
        facts.extend_from_slice(certain);
        for (i, (f, _)) in uncertain.iter().enumerate() {
            if mask & (1 << i) != 0 {
                facts.push(*f);
            }
        }
        for f in model_of(&facts)? {
            *acc.entry(f).or_insert(0.0) += w;
        }
    }
    Ok(acc)
}

/// Number of ground rule instances that become applicable only in a later round than the one in
/// which their conclusion first appeared (a second proof arriving late: what a tag-propagating
/// engine has to re-trigger consumers for). Computed on the Boolean least model with stages.
pub fn late_derivations(rules: &[Rule], facts: &[Fact], syms: &Symbols, nn: NonNumeric) -> Result<u32, String> {
    let m = least_model(rules, facts, syms, nn)?;
    let set: BTreeSet<Fact> = m.keys().cloned().collect();
    let mut n = 0;
    for r in rules {
        for inst in instances(r, &set, syms, nn) {
            if inst.neg.iter().any(|g| set.contains(g)) {
                continue;
            }
            let b = inst.body.iter().map(|f| m[f]).max().unwrap_or(0);
            for h in &inst.heads {
                if inst.body.contains(h) {
                    continue;
                }
                if let Some(hs) = m.get(h) {
                    if b + 1 > *hs && *hs > 0 {
                        n += 1;
                    }
                }
            }
        }
    }
    Ok(n)
}

// ---------------------------------------------------------------------------------------------
// pretty printing (for witnesses)

pub fn term_str(t: &T, syms: &Symbols) -> String {
    match t {
        T::C(c) => syms.name(*c).to_string(),
        T::V(v) => format!("?{}", ["x", "y", "z", "w", "u", "v", "s", "t"][*v as usize % 8]),
    }
}
pub fn atom_str(a: &Atom, syms: &Symbols) -> String {
    format!("{}({},{})", term_str(&a[1], syms), term_str(&a[0], syms), term_str(&a[2], syms))
}
pub fn rule_str(r: &Rule, syms: &Symbols) -> String {
    let heads: Vec<String> = r.heads.iter().map(|a| atom_str(a, syms)).collect();
    let mut body: Vec<String> = r.pos.iter().map(|a| atom_str(a, syms)).collect();
    body.extend(r.neg.iter().map(|a| format!("not {}", atom_str(a, syms))));
    for f in &r.filters {
        let op = match f.op {
            FOp::Gt => ">",
            FOp::Lt => "<",
            FOp::Ge => ">=",
            FOp::Le => "<=",
            FOp::Eq => "=",
            FOp::Ne => "!=",
        };
        let rhs = match f.rhs {
            Rhs::Num(k) => format!("{}", k),
            Rhs::Var(v) => term_str(&T::V(v), syms),
        };
        body.push(format!("{} {} {}", term_str(&T::V(f.var), syms), op, rhs));
    }
    format!("{} :- {}", heads.join(", "), body.join(", "))
}

// ---------------------------------------------------------------------------------------------
// text form:  q(?x,?z), r(?z,?x) :- p(?x,?y), ?v(?y,?z), not r(?x,?z), ?z > 5, ?x != ?y
// (exactly what `rule_str` prints; used for replay files and hand-written rule lists)

fn var_index(name: &str) -> Option<u8> {
    ["x", "y", "z", "w", "u", "v", "s", "t"].iter().position(|n| *n == name).map(|i| i as u8)
}

fn parse_term(s: &str, syms: &Symbols) -> Result<T, String> {
    let s = s.trim();
    if let Some(v) = s.strip_prefix('?') {
        var_index(v).map(T::V).ok_or_else(|| format!("unknown variable ?{}", v))
    } else {
        syms.names.iter().position(|n| n == s).map(|i| T::C(i as Sym)).ok_or_else(|| format!("unknown symbol '{}'", s))
    }
}

fn parse_atom(s: &str, syms: &Symbols) -> Result<Atom, String> {
    let s = s.trim();
    let open = s.find('(').ok_or_else(|| format!("atom without '(': {}", s))?;
    if !s.ends_with(')') {
        return Err(format!("atom without ')': {}", s));
    }
    let pred = parse_term(&s[..open], syms)?;
    let inner = &s[open + 1..s.len() - 1];
    let parts: Vec<&str> = inner.split(',').collect();
    if parts.len() != 2 {
        return Err(format!("atom needs two arguments: {}", s));
    }
    Ok([parse_term(parts[0], syms)?, pred, parse_term(parts[1], syms)?])
}

/// split on commas that are not inside parentheses
fn split_top(s: &str) -> Vec<String> {
    let mut out = Vec::new();
    let mut depth = 0;
    let mut cur = String::new();
    for ch in s.chars() {
        match ch {
            '(' => {
                depth += 1;
                cur.push(ch)
            }
            ')' => {
                depth -= 1;
                cur.push(ch)
            }
            ',' if depth == 0 => {
                out.push(cur.trim().to_string());
                cur.clear();
            }
            _ => cur.push(ch),
        }
    }
    if !cur.trim().is_empty() {
        out.push(cur.trim().to_string());
    }
    out
}

pub fn parse_rule(text: &str, syms: &Symbols) -> Result<Rule, String> {
    let (h, b) = text.split_once(":-").ok_or_else(|| format!("rule without ':-': {}", text))?;
    let mut r = Rule::default();
    for a in split_top(h) {
        r.heads.push(parse_atom(&a, syms)?);
    }
    for item in split_top(b) {
        if let Some(rest) = item.strip_prefix("not ") {
            r.neg.push(parse_atom(rest, syms)?);
        } else if item.contains('(') {
            r.pos.push(parse_atom(&item, syms)?);
        } else {
            let toks: Vec<&str> = item.split_whitespace().collect();
            if toks.len() != 3 {
                return Err(format!("bad filter '{}'", item));
            }
            let var = match parse_term(toks[0], syms)? {
                T::V(v) => v,
                _ => return Err(format!("filter must start with a variable: {}", item)),
            };
            let op = match toks[1] {
                ">" => FOp::Gt,
                "<" => FOp::Lt,
                ">=" => FOp::Ge,
                "<=" => FOp::Le,
                "=" => FOp::Eq,
                "!=" => FOp::Ne,
                o => return Err(format!("unknown operator {}", o)),
            };
            let rhs = if let Some(v) = toks[2].strip_prefix('?') {
                Rhs::Var(var_index(v).ok_or_else(|| format!("unknown variable {}", toks[2]))?)
            } else {
                Rhs::Num(toks[2].parse::<f64>().map_err(|e| format!("bad number {}: {}", toks[2], e))?)
            };
            r.filters.push(Filter { var, op, rhs });
        }
    }
    Ok(r)
}

pub fn parse_fact(text: &str, syms: &Symbols) -> Result<Fact, String> {
    let a = parse_atom(text, syms)?;
    let mut f = [0 as Sym; 3];
    for i in 0..3 {
        match a[i] {
            T::C(c) => f[i] = c,
            T::V(_) => return Err(format!("fact with a variable: {}", text)),
        }
    }
    Ok(f)
}

// ---------------------------------------------------------------------------------------------
// self-test: hand-computed micro cases

pub fn selftest() -> Vec<String> {
    let mut errs = Vec::new();
    let sy = Symbols::new(&["a", "b", "c", "d", "1", "20", "p", "q", "r", "t", "one", "two"]);
    let s = |n: &str| sy.sym(n);
    let c = |n: &str| T::C(sy.sym(n));
    let (x, y, z) = (T::V(0), T::V(1), T::V(2));
    let f = |su: &str, p: &str, o: &str| -> Fact { [s(su), s(p), s(o)] };
    let set = |v: &[Fact]| -> BTreeSet<Fact> { v.iter().cloned().collect() };
    let mut check = |name: &str, ok: bool, detail: String| {
        if !ok {
            errs.push(format!("datalog::{}: {}", name, detail));
        }
    };
    let nn = NonNumeric::TypeError;

    // 1. transitive closure over a chain of 3 edges, with stages
    let tc = vec![
        Rule { pos: vec![[x, c("p"), y]], heads: vec![[x, c("t"), y]], ..Default::default() },
        Rule { pos: vec![[x, c("t"), y], [y, c("p"), z]], heads: vec![[x, c("t"), z]], ..Default::default() },
    ];
    let chain = vec![f("a", "p", "b"), f("b", "p", "c"), f("c", "p", "d")];
    let m = least_model(&tc, &chain, &sy, nn).unwrap();
    let exp: Vec<(Fact, u32)> = vec![
        (f("a", "p", "b"), 0),
        (f("b", "p", "c"), 0),
        (f("c", "p", "d"), 0),
        (f("a", "t", "b"), 1),
        (f("b", "t", "c"), 1),
        (f("c", "t", "d"), 1),
        (f("a", "t", "c"), 2),
        (f("b", "t", "d"), 2),
        (f("a", "t", "d"), 3),
    ];
    let expm: BTreeMap<Fact, u32> = exp.into_iter().collect();
    check("tc_chain", m == expm, format!("{:?}", m));

    // 2. recursion over a cycle terminates: p(a,b) p(b,a); t = all four pairs
    let cyc = vec![f("a", "p", "b"), f("b", "p", "a")];
    let m = model_set(&tc, &cyc, &sy, nn).unwrap();
    check("tc_cycle", m == set(&[f("a", "p", "b"), f("b", "p", "a"), f("a", "t", "b"), f("b", "t", "a"), f("a", "t", "a"), f("b", "t", "b")]), format!("{:?}", m));

    // 3. repeated variable inside an atom
    let rep = vec![Rule { pos: vec![[x, c("p"), x]], heads: vec![[x, c("q"), x]], ..Default::default() }];
    let m = model_set(&rep, &[f("a", "p", "a"), f("a", "p", "b")], &sy, nn).unwrap();
    check("repeated_var", m == set(&[f("a", "p", "a"), f("a", "p", "b"), f("a", "q", "a")]), format!("{:?}", m));

    // 4. variable predicate, copied into the head; terminates because the inverse of the inverse is the input
    let vp = vec![Rule { pos: vec![[x, z, y]], heads: vec![[y, z, x]], ..Default::default() }];
    let m = model_set(&vp, &[f("a", "p", "b"), f("b", "q", "c")], &sy, nn).unwrap();
    check("variable_predicate", m == set(&[f("a", "p", "b"), f("b", "q", "c"), f("b", "p", "a"), f("c", "q", "b")]), format!("{:?}", m));

    // 5. variable shared between a predicate position and a subject position
    let vps = vec![Rule { pos: vec![[x, z, y], [z, c("q"), c("a")]], heads: vec![[x, c("r"), z]], ..Default::default() }];
    let m = model_set(&vps, &[f("a", "p", "b"), f("p", "q", "a"), f("a", "t", "b")], &sy, nn).unwrap();
    check("pred_var_joined_with_subject", m == set(&[f("a", "p", "b"), f("p", "q", "a"), f("a", "t", "b"), f("a", "r", "p")]), format!("{:?}", m));

    // 6. constants in the body, two conclusions
    let k = vec![Rule { pos: vec![[x, c("p"), c("a")]], heads: vec![[x, c("q"), c("b")], [c("b"), c("r"), x]], ..Default::default() }];
    let m = model_set(&k, &[f("c", "p", "a"), f("c", "p", "b")], &sy, nn).unwrap();
    check("constants_two_heads", m == set(&[f("c", "p", "a"), f("c", "p", "b"), f("c", "q", "b"), f("b", "r", "c")]), format!("{:?}", m));

    // 7. numeric filter; both readings of a non-numeric binding
    let fl = |op, kk| vec![Rule { pos: vec![[x, c("p"), y]], filters: vec![Filter { var: 1, op, rhs: Rhs::Num(kk) }], heads: vec![[x, c("q"), y]], ..Default::default() }];
    let data = vec![f("a", "p", "1"), f("a", "p", "20"), f("a", "p", "b")];
    let m = model_set(&fl(FOp::Gt, 5.0), &data, &sy, NonNumeric::TypeError).unwrap();
    check("filter_gt", m.contains(&f("a", "q", "20")) && m.len() == 4, format!("{:?}", m));
    let m = model_set(&fl(FOp::Lt, 5.0), &data, &sy, NonNumeric::TypeError).unwrap();
    check("filter_lt_type_error", m.contains(&f("a", "q", "1")) && m.len() == 4, format!("{:?}", m));
    let m = model_set(&fl(FOp::Lt, 5.0), &data, &sy, NonNumeric::Zero).unwrap();
    check("filter_lt_zero", m.contains(&f("a", "q", "1")) && m.contains(&f("a", "q", "b")) && m.len() == 5, format!("{:?}", m));
    let m = model_set(&fl(FOp::Ne, 1.0), &data, &sy, NonNumeric::TypeError).unwrap();
    check("filter_ne", m.contains(&f("a", "q", "20")) && m.len() == 4, format!("{:?}", m));
    // term inequality between two variables
    let sib = vec![Rule { pos: vec![[x, c("p"), z], [y, c("p"), z]], filters: vec![Filter { var: 0, op: FOp::Ne, rhs: Rhs::Var(1) }], heads: vec![[x, c("q"), y]], ..Default::default() }];
    let m = model_set(&sib, &[f("a", "p", "c"), f("b", "p", "c")], &sy, nn).unwrap();
    check("filter_var_ne", m == set(&[f("a", "p", "c"), f("b", "p", "c"), f("a", "q", "b"), f("b", "q", "a")]), format!("{:?}", m));

    // 8. negation, and a positive rule above the negated one (stages continue after stratum 0)
    let ng = vec![
        Rule { pos: vec![[x, c("p"), y]], neg: vec![[y, c("p"), x]], heads: vec![[x, c("one"), y]], ..Default::default() },
        Rule { pos: vec![[x, c("one"), y]], heads: vec![[x, c("two"), y]], ..Default::default() },
    ];
    let m = least_model(&ng, &[f("a", "p", "b"), f("b", "p", "a"), f("a", "p", "c")], &sy, nn).unwrap();
    let expm: BTreeMap<Fact, u32> = vec![(f("a", "p", "b"), 0), (f("b", "p", "a"), 0), (f("a", "p", "c"), 0), (f("a", "one", "c"), 1), (f("a", "two", "c"), 2)].into_iter().collect();
    check("negation_with_consumer", m == expm, format!("{:?}", m));
    check("stratify_split", stratify(&ng) == Ok((vec![], vec![0, 1])), format!("{:?}", stratify(&ng)));

    // 9. negation of a derived (stratum 0) fact
    let nd = vec![
        Rule { pos: vec![[x, c("p"), y], [y, c("p"), x]], heads: vec![[x, c("r"), y]], ..Default::default() },
        Rule { pos: vec![[x, c("p"), y]], neg: vec![[x, c("r"), y]], heads: vec![[x, c("q"), y]], ..Default::default() },
    ];
    let m = model_set(&nd, &[f("a", "p", "b"), f("b", "p", "a"), f("a", "p", "c")], &sy, nn).unwrap();
    check(
        "negation_of_derived",
        m == set(&[f("a", "p", "b"), f("b", "p", "a"), f("a", "p", "c"), f("a", "r", "b"), f("b", "r", "a"), f("a", "q", "c")]),
        format!("{:?}", m),
    );
    check("stratify_lower", stratify(&nd) == Ok((vec![0], vec![1])), format!("{:?}", stratify(&nd)));

    // 10. recursion through the negated rule itself (negated atom on an input predicate): still one stratum
    let rn = vec![Rule { pos: vec![[x, c("t"), y], [y, c("p"), z]], neg: vec![[x, c("q"), z]], heads: vec![[x, c("t"), z]], ..Default::default() }];
    let m = model_set(&rn, &[f("a", "t", "b"), f("b", "p", "c"), f("c", "p", "d"), f("a", "q", "d")], &sy, nn).unwrap();
    check("recursive_negated_rule", m.contains(&f("a", "t", "c")) && !m.contains(&f("a", "t", "d")) && m.len() == 5, format!("{:?}", m));

    // 11. not stratifiable with one stratum
    let bad = vec![Rule { pos: vec![[x, c("p"), y]], neg: vec![[y, c("q"), x]], heads: vec![[x, c("q"), y]], ..Default::default() }];
    check("unstratifiable_rejected", stratify(&bad).is_err(), "accepted".into());
    let two = vec![
        Rule { pos: vec![[x, c("p"), y]], neg: vec![[y, c("p"), x]], heads: vec![[x, c("q"), y]], ..Default::default() },
        Rule { pos: vec![[x, c("p"), y]], neg: vec![[x, c("q"), y]], heads: vec![[x, c("r"), y]], ..Default::default() },
    ];
    check("two_strata_rejected", stratify(&two).is_err(), "accepted".into());
    // a variable-predicate head may produce anything, so it taints every negated atom
    let vh = vec![
        Rule { pos: vec![[x, c("p"), y]], neg: vec![[y, c("p"), x]], heads: vec![[x, y, x]], ..Default::default() },
        Rule { pos: vec![[x, c("p"), y]], neg: vec![[x, c("q"), y]], heads: vec![[x, c("r"), y]], ..Default::default() },
    ];
    check("variable_head_taints", stratify(&vh).is_err(), "accepted".into());

    // 12. unsafe rules rejected
    let uns = Rule { pos: vec![[x, c("p"), x]], heads: vec![[x, c("q"), y]], ..Default::default() };
    check("unsafe_head", !is_safe(&uns), "accepted".into());
    let uns = Rule { pos: vec![[x, c("p"), x]], neg: vec![[x, c("q"), y]], heads: vec![[x, c("q"), x]], ..Default::default() };
    check("unsafe_neg", !is_safe(&uns), "accepted".into());

    // 13. (max,min): diamond a->b .6, a->c .9, b->d .8, c->d .5 ; path(a,d) = max(min(.6,.8), min(.9,.5)) = .6
    let path = vec![
        Rule { pos: vec![[x, c("p"), y]], heads: vec![[x, c("t"), y]], ..Default::default() },
        Rule { pos: vec![[x, c("t"), y], [y, c("t"), z]], heads: vec![[x, c("t"), z]], ..Default::default() },
    ];
    let inp = vec![(f("a", "p", "b"), 0.6), (f("a", "p", "c"), 0.9), (f("b", "p", "d"), 0.8), (f("c", "p", "d"), 0.5)];
    let m = eval(&MaxMinSr, &path, &inp, &sy, nn).unwrap();
    let v = m.get(&f("a", "t", "d")).map(|e| e.0).unwrap_or(-1.0);
    check("maxmin_diamond", (v - 0.6).abs() < 1e-12 && m.len() == 4 + 4 + 1, format!("{:?}", m));
    // a zero-valued input is absent
    let m = eval(&MaxMinSr, &path, &[(f("a", "p", "b"), 0.0)], &sy, nn).unwrap();
    check("maxmin_zero_absent", m.is_empty(), format!("{:?}", m));
    // late improvement: t(a,c) first via the weak 2-chain (.3), then improved by ... a better path found one round later
    let inp = vec![(f("a", "p", "c"), 0.3), (f("a", "p", "b"), 0.9), (f("b", "p", "c"), 0.8)];
    let m = eval(&MaxMinSr, &path, &inp, &sy, nn).unwrap();
    let v = m.get(&f("a", "t", "c")).map(|e| e.0).unwrap_or(-1.0);
    check("maxmin_late_improvement", (v - 0.8).abs() < 1e-12, format!("{:?}", m));

    // 14. worlds: two-edge chain, both .5 => .25; shared evidence .8*(1-(1-.6)(1-.5)) = .64
    let two_hop = vec![Rule { pos: vec![[x, c("p"), y], [y, c("p"), z]], heads: vec![[x, c("q"), z]], ..Default::default() }];
    let w = worlds(&two_hop, &[], &[(f("a", "p", "b"), 0.5), (f("b", "p", "c"), 0.5)], &sy, nn).unwrap();
    check("worlds_chain", (w[&f("a", "q", "c")] - 0.25).abs() < 1e-12 && (w[&f("a", "p", "b")] - 0.5).abs() < 1e-12 && w.len() == 3, format!("{:?}", w));
    let w = worlds(&two_hop, &[], &[(f("a", "p", "b"), 0.8), (f("b", "p", "c"), 0.6), (f("b", "p", "d"), 0.5)], &sy, nn).unwrap();
    check("worlds_independent_targets", (w[&f("a", "q", "c")] - 0.48).abs() < 1e-12 && (w[&f("a", "q", "d")] - 0.40).abs() < 1e-12, format!("{:?}", w));
    let shared = vec![Rule { pos: vec![[x, c("p"), y], [y, c("p"), z]], heads: vec![[x, c("q"), x]], ..Default::default() }];
    let w = worlds(&shared, &[], &[(f("a", "p", "b"), 0.8), (f("b", "p", "c"), 0.6), (f("b", "p", "d"), 0.5)], &sy, nn).unwrap();
    check("worlds_shared_evidence", (w[&f("a", "q", "a")] - 0.64).abs() < 1e-12, format!("{:?}", w));
    // certain + uncertain, p=0 and p=1
    let w = worlds(&two_hop, &[f("a", "p", "b")], &[(f("b", "p", "c"), 0.3), (f("b", "p", "d"), 0.0), (f("b", "p", "a"), 1.0)], &sy, nn).unwrap();
    check(
        "worlds_certain_and_extremes",
        (w[&f("a", "q", "c")] - 0.3).abs() < 1e-12 && !w.contains_key(&f("a", "q", "d")) && (w[&f("a", "q", "a")] - 1.0).abs() < 1e-12 && (w[&f("b", "q", "b")] - 1.0).abs() < 1e-12,
        format!("{:?}", w),
    );
    // negation: q(x,y) <- p(x,y), not r(x,y): .5 * (1-.3) = .35
    let nq = vec![Rule { pos: vec![[x, c("p"), y]], neg: vec![[x, c("r"), y]], heads: vec![[x, c("q"), y]], ..Default::default() }];
    let w = worlds(&nq, &[], &[(f("a", "p", "b"), 0.5), (f("a", "r", "b"), 0.3)], &sy, nn).unwrap();
    check("worlds_negation", (w[&f("a", "q", "b")] - 0.35).abs() < 1e-12, format!("{:?}", w));
    // cycle: t(a,a) needs both edges
    let w = worlds(&tc, &[], &[(f("a", "p", "b"), 0.5), (f("b", "p", "a"), 0.3)], &sy, nn).unwrap();
    // 14b. late second proof: t(a,c) appears in round 1 (edge a-c) and gets its proof through b in round 2
    let short = vec![f("a", "p", "b"), f("b", "p", "c"), f("a", "p", "c")];
    check("late_derivation_shortcut", late_derivations(&tc, &short, &sy, nn) == Ok(1), format!("{:?}", late_derivations(&tc, &short, &sy, nn)));
    check("late_derivation_chain_none", late_derivations(&tc, &chain, &sy, nn) == Ok(0), format!("{:?}", late_derivations(&tc, &chain, &sy, nn)));
    // 15. text form round trip
    let txt = "q(?x,?z), r(?z,?x) :- p(?x,?y), ?w(?y,?z), not r(?x,?z), ?z > 5, ?x != ?y";
    match parse_rule(txt, &sy) {
        Ok(r) => check("parse_roundtrip", rule_str(&r, &sy) == txt && r.pos.len() == 2 && r.neg.len() == 1 && r.filters.len() == 2 && r.heads.len() == 2 && r.pos[1][1] == T::V(3), rule_str(&r, &sy)),
        Err(e) => check("parse_roundtrip", false, e),
    }
    check("parse_fact", parse_fact("p(a,20)", &sy) == Ok(f("a", "p", "20")), "".into());
    check("worlds_cycle", (w[&f("a", "t", "a")] - 0.15).abs() < 1e-12 && (w[&f("a", "t", "b")] - 0.5).abs() < 1e-12, format!("{:?}", w));

    // 16. shapes of the negated part used by the C05 family F / C06 negation families
    // two negated atoms: p(a,b) and p(b,a) block each other, p(c,d) is blocked by r(c,d), p(a,c) passes
    let two_neg = vec![Rule { pos: vec![[x, c("p"), y]], neg: vec![[y, c("p"), x], [x, c("r"), y]], heads: vec![[x, c("q"), y]], ..Default::default() }];
    let inp = vec![f("a", "p", "b"), f("b", "p", "a"), f("a", "p", "c"), f("c", "p", "d"), f("c", "r", "d")];
    let m = model_set(&two_neg, &inp, &sy, nn).unwrap();
    check("two_negated_atoms", m.len() == 6 && m.contains(&f("a", "q", "c")), format!("{:?}", m));
    // a fully ground negated atom switches the whole rule
    let gneg = vec![Rule { pos: vec![[x, c("p"), y]], neg: vec![[c("a"), c("p"), c("a")]], heads: vec![[x, c("q"), y]], ..Default::default() }];
    let m = model_set(&gneg, &[f("a", "p", "b"), f("b", "p", "c")], &sy, nn).unwrap();
    check("ground_negated_atom_absent", m.len() == 4 && m.contains(&f("a", "q", "b")) && m.contains(&f("b", "q", "c")), format!("{:?}", m));
    let m = model_set(&gneg, &[f("a", "p", "b"), f("a", "p", "a")], &sy, nn).unwrap();
    check("ground_negated_atom_present", m.len() == 2, format!("{:?}", m));
    // filter next to a negated atom: p(a,1) fails the filter, p(b,20) is blocked by q(b,20)
    let fneg = vec![Rule { pos: vec![[x, c("p"), y]], neg: vec![[x, c("q"), y]], filters: vec![Filter { var: 1, op: FOp::Gt, rhs: Rhs::Num(5.0) }], heads: vec![[x, c("r"), y]], ..Default::default() }];
    let m = model_set(&fneg, &[f("a", "p", "20"), f("b", "p", "20"), f("b", "q", "20"), f("a", "p", "1")], &sy, nn).unwrap();
    check("filter_and_negated_atom", m.len() == 5 && m.contains(&f("a", "r", "20")), format!("{:?}", m));
    // worlds, two negated atoms whose formulas share a seed: r(a,b) needs p(a,b) and p(b,b);
    // q(a,b) = p(a,b) and not p(b,a) [never there] and not r(a,b) = p(a,b) and not p(b,b) = .5 * .6;
    // q(b,b) = p(b,b) and not p(b,b) = impossible
    let corr = vec![
        Rule { pos: vec![[x, c("p"), z], [z, c("p"), y]], heads: vec![[x, c("r"), y]], ..Default::default() },
        Rule { pos: vec![[x, c("p"), y]], neg: vec![[y, c("p"), x], [x, c("r"), y]], heads: vec![[x, c("q"), y]], ..Default::default() },
    ];
    let w = worlds(&corr, &[], &[(f("a", "p", "b"), 0.5), (f("b", "p", "b"), 0.4)], &sy, nn).unwrap();
    check(
        "worlds_two_correlated_negated_atoms",
        (w[&f("a", "q", "b")] - 0.3).abs() < 1e-12 && (w[&f("a", "r", "b")] - 0.2).abs() < 1e-12 && (w[&f("b", "r", "b")] - 0.4).abs() < 1e-12 && !w.contains_key(&f("b", "q", "b")) && w.len() == 5,
        format!("{:?}", w),
    );

    errs
}
