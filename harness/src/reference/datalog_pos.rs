//! R-datalog-pos — naive least fixpoint of POSITIVE triple rules over ground string triples.
//!
//! Deliberately boring: atoms are triples of terms (constant | variable) in all three positions
//! (so repeated variables, variable predicates and several conclusions need no special code),
//! evaluation is the textbook simultaneous ("Jacobi") naive iteration: round k applies every rule
//! to the facts known at the end of round k-1. Every fact therefore carries its *stage* = the first
//! round in which it appears = the height of its shallowest derivation tree (input facts: 0).
//! Never calls Kolibrie code. Used by C18 (stage = derivation depth) and by C19's materialisation part.
use std::collections::{BTreeMap, BTreeSet};

#[derive(Clone, Debug, PartialEq, Eq, PartialOrd, Ord, Hash)]
pub enum T {
    C(String),
    V(String),
}

impl T {
    pub fn is_var(&self) -> bool {
        matches!(self, T::V(_))
    }
}

pub type Atom = [T; 3];
pub type Fact = [String; 3];
pub type Env = BTreeMap<String, String>;

/// Filter between two variables of the rule body: `?a = ?b` / `?a != ?b` on the bound values (the only
/// filter form whose meaning is the same for every value: Kolibrie's `evaluate_filters` compares two
/// bound variables by dictionary id, and the dictionary is a bijection on lexical forms).
#[derive(Clone, Debug, PartialEq, Eq, Hash)]
pub struct Filter {
    pub left: String,
    pub equal: bool,
    pub right: String,
}

#[derive(Clone, Debug, PartialEq, Eq, Hash)]
pub struct Rule {
    pub premise: Vec<Atom>,
    pub conclusion: Vec<Atom>,
    /// conjunction of variable-variable (in)equalities, evaluated on every body match
    pub filters: Vec<Filter>,
}

/// "?x" is a variable named x, anything else a constant.
pub fn term(s: &str) -> T {
    match s.strip_prefix('?') {
        Some(v) => T::V(v.to_string()),
        None => T::C(s.to_string()),
    }
}

pub fn show_term(t: &T) -> String {
    match t {
        T::C(c) => c.clone(),
        T::V(v) => format!("?{}", v),
    }
}

/// "s p o" (three white-space separated terms)
pub fn atom(s: &str) -> Atom {
    let w: Vec<&str> = s.split_whitespace().collect();
    assert!(w.len() == 3, "atom needs three terms: {:?}", s);
    [term(w[0]), term(w[1]), term(w[2])]
}

pub fn show_atom(a: &Atom) -> String {
    format!("{} {} {}", show_term(&a[0]), show_term(&a[1]), show_term(&a[2]))
}

pub fn fact(s: &str) -> Fact {
    let w: Vec<&str> = s.split_whitespace().collect();
    assert!(w.len() == 3 && !s.contains('?'), "fact needs three constants: {:?}", s);
    [w[0].to_string(), w[1].to_string(), w[2].to_string()]
}

pub fn show_fact(f: &Fact) -> String {
    format!("{} {} {}", f[0], f[1], f[2])
}

/// "?a != ?b" / "?a = ?b"
pub fn filter(s: &str) -> Filter {
    let w: Vec<&str> = s.split_whitespace().collect();
    assert!(w.len() == 3 && (w[1] == "=" || w[1] == "!="), "filter must be '?a = ?b' or '?a != ?b': {:?}", s);
    let var = |t: &str| t.strip_prefix('?').unwrap_or_else(|| panic!("filter operands must be variables: {:?}", s)).to_string();
    Filter { left: var(w[0]), equal: w[1] == "=", right: var(w[2]) }
}

pub fn show_filter(f: &Filter) -> String {
    format!("?{} {} ?{}", f.left, if f.equal { "=" } else { "!=" }, f.right)
}

/// "head1, head2 :- body1, body2" optionally followed by " | ?a != ?b, ?c = ?d" (filters)
pub fn rule(s: &str) -> Rule {
    let (h, rest) = s.split_once(":-").unwrap_or_else(|| panic!("rule needs ':-': {:?}", s));
    let (b, fl) = match rest.split_once('|') {
        Some((b, f)) => (b, Some(f)),
        None => (rest, None),
    };
    Rule {
        premise: b.split(',').map(|a| atom(a.trim())).collect(),
        conclusion: h.split(',').map(|a| atom(a.trim())).collect(),
        filters: fl.map(|f| f.split(',').map(|x| filter(x.trim())).collect()).unwrap_or_default(),
    }
}

pub fn show_rule(r: &Rule) -> String {
    let mut s = format!(
        "{} :- {}",
        r.conclusion.iter().map(show_atom).collect::<Vec<_>>().join(", "),
        r.premise.iter().map(show_atom).collect::<Vec<_>>().join(", ")
    );
    if !r.filters.is_empty() {
        s.push_str(" | ");
        s.push_str(&r.filters.iter().map(show_filter).collect::<Vec<_>>().join(", "));
    }
    s
}

pub fn atom_vars(a: &Atom) -> Vec<String> {
    let mut v = Vec::new();
    for t in a {
        if let T::V(n) = t {
            if !v.contains(n) {
                v.push(n.clone());
            }
        }
    }
    v
}

impl Rule {
    /// every conclusion variable and every filter variable occurs in some premise
    pub fn is_safe(&self) -> bool {
        let bound: BTreeSet<String> = self.premise.iter().flat_map(atom_vars).collect();
        self.conclusion.iter().flat_map(atom_vars).all(|v| bound.contains(&v)) && self.filters.iter().all(|f| bound.contains(&f.left) && bound.contains(&f.right))
    }
    /// all filters hold under a body match (every filter variable is bound: the rule is safe)
    pub fn filters_hold(&self, env: &Env) -> bool {
        self.filters.iter().all(|f| match (env.get(&f.left), env.get(&f.right)) {
            (Some(a), Some(b)) => (a == b) == f.equal,
            _ => panic!("filter variable unbound in {}", show_rule(self)),
        })
    }
}

/// Extend `env` so that `a` instantiated by it equals `f`; false (env untouched) if impossible.
pub fn match_atom(a: &Atom, f: &Fact, env: &mut Env) -> bool {
    let mut e = env.clone();
    for i in 0..3 {
        match &a[i] {
            T::C(c) => {
                if *c != f[i] {
                    return false;
                }
            }
            T::V(v) => match e.get(v) {
                Some(b) => {
                    if *b != f[i] {
                        return false;
                    }
                }
                None => {
                    e.insert(v.clone(), f[i].clone());
                }
            },
        }
    }
    *env = e;
    true
}

/// All homomorphisms of the conjunction `atoms` into `facts` extending `env`.
pub fn homomorphisms<'a>(atoms: &[Atom], facts: impl Iterator<Item = &'a Fact> + Clone, env: &Env) -> Vec<Env> {
    let mut envs = vec![env.clone()];
    for a in atoms {
        let mut next = Vec::new();
        for e in &envs {
            for f in facts.clone() {
                let mut e2 = e.clone();
                if match_atom(a, f, &mut e2) {
                    next.push(e2);
                }
            }
        }
        envs = next;
        if envs.is_empty() {
            break;
        }
    }
    envs
}

pub fn instantiate(a: &Atom, env: &Env) -> Option<Fact> {
    let g = |t: &T| match t {
        T::C(c) => Some(c.clone()),
        T::V(v) => env.get(v).cloned(),
    };
    Some([g(&a[0])?, g(&a[1])?, g(&a[2])?])
}

/// Least model with stages. Panics on an unsafe rule (the generators never produce one).
pub fn least_model(facts: &BTreeSet<Fact>, rules: &[Rule]) -> BTreeMap<Fact, usize> {
    for r in rules {
        assert!(r.is_safe(), "unsafe rule {}", show_rule(r));
    }
    let mut model: BTreeMap<Fact, usize> = facts.iter().map(|f| (f.clone(), 0)).collect();
    let mut round = 0usize;
    loop {
        round += 1;
        let mut new: BTreeSet<Fact> = BTreeSet::new();
        for r in rules {
            for env in homomorphisms(&r.premise, model.keys(), &Env::new()) {
                if !r.filters_hold(&env) {
                    continue;
                }
                for c in &r.conclusion {
                    let f = instantiate(c, &env).expect("safe rule");
                    if !model.contains_key(&f) {
                        new.insert(f);
                    }
                }
            }
        }
        if new.is_empty() {
            return model;
        }
        for f in new {
            model.insert(f, round);
        }
        assert!(round < 10_000, "fixpoint does not terminate");
    }
}

/// Facts of `facts` matching the goal pattern, each with the binding of the goal's variables.
pub fn matching<'a>(goal: &Atom, facts: impl Iterator<Item = &'a Fact>) -> Vec<(Fact, Env)> {
    let mut out = Vec::new();
    for f in facts {
        let mut e = Env::new();
        if match_atom(goal, f, &mut e) {
            out.push((f.clone(), e));
        }
    }
    out
}

/// A conjunction (denial constraint body) has a match in the fact set.
pub fn satisfiable<'a>(atoms: &[Atom], facts: impl Iterator<Item = &'a Fact> + Clone) -> bool {
    !homomorphisms(atoms, facts, &Env::new()).is_empty()
}

pub fn selftest() -> Vec<String> {
    let mut errs = Vec::new();
    let fs = |v: &[&str]| -> BTreeSet<Fact> { v.iter().map(|s| fact(s)).collect() };
    let mut expect = |name: &str, facts: &[&str], rules: &[&str], want: &[(&str, usize)]| {
        let rs: Vec<Rule> = rules.iter().map(|r| rule(r)).collect();
        let m = least_model(&fs(facts), &rs);
        let w: BTreeMap<Fact, usize> = want.iter().map(|(f, s)| (fact(f), *s)).collect();
        if m != w {
            errs.push(format!("datalog_pos/{}: model {:?}, expected {:?}", name, m, w));
        }
    };
    // 1. right-linear transitive closure over a chain of 3 edges: stage = path length
    expect(
        "tc-linear",
        &["a par b", "b par c", "c par d"],
        &["?x anc ?y :- ?x par ?y", "?x anc ?z :- ?x par ?y, ?y anc ?z"],
        &[("a par b", 0), ("b par c", 0), ("c par d", 0), ("a anc b", 1), ("b anc c", 1), ("c anc d", 1), ("a anc c", 2), ("b anc d", 2), ("a anc d", 3)],
    );
    // 2. doubly recursive closure over 4 edges: a..e is reached at stage 3 (2+2 split), not 4
    expect(
        "tc-double-min-depth",
        &["a par b", "b par c", "c par d", "d par e"],
        &["?x anc ?y :- ?x par ?y", "?x anc ?z :- ?x anc ?y, ?y anc ?z"],
        &[
            ("a par b", 0), ("b par c", 0), ("c par d", 0), ("d par e", 0),
            ("a anc b", 1), ("b anc c", 1), ("c anc d", 1), ("d anc e", 1),
            ("a anc c", 2), ("b anc d", 2), ("c anc e", 2),
            ("a anc d", 3), ("b anc e", 3), ("a anc e", 3),
        ],
    );
    // 3. repeated variable in premise and conclusion, constant in conclusion
    expect("repeated-var", &["a p a", "a p b"], &["?x q ?x :- ?x p ?x", "?x r k :- ?x p ?y"], &[("a p a", 0), ("a p b", 0), ("a q a", 1), ("a r k", 1)]);
    // 4. variable predicate in premise and conclusion: inverse of everything, closes after one round
    expect("var-predicate", &["a p b", "b q c"], &["?y ?r ?x :- ?x ?r ?y"], &[("a p b", 0), ("b q c", 0), ("b p a", 1), ("c q b", 1)]);
    // 5. two conclusions, constant in premise, chained rule: simultaneous rounds
    expect(
        "two-conclusions",
        &["a p b", "c p b"],
        &["?x q ?y, ?y r ?x :- ?x p ?y", "?x s ?x :- b r ?x, ?x q b"],
        &[("a p b", 0), ("c p b", 0), ("a q b", 1), ("c q b", 1), ("b r a", 1), ("b r c", 1), ("a s a", 2), ("c s c", 2)],
    );
    // 6. a fact that is both given and derivable keeps stage 0; empty program
    expect("given-and-derived", &["a p b", "a q b"], &["?x q ?y :- ?x p ?y"], &[("a p b", 0), ("a q b", 0)]);
    expect("no-rules", &["a p b"], &[], &[("a p b", 0)]);
    // 7. mutual recursion through two rules
    expect(
        "mutual",
        &["a p b"],
        &["?y q ?x :- ?x p ?y", "?x p ?x :- ?x q ?y"],
        &[("a p b", 0), ("b q a", 1), ("b p b", 2), ("b q b", 3)],
    );
    // goal matching
    let facts = fs(&["a p a", "a p b", "b q a", "p p p"]);
    let mut want = |name: &str, goal: &str, exp: &[&str]| {
        let got: BTreeSet<Fact> = matching(&atom(goal), facts.iter()).into_iter().map(|x| x.0).collect();
        let e = fs(exp);
        if got != e {
            errs.push(format!("datalog_pos/match/{}: {:?}, expected {:?}", name, got, e));
        }
    };
    want("all", "?s ?p ?o", &["a p a", "a p b", "b q a", "p p p"]);
    want("repeated-so", "?x p ?x", &["a p a", "p p p"]);
    want("repeated-all", "?x ?x ?x", &["p p p"]);
    want("var-pred", "a ?r ?o", &["a p a", "a p b"]);
    want("ground-hit", "b q a", &["b q a"]);
    want("ground-miss", "b q b", &[]);
    want("const-object", "?s ?p a", &["a p a", "b q a"]);
    let m = matching(&atom("?s ?r a"), facts.iter());
    let envs: BTreeSet<Vec<(String, String)>> = m.iter().map(|x| x.1.iter().map(|(k, v)| (k.clone(), v.clone())).collect()).collect();
    let exp: BTreeSet<Vec<(String, String)>> = [vec![("r".to_string(), "p".to_string()), ("s".to_string(), "a".to_string())], vec![("r".to_string(), "q".to_string()), ("s".to_string(), "b".to_string())]].into_iter().collect();
    if envs != exp {
        errs.push(format!("datalog_pos/match/envs: {:?}", envs));
    }
    // conjunction satisfiability (denial constraint bodies): both atoms may map to the same fact
    if !satisfiable(&[atom("?x f ?y"), atom("?y f ?x")], fs(&["a f a"]).iter()) {
        errs.push("datalog_pos/satisfiable: self-loop must satisfy the 2-cycle body".into());
    }
    if satisfiable(&[atom("?x f ?y"), atom("?y f ?x")], fs(&["a f b", "b f c"]).iter()) {
        errs.push("datalog_pos/satisfiable: chain must not satisfy the 2-cycle body".into());
    }
    if !rule("?x q ?y :- ?x p ?y").is_safe() || rule("?x q ?z :- ?x p ?y").is_safe() {
        errs.push("datalog_pos/is_safe".into());
    }
    if !rule("?x q ?y :- ?x p ?y | ?x != ?y").is_safe() || rule("?x q ?y :- ?x p ?y | ?x != ?z").is_safe() {
        errs.push("datalog_pos/is_safe(filter)".into());
    }
    // 8. filters: irreflexive copy; equality filter = repeated variable; filter inside a recursion
    //    (the filtered join stops the closure at the diagonal); round trip of the text form
    let mut expect = |name: &str, facts: &[&str], rules: &[&str], want: &[(&str, usize)]| {
        let rs: Vec<Rule> = rules.iter().map(|r| rule(r)).collect();
        let m = least_model(&fs(facts), &rs);
        let w: BTreeMap<Fact, usize> = want.iter().map(|(f, s)| (fact(f), *s)).collect();
        if m != w {
            errs.push(format!("datalog_pos/{}: model {:?}, expected {:?}", name, m, w));
        }
    };
    expect("filter-ne", &["a p a", "a p b"], &["?x q ?y :- ?x p ?y | ?x != ?y"], &[("a p a", 0), ("a p b", 0), ("a q b", 1)]);
    expect("filter-eq", &["a p a", "a p b"], &["?x q ?y :- ?x p ?y | ?x = ?y"], &[("a p a", 0), ("a p b", 0), ("a q a", 1)]);
    expect(
        "filter-in-recursion",
        &["a p b", "b p a"],
        &["?x p ?z :- ?x p ?y, ?y p ?z | ?x != ?z"],
        &[("a p b", 0), ("b p a", 0)],
    );
    expect(
        "filter-two",
        &["a p b", "b p c", "c p a"],
        &["?x q ?z :- ?x p ?y, ?y p ?z | ?x != ?z, ?y != ?z"],
        &[("a p b", 0), ("b p c", 0), ("c p a", 0), ("a q c", 1), ("b q a", 1), ("c q b", 1)],
    );
    let txt = "?x q ?z, ?z q ?x :- ?x p ?y, ?y p ?z | ?x != ?z, ?y = ?y";
    if show_rule(&rule(txt)) != txt {
        errs.push(format!("datalog_pos/rule text round trip: {:?}", show_rule(&rule(txt))));
    }
    errs
}
