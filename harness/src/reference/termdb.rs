//! Reference model for C15 (union part): a database is what it denotes lexically.
//! quads with lexical terms, named-graph identities (empty ones included), quoted terms, probability
//! seeds. Union = componentwise set union. Never calls Kolibrie code.
use std::collections::{BTreeMap, BTreeSet};

/// a term as written: plain lexical form or a (possibly nested) quoted triple
#[derive(Clone, Debug, PartialEq, Eq, Hash, PartialOrd, Ord)]
pub enum T {
    Plain(String),
    Quoted(Box<(T, T, T)>),
}

impl T {
    pub fn p(s: &str) -> T {
        T::Plain(s.to_string())
    }
    pub fn q(s: T, p: T, o: T) -> T {
        T::Quoted(Box::new((s, p, o)))
    }
    /// the documented rendering of `Dictionary::decode_term`: `<< s p o >>`, recursively
    pub fn render(&self) -> String {
        match self {
            T::Plain(s) => s.clone(),
            T::Quoted(b) => format!("<< {} {} {} >>", b.0.render(), b.1.render(), b.2.render()),
        }
    }
    /// this term and every quoted term nested inside it
    pub fn quoted_subterms(&self, acc: &mut BTreeSet<String>) {
        if let T::Quoted(b) = self {
            acc.insert(self.render());
            b.0.quoted_subterms(acc);
            b.1.quoted_subterms(acc);
            b.2.quoted_subterms(acc);
        }
    }
    pub fn nesting(&self) -> usize {
        match self {
            T::Plain(_) => 0,
            T::Quoted(b) => 1 + b.0.nesting().max(b.1.nesting()).max(b.2.nesting()),
        }
    }
}

#[derive(Clone, Default, Debug, PartialEq, Eq, Hash, PartialOrd, Ord)]
pub struct AbstractDb {
    /// (s, p, o, graph name or None for the default graph), all lexical
    pub quads: BTreeSet<(String, String, String, Option<String>)>,
    /// named graphs that exist (with or without quads)
    pub graphs: BTreeSet<String>,
    /// lexical triple -> probability (f64 bits)
    pub seeds: BTreeMap<(String, String, String), u64>,
    /// every quoted term known to the database, rendered
    pub quoted: BTreeSet<String>,
}

impl AbstractDb {
    pub fn add(&mut self, s: &T, p: &T, o: &T, g: Option<&str>) {
        for t in [s, p, o] {
            t.quoted_subterms(&mut self.quoted);
        }
        if let Some(g) = g {
            self.graphs.insert(g.to_string());
        }
        self.quads.insert((s.render(), p.render(), o.render(), g.map(|x| x.to_string())));
    }
    /// a quoted term the database knows without any quad using it (e.g. encoded ahead of use)
    pub fn note_quoted(&mut self, t: &T) {
        t.quoted_subterms(&mut self.quoted);
    }
    pub fn create_graph(&mut self, g: &str) {
        self.graphs.insert(g.to_string());
    }
    pub fn tag(&mut self, s: &T, p: &T, o: &T, prob: f64) {
        self.add(s, p, o, None);
        self.seeds.insert((s.render(), p.render(), o.render()), prob.to_bits());
    }
    /// None when the two databases give the same triple different probabilities (the property does
    /// not say which one wins; such pairs are not generated)
    pub fn union(&self, o: &AbstractDb) -> Option<AbstractDb> {
        let mut u = self.clone();
        u.quads.extend(o.quads.iter().cloned());
        u.graphs.extend(o.graphs.iter().cloned());
        u.quoted.extend(o.quoted.iter().cloned());
        for (k, v) in &o.seeds {
            match u.seeds.get(k) {
                Some(w) if w != v => return None,
                _ => {
                    u.seeds.insert(k.clone(), *v);
                }
            }
        }
        Some(u)
    }
}

pub fn selftest() -> Vec<String> {
    let mut errs = Vec::new();
    let (a, b, c, p, q) = (T::p("a"), T::p("b"), T::p("c"), T::p("p"), T::p("q"));
    let inner = T::q(a.clone(), p.clone(), b.clone());
    let outer = T::q(inner.clone(), q.clone(), c.clone());
    if inner.render() != "<< a p b >>" || outer.render() != "<< << a p b >> q c >>" || outer.nesting() != 2 || a.nesting() != 0 {
        errs.push("termdb reference: rendering/nesting of quoted terms wrong".into());
    }
    let mut x = AbstractDb::default();
    x.add(&a, &p, &b, None);
    x.add(&outer, &p, &c, Some("g1"));
    x.create_graph("g2");
    x.tag(&a, &q, &c, 0.5);
    let mut y = AbstractDb::default();
    y.add(&b, &p, &a, Some("g2"));
    y.add(&a, &p, &b, None);
    y.tag(&a, &q, &c, 0.5);
    let u = x.union(&y);
    let ok = match &u {
        Some(u) => {
            u.quads.len() == 4
                && u.graphs == ["g1", "g2"].iter().map(|s| s.to_string()).collect()
                && u.quoted == ["<< a p b >>", "<< << a p b >> q c >>"].iter().map(|s| s.to_string()).collect()
                && u.seeds.len() == 1
                && u.quads.contains(&("b".into(), "p".into(), "a".into(), Some("g2".into())))
                && u.quads.contains(&("<< << a p b >> q c >>".into(), "p".into(), "c".into(), Some("g1".into())))
                && u.quads.contains(&("a".into(), "q".into(), "c".into(), None))
        }
        None => false,
    };
    if !ok {
        errs.push(format!("termdb reference: union of the hand-built pair is wrong: {:?}", u));
    }
    if x.union(&y) != y.union(&x) {
        errs.push("termdb reference: union not commutative".into());
    }
    // a quoted term known without a quad: part of the database, carried by union, no quad / graph / seed
    let mut w = AbstractDb::default();
    w.note_quoted(&T::q(c.clone(), q.clone(), inner.clone()));
    let wq: BTreeSet<String> = ["<< a p b >>", "<< c q << a p b >> >>"].iter().map(|s| s.to_string()).collect();
    if w.quoted != wq || !w.quads.is_empty() || !w.graphs.is_empty() || !w.seeds.is_empty() {
        errs.push(format!("termdb reference: note_quoted wrong: {:?}", w));
    }
    match AbstractDb::default().union(&w) {
        Some(u) if u == w => {}
        other => errs.push(format!("termdb reference: union with an unreferenced quoted term wrong: {:?}", other)),
    }
    // a seed on a triple whose subject is a quoted term is keyed by the rendered text
    let mut sq = AbstractDb::default();
    sq.tag(&inner, &q, &c, 0.5);
    if sq.seeds.get(&("<< a p b >>".to_string(), "q".to_string(), "c".to_string())) != Some(&0.5f64.to_bits()) || !sq.quoted.contains("<< a p b >>") || sq.quads.len() != 1 {
        errs.push(format!("termdb reference: seed on a quoted-subject triple wrong: {:?}", sq));
    }
    let mut z = AbstractDb::default();
    z.tag(&a, &q, &c, 0.25);
    if x.union(&z).is_some() {
        errs.push("termdb reference: conflicting probabilities must be refused".into());
    }
    errs
}
