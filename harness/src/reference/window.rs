//! Reference model for C09: what a time window may report, read off the property statement only.
//! A stream is a non-decreasing list of timestamps; item i is "the item that arrived i-th".
//! Never calls Kolibrie code.
use std::collections::BTreeSet;

/// items (by arrival index) whose timestamp lies in the half-open interval [c - width, c)
pub fn interval(ts: &[usize], c: usize, width: usize) -> BTreeSet<usize> {
    let lo = c as i64 - width as i64;
    let hi = c as i64;
    ts.iter().enumerate().filter(|(_, &t)| (t as i64) >= lo && (t as i64) < hi).map(|(i, _)| i).collect()
}

/// one report: `at` = arrival index of the item whose arrival triggered it, `content` = reported items
#[derive(Clone, Debug, PartialEq, Eq, Hash)]
pub struct Firing {
    pub at: usize,
    pub content: BTreeSet<usize>,
}

#[derive(Default, Debug, Clone, PartialEq, Eq)]
pub struct Stats {
    /// firings whose content is non-empty
    pub nonempty_firings: u64,
    /// true when every consecutive gap is <= slide (completeness clause applies)
    pub dense: bool,
    /// closing non-empty intervals that had to be (and were) reported exactly once
    pub obligations: u64,
    /// the interval ends chosen by the greedy non-decreasing assignment
    pub chosen: Vec<usize>,
}

pub fn all_gaps_at_most(ts: &[usize], slide: usize) -> bool {
    ts.windows(2).all(|w| w[1] - w[0] <= slide)
}

/// The property statement, clause by clause. `completeness` = also apply the last clause
/// ("when consecutive timestamps are at most one slide apart every interval that closes is reported
/// exactly once", read for NON-EMPTY intervals only, see DESIGN.md C09).
/// Err((symptom class, detail)).
pub fn check(ts: &[usize], width: usize, slide: usize, firings: &[Firing], completeness: bool) -> Result<Stats, (String, String)> {
    assert!(width >= 1 && slide >= 1);
    let mut st = Stats::default();
    // clause 2a: strictly increasing trigger times
    for w in firings.windows(2) {
        let (t0, t1) = (ts[w[0].at], ts[w[1].at]);
        if t1 <= t0 {
            return Err(("trigger_times_not_strictly_increasing".into(), format!("report triggered at t={} follows a report triggered at t={}", t1, t0)));
        }
    }
    // clause 1: each content is exactly one aligned interval [c-width, c), c multiple of slide, c <= trigger time
    // clause 2b: the c can be chosen non-decreasing (greedy smallest admissible c is optimal)
    let mut prev_c = 0usize;
    for f in firings {
        if f.at >= ts.len() {
            return Err(("report_outside_stream".into(), format!("report attributed to arrival {} of a {}-item stream", f.at, ts.len())));
        }
        let t = ts[f.at];
        let mut cands: Vec<usize> = Vec::new();
        let mut c = 0usize;
        while c <= t {
            if interval(ts, c, width) == f.content {
                cands.push(c);
            }
            c += slide;
        }
        if cands.is_empty() {
            // diagnosis only
            let mut why = String::new();
            let mut c = 0usize;
            let mut best: Option<(usize, usize)> = None;
            while c <= t + width + slide {
                let iv = interval(ts, c, width);
                let diff = iv.symmetric_difference(&f.content).count();
                if best.map_or(true, |b| diff < b.1) {
                    best = Some((c, diff));
                }
                c += slide;
            }
            if let Some((c, _)) = best {
                let iv = interval(ts, c, width);
                let missing: Vec<_> = iv.difference(&f.content).collect();
                let foreign: Vec<_> = f.content.difference(&iv).collect();
                why = format!("; nearest aligned interval is c={}{} [{}..{}): missing items {:?}, foreign items {:?}", c, if c > t { " (which is after the trigger)" } else { "" }, c as i64 - width as i64, c, missing, foreign);
            }
            return Err(("content_is_not_one_aligned_interval".into(), format!("report at t={} (arrival {}) has content {:?}: no c = k*{} <= {} with items in [c-{}, c) equal to it{}", t, f.at, f.content, slide, t, width, why)));
        }
        match cands.iter().find(|c| **c >= prev_c) {
            Some(c) => {
                prev_c = *c;
                st.chosen.push(*c);
            }
            None => {
                return Err(("intervals_decrease".into(), format!("report at t={} with content {:?} can only be an interval ending at {:?}, but an earlier report already needed an interval ending at {}", t, f.content, cands, prev_c)));
            }
        }
        if !f.content.is_empty() {
            st.nonempty_firings += 1;
        }
    }
    // clause 3
    st.dense = all_gaps_at_most(ts, slide);
    if completeness && st.dense && !ts.is_empty() {
        let (first, last) = (ts[0], *ts.last().unwrap());
        let mut c = 0usize;
        while c <= last {
            if c > first {
                let iv = interval(ts, c, width);
                if !iv.is_empty() {
                    let n = firings.iter().filter(|f| f.content == iv).count();
                    if n == 0 {
                        return Err(("closing_interval_not_reported".into(), format!("all gaps <= slide, interval [{}..{}) = items {:?} closed at or before t_last={} but was never reported", c as i64 - width as i64, c, iv, last)));
                    }
                    if n > 1 {
                        return Err(("closing_interval_reported_more_than_once".into(), format!("all gaps <= slide, interval [{}..{}) = items {:?} was reported {} times", c as i64 - width as i64, c, iv, n)));
                    }
                    st.obligations += 1;
                }
            }
            c += slide;
        }
    }
    Ok(st)
}

/// smallest candidate interval end worth looking at: every aligned c below it has an empty interval
/// (c <= ts[0] - width), and so has this one, so it stands for all of them
fn first_candidate(ts: &[usize], width: usize, slide: usize) -> usize {
    (ts.first().copied().unwrap_or(0).saturating_sub(width) / slide) * slide
}

/// arrival indices whose timestamp lies in [c - width, c), overflow-free for large timestamps
fn interval_abs(ts: &[usize], c: usize, width: usize) -> BTreeSet<usize> {
    ts.iter().enumerate().filter(|(_, &t)| (t as u128) + (width as u128) >= c as u128 && t < c).map(|(i, _)| i).collect()
}

/// VALUES (not arrival indices) of the items whose timestamp lies in [c - width, c)
pub fn interval_values(ts: &[usize], values: &[usize], c: usize, width: usize) -> BTreeSet<usize> {
    interval_abs(ts, c, width).into_iter().map(|i| values[i]).collect()
}

/// Generalisation of `check` (same statement, same clauses, same symptom classes) to
///  * item VALUES that may repeat: `values[i]` is what was fed at arrival i and a report is the SET of
///    values of one aligned interval (a window's content is a set - the statement speaks of "the set of
///    items"), so two different intervals may have equal contents;
///  * timestamps of any magnitude (candidates start at `first_candidate`, not at 0).
/// With repeated values "reported exactly once" cannot be counted by content equality. It is decided
/// exactly: every report stands for one interval end c (aligned, <= trigger time, content equal), the c
/// are non-decreasing, and - dense stream, `completeness` - every c in (t_first, t_last] with a
/// NON-EMPTY interval is used exactly once. Only those c have non-empty intervals, so the non-empty
/// reports must match them one to one IN ORDER (an order-preserving bijection between two sequences is
/// unique); empty reports take the smallest admissible empty interval.
pub fn check_values(ts: &[usize], values: &[usize], width: usize, slide: usize, firings: &[Firing], completeness: bool) -> Result<Stats, (String, String)> {
    assert!(width >= 1 && slide >= 1 && ts.len() == values.len());
    let mut st = Stats::default();
    for f in firings {
        if f.at >= ts.len() {
            return Err(("report_outside_stream".into(), format!("report attributed to arrival {} of a {}-item stream", f.at, ts.len())));
        }
    }
    for w in firings.windows(2) {
        let (t0, t1) = (ts[w[0].at], ts[w[1].at]);
        if t1 <= t0 {
            return Err(("trigger_times_not_strictly_increasing".into(), format!("report triggered at t={} follows a report triggered at t={}", t1, t0)));
        }
    }
    let c0 = first_candidate(ts, width, slide);
    // aligned c in [from, t] whose value set equals `content`
    let cands_of = |content: &BTreeSet<usize>, t: usize| -> Vec<usize> {
        let mut v = Vec::new();
        let mut c = c0;
        while c <= t {
            if interval_values(ts, values, c, width) == *content {
                v.push(c);
            }
            c += slide;
        }
        v
    };
    let not_an_interval = |f: &Firing, t: usize| -> (String, String) {
        let mut best: Option<(usize, usize)> = None;
        let mut c = c0;
        while c <= t + width + slide {
            let diff = interval_values(ts, values, c, width).symmetric_difference(&f.content).count();
            if best.map_or(true, |b| diff < b.1) {
                best = Some((c, diff));
            }
            c += slide;
        }
        let mut why = String::new();
        if let Some((c, _)) = best {
            let iv = interval_values(ts, values, c, width);
            let missing: Vec<_> = iv.difference(&f.content).collect();
            let foreign: Vec<_> = f.content.difference(&iv).collect();
            why = format!("; nearest aligned interval is c={}{} [{}..{}): missing values {:?}, foreign values {:?}", c, if c > t { " (which is after the trigger)" } else { "" }, c as i128 - width as i128, c, missing, foreign);
        }
        ("content_is_not_one_aligned_interval".into(), format!("report at t={} (arrival {}) has content {:?}: no c = k*{} <= {} with the values of the items in [c-{}, c) equal to it{}", t, f.at, f.content, slide, t, width, why))
    };
    st.dense = all_gaps_at_most(ts, slide);
    let exact = completeness && st.dense && !ts.is_empty();
    // the interval ends that must be reported exactly once
    let mut obl: Vec<usize> = Vec::new();
    if exact {
        let (first, last) = (ts[0], *ts.last().unwrap());
        let mut c = c0;
        while c <= last {
            if c > first && !interval_abs(ts, c, width).is_empty() {
                obl.push(c);
            }
            c += slide;
        }
    }
    let mut k = 0usize; // next obligation
    let mut prev_c = c0;
    for f in firings {
        let t = ts[f.at];
        let cands = cands_of(&f.content, t);
        if cands.is_empty() {
            return Err(not_an_interval(f, t));
        }
        if !f.content.is_empty() {
            st.nonempty_firings += 1;
        }
        if exact && !f.content.is_empty() {
            if k < obl.len() && obl[k] >= prev_c && cands.contains(&obl[k]) {
                prev_c = obl[k];
                st.chosen.push(obl[k]);
                k += 1;
                continue;
            }
            let later: Vec<usize> = cands.iter().copied().filter(|c| *c >= prev_c).collect();
            if later.is_empty() {
                return Err(("intervals_decrease".into(), format!("report at t={} with content {:?} can only be an interval ending at {:?}, but an earlier report already needed an interval ending at {}", t, f.content, cands, prev_c)));
            }
            if k > 0 && later.iter().all(|c| *c <= obl[k - 1]) {
                return Err(("closing_interval_reported_more_than_once".into(), format!("all gaps <= slide, report at t={} with content {:?} can only be the interval ending at {:?}, which was already reported", t, f.content, later)));
            }
            let skipped = obl.get(k).copied().unwrap_or(0);
            return Err(("closing_interval_not_reported".into(), format!("all gaps <= slide, interval [{}..{}) = values {:?} closed but the next non-empty report (t={}, content {:?}) can only be a later interval {:?}", skipped as i128 - width as i128, skipped, interval_values(ts, values, skipped, width), t, f.content, later)));
        }
        match cands.iter().find(|c| **c >= prev_c) {
            Some(c) => {
                prev_c = *c;
                st.chosen.push(*c);
            }
            None => {
                return Err(("intervals_decrease".into(), format!("report at t={} with content {:?} can only be an interval ending at {:?}, but an earlier report already needed an interval ending at {}", t, f.content, cands, prev_c)));
            }
        }
    }
    if exact {
        if k < obl.len() {
            let c = obl[k];
            return Err(("closing_interval_not_reported".into(), format!("all gaps <= slide, interval [{}..{}) = values {:?} closed at or before t_last={} but was never reported", c as i128 - width as i128, c, interval_values(ts, values, c, width), ts.last().unwrap())));
        }
        st.obligations = obl.len() as u64;
    }
    Ok(st)
}

/// number of pairs of DIFFERENT obligated interval ends (dense stream) with equal non-empty value sets:
/// the situation in which "exactly once" cannot be counted by content equality (vacuity counter)
pub fn equal_content_obligations(ts: &[usize], values: &[usize], width: usize, slide: usize) -> u64 {
    if ts.is_empty() || !all_gaps_at_most(ts, slide) {
        return 0;
    }
    let (first, last) = (ts[0], *ts.last().unwrap());
    let mut sets: Vec<BTreeSet<usize>> = Vec::new();
    let mut c = first_candidate(ts, width, slide);
    while c <= last {
        if c > first && !interval_abs(ts, c, width).is_empty() {
            sets.push(interval_values(ts, values, c, width));
        }
        c += slide;
    }
    let mut n = 0;
    for i in 0..sets.len() {
        for j in i + 1..sets.len() {
            if sets[i] == sets[j] {
                n += 1;
            }
        }
    }
    n
}

fn f(at: usize, items: &[usize]) -> Firing {
    Firing { at, content: items.iter().cloned().collect() }
}

/// hand-computed micro cases
pub fn selftest() -> Vec<String> {
    let mut errs = Vec::new();
    let mut expect = |name: &str, r: Result<Stats, (String, String)>, want: Result<u64, &str>| match (r, want) {
        (Ok(s), Ok(n)) if s.obligations == n => {}
        (Err((c, _)), Err(w)) if c == w => {}
        (r, w) => errs.push(format!("window reference: case '{}' gave {:?}, expected {:?}", name, r.map(|s| s.obligations).map_err(|e| e.0), w)),
    };
    // the repository's own example: ten items at 0..9, width 10 slide 2, four reports
    let ts: Vec<usize> = (0..10).collect();
    let four = vec![f(2, &[0, 1]), f(4, &[0, 1, 2, 3]), f(6, &[0, 1, 2, 3, 4, 5]), f(8, &[0, 1, 2, 3, 4, 5, 6, 7])];
    expect("repo example", check(&ts, 10, 2, &four, true), Ok(4));
    expect("one report dropped", check(&ts, 10, 2, &four[1..], true), Err("closing_interval_not_reported"));
    let mut twice = four.clone();
    twice.insert(2, f(5, &[0, 1, 2, 3]));
    expect("reported twice", check(&ts, 10, 2, &twice, true), Err("closing_interval_reported_more_than_once"));
    let mut swapped = four.clone();
    swapped[1].content = four[2].content.clone();
    swapped[2].content = four[1].content.clone();
    expect("c after trigger", check(&ts, 10, 2, &swapped, false), Err("content_is_not_one_aligned_interval"));
    let mut foreign = four.clone();
    foreign[0].content.insert(2);
    expect("border item included (< vs <=)", check(&ts, 10, 2, &foreign, true), Err("content_is_not_one_aligned_interval"));
    let mut missing = four.clone();
    missing[3].content.remove(&0);
    expect("item missing", check(&ts, 10, 2, &missing, true), Err("content_is_not_one_aligned_interval"));
    // width < slide: [1,3) closes at 3
    expect("width<slide ok", check(&[0, 1, 2, 3], 2, 3, &[f(3, &[1, 2])], true), Ok(1));
    expect("width<slide foreign", check(&[0, 1, 2, 3], 2, 3, &[f(3, &[0, 1, 2])], true), Err("content_is_not_one_aligned_interval"));
    // width not a multiple of slide: width 3 slide 2, ts 0..4: c=2 -> [-1,2)={0,1}; c=4 -> [1,4)={1,2,3}
    expect("3/2 ok", check(&[0, 1, 2, 3, 4], 3, 2, &[f(2, &[0, 1]), f(4, &[1, 2, 3])], true), Ok(2));
    // an empty report at t=3 can only be the interval ending at 0 (c=2 holds items) -> goes back behind c=2
    expect("3/2 empty report behind", check(&[0, 1, 2, 3, 4], 3, 2, &[f(2, &[0, 1]), f(3, &[]), f(4, &[1, 2, 3])], true), Err("intervals_decrease"));
    // width 1 slide 2: [1,2) is empty, an empty report at t=2 is fine (c=2) and nothing is demanded for it
    expect("empty closing interval", check(&[0, 2], 1, 2, &[f(1, &[])], true), Ok(0));
    expect("empty closing interval, silent", check(&[0, 2], 1, 2, &[], true), Ok(0));
    expect("3/2 same interval twice in order", check(&[0, 1, 2, 3, 4], 3, 2, &[f(3, &[0, 1]), f(4, &[0, 1])], false), Ok(0));
    expect("3/2 intervals go back", check(&[0, 1, 2, 3, 4], 3, 2, &[f(3, &[0, 1]), f(4, &[0, 1])], true), Err("closing_interval_reported_more_than_once"));
    expect("3/2 really decreasing", check(&[0, 1, 2, 3, 4, 4], 3, 2, &[f(4, &[1, 2, 3]), f(5, &[0, 1])], false), Err("trigger_times_not_strictly_increasing"));
    expect("3/2 decreasing at later time", check(&[0, 1, 2, 3, 4, 5], 3, 2, &[f(4, &[1, 2, 3]), f(5, &[0, 1])], false), Err("intervals_decrease"));
    // duplicates: two items at t=1 are both in [0,2)
    expect("duplicates", check(&[1, 1, 2], 2, 2, &[f(2, &[0, 1])], true), Ok(1));
    expect("duplicate dropped", check(&[1, 1, 2], 2, 2, &[f(2, &[0])], true), Err("content_is_not_one_aligned_interval"));
    // gaps larger than the slide: nothing is demanded, but what is reported must still be an interval
    expect("gap, silent", check(&[0, 5], 2, 1, &[], true), Ok(0));
    expect("gap, empty report", check(&[0, 5], 2, 1, &[f(1, &[])], true), Ok(0));
    expect("dense, silent", check(&[0, 1], 2, 1, &[], true), Err("closing_interval_not_reported"));
    expect("dense, silent, completeness off", check(&[0, 1], 2, 1, &[], false), Ok(0));
    // empty intervals are never demanded: width 1 slide 3, ts 0,1,2,3: c=3 -> [2,3)={2}
    expect("1/3", check(&[0, 1, 2, 3], 1, 3, &[f(3, &[2])], true), Ok(1));
    // same trigger time twice
    expect("two reports at one time", check(&[0, 1, 2], 1, 1, &[f(1, &[0]), f(2, &[1]), f(2, &[1])], false), Err("trigger_times_not_strictly_increasing"));
    // --- check_values: the same hand cases with identity values must give the same verdicts ---
    let id = |n: usize| (0..n).collect::<Vec<usize>>();
    expect("v: repo example", check_values(&ts, &id(10), 10, 2, &four, true), Ok(4));
    expect("v: one report dropped", check_values(&ts, &id(10), 10, 2, &four[1..], true), Err("closing_interval_not_reported"));
    expect("v: reported twice", check_values(&ts, &id(10), 10, 2, &twice, true), Err("closing_interval_reported_more_than_once"));
    expect("v: c after trigger", check_values(&ts, &id(10), 10, 2, &swapped, false), Err("content_is_not_one_aligned_interval"));
    expect("v: border item", check_values(&ts, &id(10), 10, 2, &foreign, true), Err("content_is_not_one_aligned_interval"));
    expect("v: item missing", check_values(&ts, &id(10), 10, 2, &missing, true), Err("content_is_not_one_aligned_interval"));
    expect("v: width<slide ok", check_values(&[0, 1, 2, 3], &id(4), 2, 3, &[f(3, &[1, 2])], true), Ok(1));
    expect("v: 3/2 ok", check_values(&[0, 1, 2, 3, 4], &id(5), 3, 2, &[f(2, &[0, 1]), f(4, &[1, 2, 3])], true), Ok(2));
    expect("v: 3/2 empty report behind", check_values(&[0, 1, 2, 3, 4], &id(5), 3, 2, &[f(2, &[0, 1]), f(3, &[]), f(4, &[1, 2, 3])], true), Err("intervals_decrease"));
    expect("v: empty closing interval", check_values(&[0, 2], &id(2), 1, 2, &[f(1, &[])], true), Ok(0));
    expect("v: 3/2 same interval twice in order", check_values(&[0, 1, 2, 3, 4], &id(5), 3, 2, &[f(3, &[0, 1]), f(4, &[0, 1])], false), Ok(0));
    expect("v: 3/2 intervals go back", check_values(&[0, 1, 2, 3, 4], &id(5), 3, 2, &[f(3, &[0, 1]), f(4, &[0, 1])], true), Err("closing_interval_reported_more_than_once"));
    expect("v: 3/2 decreasing at later time", check_values(&[0, 1, 2, 3, 4, 5], &id(6), 3, 2, &[f(4, &[1, 2, 3]), f(5, &[0, 1])], false), Err("intervals_decrease"));
    expect("v: duplicates", check_values(&[1, 1, 2], &id(3), 2, 2, &[f(2, &[0, 1])], true), Ok(1));
    expect("v: dense, silent", check_values(&[0, 1], &id(2), 2, 1, &[], true), Err("closing_interval_not_reported"));
    expect("v: gap, empty report", check_values(&[0, 5], &id(2), 2, 1, &[f(1, &[])], true), Ok(0));
    expect("v: two reports at one time", check_values(&[0, 1, 2], &id(3), 1, 1, &[f(1, &[0]), f(2, &[1]), f(2, &[1])], false), Err("trigger_times_not_strictly_increasing"));
    // repeated values: four items all carrying value 0, width 2 slide 1: the intervals ending at 1, 2, 3
    // all have content {0} and each must be reported once
    expect("v: three equal contents", check_values(&[0, 1, 2, 3], &[0, 0, 0, 0], 2, 1, &[f(1, &[0]), f(2, &[0]), f(3, &[0])], true), Ok(3));
    expect("v: three equal contents, one dropped", check_values(&[0, 1, 2, 3], &[0, 0, 0, 0], 2, 1, &[f(1, &[0]), f(3, &[0])], true), Err("closing_interval_not_reported"));
    expect("v: three equal contents, one dropped, safety only", check_values(&[0, 1, 2, 3], &[0, 0, 0, 0], 2, 1, &[f(1, &[0]), f(3, &[0])], false), Ok(0));
    // values 0,1,0 at 0,1,2, width 1 slide 1: c=1 -> {0}, c=2 -> {1}; {0} again at t=2 can only be c=1 again
    expect("v: alternating ok", check_values(&[0, 1, 2], &[0, 1, 0], 1, 1, &[f(1, &[0]), f(2, &[1])], true), Ok(2));
    expect("v: stale content", check_values(&[0, 1, 2], &[0, 1, 0], 1, 1, &[f(1, &[0]), f(2, &[0])], true), Err("closing_interval_reported_more_than_once"));
    expect("v: foreign value", check_values(&[0, 1, 2], &[0, 1, 0], 1, 1, &[f(1, &[0, 1])], true), Err("content_is_not_one_aligned_interval"));
    // a value that is in the interval twice is reported as one element
    expect("v: value twice in one interval", check_values(&[0, 1, 2], &[7, 7, 8], 2, 2, &[f(2, &[7])], true), Ok(1));
    // large timestamps: B odd, slide 2 -> aligned ends are B+1, B+3; [B-1, B+1) holds the first item only
    let b = 1_700_000_000_003usize;
    expect("v: large offset ok", check_values(&[b, b + 1, b + 2], &id(3), 2, 2, &[f(1, &[0])], true), Ok(1));
    expect("v: large offset, unaligned interval", check_values(&[b, b + 1, b + 2], &id(3), 2, 2, &[f(1, &[0]), f(2, &[0, 1])], true), Err("content_is_not_one_aligned_interval"));
    expect("v: large offset, silent", check_values(&[b, b + 1, b + 2], &id(3), 2, 2, &[], true), Err("closing_interval_not_reported"));
    let big = (1usize << 53) - 20;
    expect("v: 2^53-20, width 3 slide 3", check_values(&[big, big + 1, big + 2, big + 3], &id(4), 3, 3, &[f(3, &[0, 1, 2])], true), Ok(1));
    expect("v: 2^53-20, width 3 slide 3, border item included", check_values(&[big, big + 1, big + 2, big + 3], &id(4), 3, 3, &[f(3, &[0, 1, 2, 3])], true), Err("content_is_not_one_aligned_interval"));
    if equal_content_obligations(&[0, 1, 2, 3], &[0, 0, 0, 0], 2, 1) != 3 || equal_content_obligations(&[0, 1, 2], &[0, 1, 0], 1, 1) != 0 {
        errs.push("window reference: equal_content_obligations() wrong".into());
    }
    if interval(&[0, 1, 2, 3], 4, 2) !=[2usize, 3].into_iter().collect() || !interval(&[0, 1], 0, 3).is_empty() || interval(&[0, 1, 5], 2, 5) != [0usize, 1].into_iter().collect() {
        errs.push("window reference: interval() wrong".into());
    }
    errs
}
