//! R-loader — generator + reader pair for the line-oriented document subset of C13.
//!
//! One abstract document (`Vec<Line>`) is rendered to N-Triples, N-Quads, Turtle (with
//! `@prefix`), N3 and the RDF/XML subset Kolibrie's `parse_rdf` supports; `read` parses
//! exactly that generated subset back (independent of the generator), and `lexical` gives
//! the lexical form in which a term is expected in the store. Nothing here calls Kolibrie.
//!
//! Lexical forms ("terms as written", in the form Kolibrie's loaders document):
//!   IRI            -> the IRI without `<>`                       (all loaders)
//!   blank node     -> `_:label`                                  (all loaders keep the label)
//!   plain literal  -> the decoded lexical value, no quotes       (N-Triples, N-Quads, Turtle, RDF/XML,
//!                     SPARQL INSERT DATA, encode_term_star)
//!   "v"^^<dt>      -> `v`   (clean_ntriples_term drops the datatype; so do encode_term_star and
//!                     the SPARQL path `literal_lexical_value`)
//!   "v"@en         -> `v@en` (clean_ntriples_term: `format!("{literal_value}{rest}")`; the only loader
//!                     code that handles a language tag deliberately in the quote-less convention)
//!   << s p o >>    -> `<< s p o >>` with the inner terms in lexical form (Dictionary::decode_term)
//! N3 is the documented exception (`resolve_term` keeps the literal token: quotes, raw escapes,
//! `@lang`, `^^` + datatype IRI without `<>`): `lexical(.., Format::N3)` models that token form, so
//! that the *absolute* clause of C13 can be checked for N3 too; the difference between the N3 form
//! and the form of every other loader is then reported by the *cross-format* clause of C13.
use std::collections::BTreeSet;

#[derive(Clone, Debug, PartialEq, Eq, Hash, PartialOrd, Ord)]
pub enum Term {
    Iri(String),
    /// label without the leading `_:`
    Blank(String),
    Lit { value: String, lang: Option<String>, dt: Option<String> },
    Quoted(Box<(Term, Term, Term)>),
}

impl Term {
    pub fn iri(s: &str) -> Term {
        Term::Iri(s.to_string())
    }
    pub fn lit(s: &str) -> Term {
        Term::Lit { value: s.to_string(), lang: None, dt: None }
    }
    pub fn lang(s: &str, l: &str) -> Term {
        Term::Lit { value: s.to_string(), lang: Some(l.to_string()), dt: None }
    }
    pub fn typed(s: &str, dt: &str) -> Term {
        Term::Lit { value: s.to_string(), lang: None, dt: Some(dt.to_string()) }
    }
    pub fn quoted(s: Term, p: Term, o: Term) -> Term {
        Term::Quoted(Box::new((s, p, o)))
    }
    pub fn has_quoted(&self) -> bool {
        matches!(self, Term::Quoted(_))
    }
}

/// How a triple line is tied to its neighbour in the formats that have statement punctuation (Turtle, N3)
/// or property lists (RDF/XML). In N-Triples / N-Quads every triple line is its own `s p o .` line whatever
/// the link. A linked pair is always (Open* at line i, its partner at line i+1), same subject (`OpenComma`:
/// same predicate too).
#[derive(Clone, Copy, Debug, PartialEq, Eq, Hash)]
pub enum Link {
    None,
    /// Turtle/N3: `s p o ;` — the statement stays open and is finished by the next physical line
    OpenNl,
    /// Turtle/N3: `    p o .` — continuation line of an `OpenNl` line (the layout generate_turtle writes)
    ContNl,
    /// Turtle/N3: `s p o ; p2 o2 .` on ONE physical line, p2/o2 taken from the next abstract line
    OpenSemi,
    /// Turtle/N3: `s p o , o2 .` on ONE physical line, o2 taken from the next abstract line
    OpenComma,
    /// Turtle/N3: an empty physical line (the triple was written on the previous line); RDF/XML: nothing
    Absorbed,
}

/// Physical layout of the line formats (RDF/XML is always written plain).
#[derive(Clone, Copy, Debug, PartialEq, Eq, Hash)]
pub enum Layout {
    /// single spaces, ` .`, LF after every line
    Plain,
    /// CRLF line ends
    CrLf,
    /// TAB instead of the separating spaces
    Tabs,
    /// the last line has no line terminator
    NoFinalNewline,
    /// no white space before the closing `.` (`<o>.`)
    TightDot,
}

pub const LAYOUTS: [Layout; 5] = [Layout::Plain, Layout::CrLf, Layout::Tabs, Layout::NoFinalNewline, Layout::TightDot];

#[derive(Clone, Debug, PartialEq, Eq, Hash)]
pub enum Line {
    /// `pname`: write IRIs through a declared prefix where one applies (Turtle, N3, RDF/XML predicates)
    Triple { s: Term, p: Term, o: Term, g: Option<String>, pname: bool, link: Link },
    /// `@prefix name: <iri> .` (Turtle, N3); a comment line in N-Triples/N-Quads/RDF-XML (RDF/XML declares
    /// the namespace on the root element instead)
    Prefix { name: String, iri: String },
    Comment(String),
    Empty,
}

#[derive(Clone, Copy, Debug, PartialEq, Eq, Hash, PartialOrd, Ord)]
pub enum Format {
    NTriples,
    NQuads,
    Turtle,
    N3,
    RdfXml,
}

impl Format {
    pub fn name(&self) -> &'static str {
        match self {
            Format::NTriples => "ntriples",
            Format::NQuads => "nquads",
            Format::Turtle => "turtle",
            Format::N3 => "n3",
            Format::RdfXml => "rdfxml",
        }
    }
}

/// lexical quad: subject, predicate, object, graph (None = default graph)
pub type LexQuad = (String, String, String, Option<String>);

pub const RDF_NS: &str = "http://www.w3.org/1999/02/22-rdf-syntax-ns#";
/// namespace every generated RDF/XML document declares as `ex`
pub const BASE_NS: &str = "http://e/";

/// N-Triples string escaping (the canonical one: `\\ \" \n \r \t`, everything else verbatim).
pub fn escape(value: &str) -> String {
    let mut s = String::new();
    for c in value.chars() {
        match c {
            '\\' => s.push_str("\\\\"),
            '"' => s.push_str("\\\""),
            '\n' => s.push_str("\\n"),
            '\r' => s.push_str("\\r"),
            '\t' => s.push_str("\\t"),
            c => s.push(c),
        }
    }
    s
}

/// inverse of `escape` on its image (plus \b \f \' \uXXXX \UXXXXXXXX of the N-Triples grammar)
pub fn unescape(body: &str) -> Result<String, String> {
    let mut out = String::new();
    let mut it = body.chars();
    while let Some(c) = it.next() {
        if c != '\\' {
            out.push(c);
            continue;
        }
        match it.next() {
            Some('t') => out.push('\t'),
            Some('b') => out.push('\u{8}'),
            Some('n') => out.push('\n'),
            Some('r') => out.push('\r'),
            Some('f') => out.push('\u{c}'),
            Some('"') => out.push('"'),
            Some('\'') => out.push('\''),
            Some('\\') => out.push('\\'),
            Some(u @ ('u' | 'U')) => {
                let n = if u == 'u' { 4 } else { 8 };
                let hex: String = it.by_ref().take(n).collect();
                let cp = u32::from_str_radix(&hex, 16).map_err(|e| e.to_string())?;
                out.push(char::from_u32(cp).ok_or("bad code point")?);
            }
            other => return Err(format!("bad escape {:?}", other)),
        }
    }
    Ok(out)
}

/// Lexical form in which `t`, loaded from a document in format `f`, is expected in the store.
pub fn lexical(t: &Term, f: Format) -> String {
    match t {
        Term::Iri(i) => i.clone(),
        Term::Blank(b) => format!("_:{}", b),
        Term::Lit { value, lang, dt } => {
            if f == Format::N3 {
                let mut s = format!("\"{}\"", escape(value));
                if let Some(l) = lang {
                    s.push('@');
                    s.push_str(l);
                } else if let Some(d) = dt {
                    s.push_str("^^");
                    s.push_str(d);
                }
                s
            } else if let Some(l) = lang {
                format!("{}@{}", value, l)
            } else {
                value.clone()
            }
        }
        Term::Quoted(b) => format!("<< {} {} {} >>", lexical(&b.0, f), lexical(&b.1, f), lexical(&b.2, f)),
    }
}

fn local_ok(local: &str) -> bool {
    !local.is_empty() && local.chars().all(|c| c.is_ascii_alphanumeric() || c == '_')
}

fn pname_for(iri: &str, prefixes: &[(String, String)]) -> Option<String> {
    // the most recently declared matching prefix wins; a declaration whose name was re-bound later
    // is no longer in effect
    for (k, (name, ns)) in prefixes.iter().enumerate().rev() {
        if prefixes[k + 1..].iter().any(|(later, _)| later == name) {
            continue;
        }
        if let Some(local) = iri.strip_prefix(ns.as_str()) {
            if local_ok(local) {
                return Some(format!("{}:{}", name, local));
            }
        }
    }
    None
}

fn term_text(t: &Term, prefixes: &[(String, String)], pname: bool) -> String {
    match t {
        Term::Iri(i) => match (pname, pname_for(i, prefixes)) {
            (true, Some(q)) => q,
            _ => format!("<{}>", i),
        },
        Term::Blank(b) => format!("_:{}", b),
        Term::Lit { value, lang, dt } => {
            let mut s = format!("\"{}\"", escape(value));
            if let Some(l) = lang {
                s.push('@');
                s.push_str(l);
            } else if let Some(d) = dt {
                s.push_str(&format!("^^<{}>", d));
            }
            s
        }
        Term::Quoted(b) => format!("<< {} {} {} >>", term_text(&b.0, prefixes, pname), term_text(&b.1, prefixes, pname), term_text(&b.2, prefixes, pname)),
    }
}

fn xml_text_ok(v: &str) -> bool {
    !v.is_empty() && v.trim() == v && !v.contains('<') && !v.contains('&') && !v.contains('>')
}

/// namespaces declared on the root element of the RDF/XML rendering: `ex` + every Prefix line
fn xml_namespaces(lines: &[Line]) -> Vec<(String, String)> {
    let mut ns = vec![("ex".to_string(), BASE_NS.to_string())];
    for l in lines {
        if let Line::Prefix { name, iri } = l {
            if !ns.iter().any(|(n, _)| n == name) {
                ns.push((name.clone(), iri.clone()));
            }
        }
    }
    ns
}

/// Can `line` be written in the subset of format `f` that Kolibrie's loader for `f` supports?
/// N3 (`parse_statement`) has no quoted-triple syntax; `parse_rdf` knows `rdf:Description/@rdf:about`,
/// property elements with text content or `rdf:resource` — no blank nodes, no `xml:lang`/`rdf:datatype`,
/// no quoted triples, no XML entities (text is not unescaped), text is trimmed and empty text dropped.
/// Only N-Quads has a graph position.
pub fn expressible(line: &Line, f: Format, all_lines: &[Line]) -> bool {
    let ns = if f == Format::RdfXml { xml_namespaces(all_lines) } else { Vec::new() };
    expressible_ns(line, f, &ns)
}

fn expressible_ns(line: &Line, f: Format, ns: &[(String, String)]) -> bool {
    let Line::Triple { s, p, o, g, .. } = line else { return true };
    if g.is_some() && f != Format::NQuads {
        return false;
    }
    match f {
        Format::NTriples | Format::NQuads | Format::Turtle => true,
        Format::N3 => !(s.has_quoted() || o.has_quoted()),
        Format::RdfXml => {
            let s_ok = matches!(s, Term::Iri(_));
            let p_ok = matches!(p, Term::Iri(i) if pname_for(i, ns).is_some());
            let o_ok = match o {
                Term::Iri(_) => true,
                Term::Lit { value, lang: None, dt: None } => xml_text_ok(value),
                _ => false,
            };
            s_ok && p_ok && o_ok
        }
    }
}

pub fn document_expressible(lines: &[Line], f: Format) -> bool {
    if f == Format::RdfXml {
        // namespaces sit on the root element: a prefix re-bound half-way cannot be written
        let names: Vec<&String> = lines.iter().filter_map(|l| if let Line::Prefix { name, .. } = l { Some(name) } else { None }).collect();
        if names.iter().enumerate().any(|(i, n)| names[..i].contains(n)) {
            return false;
        }
    }
    let ns = if f == Format::RdfXml { xml_namespaces(lines) } else { Vec::new() };
    lines.iter().all(|l| expressible_ns(l, f, &ns))
}

/// A linked pair must be (Open* at i, its partner at i+1) with the same subject (`OpenComma`: same predicate
/// too), no graph, and partners never appear alone. The generator of C13 only builds such documents; this is
/// checked before rendering so that a generator slip is a machinery error, not a verdict.
pub fn links_well_formed(lines: &[Line]) -> Result<(), String> {
    let link_of = |l: &Line| match l {
        Line::Triple { link, .. } => *link,
        _ => Link::None,
    };
    for (i, l) in lines.iter().enumerate() {
        let Line::Triple { s, p, link, .. } = l else { continue };
        match link {
            Link::None => {}
            Link::OpenNl | Link::OpenSemi | Link::OpenComma => {
                let Some(Line::Triple { s: s2, p: p2, link: l2, .. }) = lines.get(i + 1) else { return Err(format!("line {}: open link without a following triple line", i)) };
                let want = if *link == Link::OpenNl { Link::ContNl } else { Link::Absorbed };
                if *l2 != want || s2 != s || (*link == Link::OpenComma && p2 != p) {
                    return Err(format!("line {}: link {:?} followed by {:?} / different subject or predicate", i, link, l2));
                }
            }
            Link::ContNl | Link::Absorbed => {
                let prev = if i == 0 { Link::None } else { link_of(&lines[i - 1]) };
                let ok = if *link == Link::ContNl { prev == Link::OpenNl } else { matches!(prev, Link::OpenSemi | Link::OpenComma) };
                if !ok {
                    return Err(format!("line {}: partner link {:?} after {:?}", i, link, prev));
                }
            }
        }
    }
    Ok(())
}

/// Render the abstract document. Line formats: exactly one physical line per abstract line, each
/// terminated by LF (layouts: CRLF / no terminator on the last line). RDF/XML: header line, one line per
/// abstract line (a linked pair: one indented multi-line rdf:Description with two property elements — the
/// layout generate_rdf_xml writes), footer line (a literal containing LF spans physical lines; RDF/XML is
/// not loaded line-wise).
pub fn render(lines: &[Line], f: Format) -> String {
    render_with(lines, f, Layout::Plain)
}

pub fn render_with(lines: &[Line], f: Format, layout: Layout) -> String {
    let mut out = String::new();
    if f == Format::RdfXml {
        let ns = xml_namespaces(lines);
        out.push_str("<?xml version=\"1.0\"?>\n<rdf:RDF xmlns:rdf=\"");
        out.push_str(RDF_NS);
        out.push('"');
        for (n, i) in &ns {
            out.push_str(&format!(" xmlns:{}=\"{}\"", n, i));
        }
        out.push_str(">\n");
        let mut declared: Vec<(String, String)> = vec![ns[0].clone()];
        // property element for (p, o)
        let prop = |p: &Term, o: &Term, pname: bool, declared: &[(String, String)]| -> String {
            let Term::Iri(p) = p else { panic!("not expressible in RDF/XML") };
            // without `pname` the base namespace is used; with it the latest declared one
            let q = if pname { pname_for(p, declared) } else { pname_for(p, &declared[..1]) }.or_else(|| pname_for(p, &ns)).expect("predicate namespace");
            match o {
                Term::Iri(o) => format!("<{} rdf:resource=\"{}\"/>", q, o),
                Term::Lit { value, .. } => format!("<{}>{}</{}>", q, value, q),
                _ => panic!("not expressible in RDF/XML"),
            }
        };
        for (i, l) in lines.iter().enumerate() {
            match l {
                Line::Triple { s, p, o, pname, link, .. } => {
                    let Term::Iri(s) = s else { panic!("not expressible in RDF/XML") };
                    match link {
                        Link::ContNl | Link::Absorbed => out.push('\n'),
                        Link::None => out.push_str(&format!("<rdf:Description rdf:about=\"{}\">{}</rdf:Description>\n", s, prop(p, o, *pname, &declared))),
                        Link::OpenNl | Link::OpenSemi | Link::OpenComma => {
                            let Some(Line::Triple { p: p2, o: o2, pname: pn2, .. }) = lines.get(i + 1) else { panic!("open link without partner") };
                            out.push_str(&format!(
                                "  <rdf:Description rdf:about=\"{}\">\n    {}\n    {}\n  </rdf:Description>\n",
                                s,
                                prop(p, o, *pname, &declared),
                                prop(p2, o2, *pn2, &declared)
                            ));
                        }
                    }
                }
                Line::Prefix { name, iri } => {
                    declared.push((name.clone(), iri.clone()));
                    out.push_str(&format!("<!-- prefix {} declared on the root element -->\n", name));
                }
                Line::Comment(c) => out.push_str(&format!("<!-- {} -->\n", c)),
                Line::Empty => out.push('\n'),
            }
        }
        out.push_str("</rdf:RDF>\n");
        return out;
    }
    let prefixed = matches!(f, Format::Turtle | Format::N3);
    let sep = if layout == Layout::Tabs { '\t' } else { ' ' };
    let eol = if layout == Layout::CrLf { "\r\n" } else { "\n" };
    let dot = |out: &mut String| {
        if layout != Layout::TightDot {
            out.push(sep);
        }
        out.push('.');
    };
    let mut declared: Vec<(String, String)> = Vec::new();
    for (i, l) in lines.iter().enumerate() {
        match l {
            Line::Triple { s, p, o, g, pname, link } => {
                let pn = *pname && prefixed;
                let link = if prefixed { *link } else { Link::None };
                let spo = |out: &mut String, with_subject: bool| {
                    if with_subject {
                        out.push_str(&term_text(s, &declared, pn));
                        out.push(sep);
                    }
                    out.push_str(&term_text(p, &declared, pn));
                    out.push(sep);
                    out.push_str(&term_text(o, &declared, pn));
                };
                match link {
                    Link::None => {
                        spo(&mut out, true);
                        if let (Some(g), Format::NQuads) = (g, f) {
                            out.push(sep);
                            out.push_str(&format!("<{}>", g));
                        }
                        dot(&mut out);
                    }
                    Link::OpenNl => {
                        spo(&mut out, true);
                        out.push(sep);
                        out.push(';');
                    }
                    Link::ContNl => {
                        out.push_str("    ");
                        spo(&mut out, false);
                        dot(&mut out);
                    }
                    Link::OpenSemi | Link::OpenComma => {
                        let Some(Line::Triple { p: p2, o: o2, pname: pn2, .. }) = lines.get(i + 1) else { panic!("open link without partner") };
                        let pn2 = *pn2 && prefixed;
                        spo(&mut out, true);
                        out.push(sep);
                        if link == Link::OpenSemi {
                            out.push(';');
                            out.push(sep);
                            out.push_str(&term_text(p2, &declared, pn2));
                        } else {
                            out.push(',');
                        }
                        out.push(sep);
                        out.push_str(&term_text(o2, &declared, pn2));
                        dot(&mut out);
                    }
                    Link::Absorbed => {}
                }
            }
            Line::Prefix { name, iri } => {
                if prefixed {
                    declared.push((name.clone(), iri.clone()));
                    out.push_str(&format!("@prefix{}{}:{}<{}>", sep, name, sep, iri));
                    dot(&mut out);
                } else {
                    out.push_str(&format!("# @prefix {}: <{}> .", name, iri));
                }
            }
            Line::Comment(c) => out.push_str(&format!("# {}", c)),
            Line::Empty => {}
        }
        if !(layout == Layout::NoFinalNewline && i + 1 == lines.len()) {
            out.push_str(eol);
        }
    }
    out
}

/// Expected lexical quads of the abstract document in format `f` (from the abstract list).
pub fn expected_quads(lines: &[Line], f: Format) -> BTreeSet<LexQuad> {
    let mut set = BTreeSet::new();
    for l in lines {
        if let Line::Triple { s, p, o, g, .. } = l {
            set.insert((lexical(s, f), lexical(p, f), lexical(o, f), g.clone()));
        }
    }
    set
}

// ---------------------------------------------------------------------------------------------
// Reader: parses exactly the generated subset back into (s, p, o, g) abstract terms.

struct Cur<'a> {
    s: &'a str,
    i: usize,
}

impl<'a> Cur<'a> {
    fn rest(&self) -> &'a str {
        &self.s[self.i..]
    }
    fn skip_ws(&mut self) {
        while self.rest().starts_with(' ') || self.rest().starts_with('\t') {
            self.i += 1;
        }
    }
    fn eat(&mut self, t: &str) -> bool {
        if self.rest().starts_with(t) {
            self.i += t.len();
            true
        } else {
            false
        }
    }
    fn until(&mut self, stop: char) -> Result<&'a str, String> {
        let r = self.rest();
        let k = r.find(stop).ok_or_else(|| format!("expected {:?} in {:?}", stop, r))?;
        self.i += k + stop.len_utf8();
        Ok(&r[..k])
    }
    fn term(&mut self, prefixes: &[(String, String)]) -> Result<Term, String> {
        self.skip_ws();
        if self.eat("<<") {
            let s = self.term(prefixes)?;
            let p = self.term(prefixes)?;
            let o = self.term(prefixes)?;
            self.skip_ws();
            if !self.eat(">>") {
                return Err(format!("expected >> at {:?}", self.rest()));
            }
            return Ok(Term::quoted(s, p, o));
        }
        if self.eat("<") {
            return Ok(Term::Iri(self.until('>')?.to_string()));
        }
        if self.eat("_:") {
            let r = self.rest();
            let mut k = r.find(|c: char| c == ' ' || c == '\t').unwrap_or(r.len());
            if r[..k].ends_with('.') {
                k -= 1; // a label cannot end with '.': it is the statement dot written without white space
            }
            self.i += k;
            return Ok(Term::Blank(r[..k].to_string()));
        }
        if self.eat("\"") {
            // body up to the first unescaped quote
            let r = self.rest();
            let mut esc = false;
            let mut end = None;
            for (idx, c) in r.char_indices() {
                if esc {
                    esc = false;
                } else if c == '\\' {
                    esc = true;
                } else if c == '"' {
                    end = Some(idx);
                    break;
                }
            }
            let end = end.ok_or("unterminated literal")?;
            let value = unescape(&r[..end])?;
            self.i += end + 1;
            if self.eat("@") {
                let r = self.rest();
                let k = r.find(|c: char| !(c.is_ascii_alphanumeric() || c == '-')).unwrap_or(r.len());
                self.i += k;
                return Ok(Term::Lit { value, lang: Some(r[..k].to_string()), dt: None });
            }
            if self.eat("^^") {
                let dt = match self.term(prefixes)? {
                    Term::Iri(i) => i,
                    other => return Err(format!("datatype must be an IRI, got {:?}", other)),
                };
                return Ok(Term::Lit { value, lang: None, dt: Some(dt) });
            }
            return Ok(Term::Lit { value, lang: None, dt: None });
        }
        // prefixed name
        let r = self.rest();
        let mut k = r.find(|c: char| c == ' ' || c == '\t').unwrap_or(r.len());
        if r[..k].ends_with('.') {
            k -= 1; // a local name cannot end with '.': statement dot written without white space
        }
        let tok = &r[..k];
        self.i += k;
        let (pfx, local) = tok.split_once(':').ok_or_else(|| format!("not a term: {:?}", tok))?;
        let ns = prefixes.iter().rev().find(|(n, _)| n == pfx).ok_or_else(|| format!("undeclared prefix {:?}", pfx))?;
        Ok(Term::Iri(format!("{}{}", ns.1, local)))
    }
}

pub type AbstractQuad = (Term, Term, Term, Option<String>);

/// Read a generated document back. N-Triples / N-Quads are read line by line; Turtle / N3 statement by
/// statement (a statement may be left open with `;` and continue on the next line, `;` and `,` lists),
/// prefixes in document order; RDF/XML by scanning the element structure of the generated layout.
pub fn read(text: &str, f: Format) -> Result<Vec<AbstractQuad>, String> {
    if f == Format::RdfXml {
        return read_xml(text);
    }
    let prefixed = matches!(f, Format::Turtle | Format::N3);
    let mut prefixes: Vec<(String, String)> = Vec::new();
    let mut out = Vec::new();
    // statement state of the prefixed formats
    #[derive(PartialEq)]
    enum Expect {
        Subject,
        Predicate,
        Object,
    }
    let mut expect = Expect::Subject;
    let mut cur_s: Option<Term> = None;
    let mut cur_p: Option<Term> = None;
    for (n, raw) in text.split('\n').enumerate() {
        let line = raw.trim_matches(|c| c == ' ' || c == '\t' || c == '\r');
        if line.is_empty() || line.starts_with('#') {
            continue;
        }
        let err = |e: String| format!("line {}: {} ({:?})", n + 1, e, raw);
        if let Some(rest) = line.strip_prefix("@prefix") {
            if !prefixed {
                return Err(err("@prefix in a format without prefixes".into()));
            }
            if expect != Expect::Subject {
                return Err(err("@prefix inside an open statement".into()));
            }
            let mut c = Cur { s: rest, i: 0 };
            c.skip_ws();
            let name = c.until(':').map_err(err)?.to_string();
            c.skip_ws();
            if !c.eat("<") {
                return Err(err("expected <".into()));
            }
            let iri = c.until('>').map_err(err)?.to_string();
            c.skip_ws();
            if c.rest() != "." {
                return Err(err(format!("expected final dot after @prefix, found {:?}", c.rest())));
            }
            prefixes.push((name, iri));
            continue;
        }
        let mut c = Cur { s: line, i: 0 };
        if prefixed {
            loop {
                c.skip_ws();
                if c.rest().is_empty() {
                    break;
                }
                match expect {
                    Expect::Subject => {
                        cur_s = Some(c.term(&prefixes).map_err(err)?);
                        expect = Expect::Predicate;
                    }
                    Expect::Predicate => {
                        cur_p = Some(c.term(&prefixes).map_err(err)?);
                        expect = Expect::Object;
                    }
                    Expect::Object => {
                        let o = c.term(&prefixes).map_err(err)?;
                        out.push((cur_s.clone().unwrap(), cur_p.clone().unwrap(), o, None));
                        c.skip_ws();
                        if c.eat(".") {
                            expect = Expect::Subject;
                            c.skip_ws();
                            if !c.rest().is_empty() {
                                return Err(err(format!("text after the final dot: {:?}", c.rest())));
                            }
                        } else if c.eat(";") {
                            expect = Expect::Predicate;
                        } else if c.eat(",") {
                            expect = Expect::Object;
                        } else {
                            return Err(err(format!("expected . ; or , found {:?}", c.rest())));
                        }
                    }
                }
            }
            continue;
        }
        let s = c.term(&prefixes).map_err(err)?;
        let p = c.term(&prefixes).map_err(err)?;
        let o = c.term(&prefixes).map_err(err)?;
        c.skip_ws();
        let mut g = None;
        if f == Format::NQuads && c.rest().starts_with('<') {
            match c.term(&prefixes).map_err(err)? {
                Term::Iri(i) => g = Some(i),
                _ => return Err(err("graph must be an IRI".into())),
            }
            c.skip_ws();
        }
        if c.rest() != "." {
            return Err(err(format!("expected final dot, found {:?}", c.rest())));
        }
        out.push((s, p, o, g));
    }
    if expect != Expect::Subject {
        return Err("document ends inside an open statement".into());
    }
    Ok(out)
}

fn read_xml(text: &str) -> Result<Vec<AbstractQuad>, String> {
    let mut out = Vec::new();
    let root_start = text.find("<rdf:RDF").ok_or("no rdf:RDF root")?;
    let root_end = root_start + text[root_start..].find('>').ok_or("unterminated root tag")?;
    let mut ns: Vec<(String, String)> = Vec::new();
    for part in text[root_start..root_end].split_whitespace().skip(1) {
        let (k, v) = part.split_once('=').ok_or("bad attribute")?;
        let v = v.trim_matches('"');
        if let Some(n) = k.strip_prefix("xmlns:") {
            ns.push((n.to_string(), v.to_string()));
        }
    }
    let mut rest = &text[root_end + 1..];
    loop {
        rest = rest.trim_start();
        if let Some(r) = rest.strip_prefix("<!--") {
            let k = r.find("-->").ok_or("unterminated comment")?;
            rest = &r[k + 3..];
        } else if rest.starts_with("</rdf:RDF>") {
            return Ok(out);
        } else if let Some(r) = rest.strip_prefix("<rdf:Description rdf:about=\"") {
            let k = r.find("\">").ok_or("bad rdf:about")?;
            let subject = Term::Iri(r[..k].to_string());
            let mut r = &r[k + 2..];
            loop {
                r = r.trim_start();
                if let Some(r2) = r.strip_prefix("</rdf:Description>") {
                    rest = r2;
                    break;
                }
                let r1 = r.strip_prefix('<').ok_or_else(|| format!("expected property element at {:?}", &r[..r.len().min(40)]))?;
                let k = r1.find(|c: char| c == ' ' || c == '>').ok_or("bad property element")?;
                let qname = &r1[..k];
                let (pfx, local) = qname.split_once(':').ok_or("property without prefix")?;
                let nsi = ns.iter().find(|(n, _)| n == pfx).ok_or_else(|| format!("undeclared namespace {}", pfx))?;
                let predicate = Term::Iri(format!("{}{}", nsi.1, local));
                let after = &r1[k..];
                if let Some(a) = after.strip_prefix(" rdf:resource=\"") {
                    let k = a.find("\"/>").ok_or("bad rdf:resource")?;
                    out.push((subject.clone(), predicate, Term::Iri(a[..k].to_string()), None));
                    r = &a[k + 3..];
                } else if let Some(a) = after.strip_prefix('>') {
                    let close = format!("</{}>", qname);
                    let k = a.find(&close).ok_or("unterminated property element")?;
                    out.push((subject.clone(), predicate, Term::lit(&a[..k]), None));
                    r = &a[k + close.len()..];
                } else {
                    return Err(format!("unsupported property element {:?}", &r[..r.len().min(60)]));
                }
            }
        } else {
            return Err(format!("unexpected content {:?}", &rest[..rest.len().min(60)]));
        }
    }
}

/// Expected lexical quads computed from the *text* by the reference reader.
pub fn expected_from_text(text: &str, f: Format) -> Result<BTreeSet<LexQuad>, String> {
    Ok(read(text, f)?.into_iter().map(|(s, p, o, g)| (lexical(&s, f), lexical(&p, f), lexical(&o, f), g)).collect())
}

// ---------------------------------------------------------------------------------------------

pub fn selftest() -> Vec<String> {
    let mut errs = Vec::new();
    let mut check = |name: &str, ok: bool, detail: String| {
        if !ok {
            errs.push(format!("loader/{}: {}", name, detail));
        }
    };
    let t = |s: &str, p: &str, o: Term| Line::Triple { s: Term::iri(s), p: Term::iri(p), o, g: None, pname: false, link: Link::None };
    // hand-computed micro document
    let doc = vec![
        t("http://e/s0", "http://e/p0", Term::iri("http://e/o0")),
        Line::Comment("c".into()),
        Line::Prefix { name: "x".into(), iri: "http://e/".into() },
        Line::Triple { s: Term::iri("http://e/s1"), p: Term::iri("http://e/p1"), o: Term::lit("a\"b\\c\nd"), g: None, pname: true, link: Link::None },
        Line::Empty,
        t("http://e/s2", "http://e/p2", Term::lang("v", "en")),
        t("http://e/s3", "http://e/p0", Term::typed("7", "http://e/dt")),
    ];
    let nt = "<http://e/s0> <http://e/p0> <http://e/o0> .\n# c\n# @prefix x: <http://e/> .\n<http://e/s1> <http://e/p1> \"a\\\"b\\\\c\\nd\" .\n\n<http://e/s2> <http://e/p2> \"v\"@en .\n<http://e/s3> <http://e/p0> \"7\"^^<http://e/dt> .\n";
    let ttl = "<http://e/s0> <http://e/p0> <http://e/o0> .\n# c\n@prefix x: <http://e/> .\nx:s1 x:p1 \"a\\\"b\\\\c\\nd\" .\n\n<http://e/s2> <http://e/p2> \"v\"@en .\n<http://e/s3> <http://e/p0> \"7\"^^<http://e/dt> .\n";
    check("render-nt", render(&doc, Format::NTriples) == nt, render(&doc, Format::NTriples));
    check("render-nq", render(&doc, Format::NQuads) == nt, render(&doc, Format::NQuads));
    check("render-ttl", render(&doc, Format::Turtle) == ttl, render(&doc, Format::Turtle));
    check("render-n3", render(&doc, Format::N3) == ttl, render(&doc, Format::N3));
    let q = |s: &str, p: &str, o: &str| (s.to_string(), p.to_string(), o.to_string(), None);
    let exp_nt: BTreeSet<LexQuad> = [
        q("http://e/s0", "http://e/p0", "http://e/o0"),
        q("http://e/s1", "http://e/p1", "a\"b\\c\nd"),
        q("http://e/s2", "http://e/p2", "v@en"),
        q("http://e/s3", "http://e/p0", "7"),
    ]
    .into_iter()
    .collect();
    let exp_n3: BTreeSet<LexQuad> = [
        q("http://e/s0", "http://e/p0", "http://e/o0"),
        q("http://e/s1", "http://e/p1", "\"a\\\"b\\\\c\\nd\""),
        q("http://e/s2", "http://e/p2", "\"v\"@en"),
        q("http://e/s3", "http://e/p0", "\"7\"^^http://e/dt"),
    ]
    .into_iter()
    .collect();
    for f in [Format::NTriples, Format::NQuads, Format::Turtle, Format::N3] {
        let want = if f == Format::N3 { &exp_n3 } else { &exp_nt };
        let a = expected_quads(&doc, f);
        check(&format!("expected-{}", f.name()), &a == want, format!("{:?}", a));
        match expected_from_text(&render(&doc, f), f) {
            Ok(b) => check(&format!("read-{}", f.name()), &b == want, format!("{:?}", b)),
            Err(e) => check(&format!("read-{}", f.name()), false, e),
        }
    }
    check("xml-inexpressible", !document_expressible(&doc, Format::RdfXml), "lang/typed literals must not be expressible in the RDF/XML subset".into());
    // RDF/XML
    let xdoc = vec![
        t("http://e/s0", "http://e/p0", Term::iri("http://e/o0#f")),
        Line::Comment("c".into()),
        Line::Prefix { name: "x".into(), iri: "http://e/".into() },
        Line::Triple { s: Term::iri("http://e/s1"), p: Term::iri("http://e/p1"), o: Term::lit("a\"b\\c\nd"), g: None, pname: true, link: Link::None },
        Line::Empty,
    ];
    let xml = "<?xml version=\"1.0\"?>\n<rdf:RDF xmlns:rdf=\"http://www.w3.org/1999/02/22-rdf-syntax-ns#\" xmlns:ex=\"http://e/\" xmlns:x=\"http://e/\">\n<rdf:Description rdf:about=\"http://e/s0\"><ex:p0 rdf:resource=\"http://e/o0#f\"/></rdf:Description>\n<!-- c -->\n<!-- prefix x declared on the root element -->\n<rdf:Description rdf:about=\"http://e/s1\"><x:p1>a\"b\\c\nd</x:p1></rdf:Description>\n\n</rdf:RDF>\n";
    check("xml-expressible", document_expressible(&xdoc, Format::RdfXml), "plain document must be expressible".into());
    check("render-xml", render(&xdoc, Format::RdfXml) == xml, render(&xdoc, Format::RdfXml));
    let exp_x: BTreeSet<LexQuad> = [q("http://e/s0", "http://e/p0", "http://e/o0#f"), q("http://e/s1", "http://e/p1", "a\"b\\c\nd")].into_iter().collect();
    match expected_from_text(xml, Format::RdfXml) {
        Ok(b) => check("read-xml", b == exp_x, format!("{:?}", b)),
        Err(e) => check("read-xml", false, e),
    }
    check("expected-xml", expected_quads(&xdoc, Format::RdfXml) == exp_x, "abstract expectation".into());
    // quoted triples, blank nodes, graphs
    let qt = Term::quoted(Term::iri("http://e/a"), Term::iri("http://e/q"), Term::lit("v"));
    let nested = Term::quoted(Term::quoted(Term::iri("http://e/a"), Term::iri("http://e/q"), Term::iri("http://e/b")), Term::iri("http://e/q"), Term::iri("http://e/c"));
    let sdoc = vec![
        Line::Triple { s: qt.clone(), p: Term::iri("http://e/p0"), o: nested.clone(), g: None, pname: false, link: Link::None },
        Line::Triple { s: Term::Blank("b1".into()), p: Term::iri("http://e/p0"), o: Term::lit(""), g: Some("http://e/g1".into()), pname: false, link: Link::None },
    ];
    let nq = "<< <http://e/a> <http://e/q> \"v\" >> <http://e/p0> << << <http://e/a> <http://e/q> <http://e/b> >> <http://e/q> <http://e/c> >> .\n_:b1 <http://e/p0> \"\" <http://e/g1> .\n";
    check("render-star", render(&sdoc, Format::NQuads) == nq, render(&sdoc, Format::NQuads));
    let exp_s: BTreeSet<LexQuad> = [
        ("<< http://e/a http://e/q v >>".to_string(), "http://e/p0".to_string(), "<< << http://e/a http://e/q http://e/b >> http://e/q http://e/c >>".to_string(), None),
        ("_:b1".to_string(), "http://e/p0".to_string(), "".to_string(), Some("http://e/g1".to_string())),
    ]
    .into_iter()
    .collect();
    match expected_from_text(nq, Format::NQuads) {
        Ok(b) => check("read-star", b == exp_s, format!("{:?}", b)),
        Err(e) => check("read-star", false, e),
    }
    check("star-n3-inexpressible", !document_expressible(&sdoc[..1], Format::N3) && document_expressible(&sdoc[..1], Format::Turtle), "quoted triples: Turtle yes, N3 no".into());
    check("graph-only-nquads", !document_expressible(&sdoc, Format::NTriples) && document_expressible(&sdoc, Format::NQuads), "graph position only in N-Quads".into());
    // linked pairs (statement punctuation / property lists) and layouts: hand-written renderings
    let lk = |s: &str, p: &str, o: Term, link: Link| Line::Triple { s: Term::iri(s), p: Term::iri(p), o, g: None, pname: false, link };
    let ldoc = vec![
        lk("http://e/s0", "http://e/p0", Term::iri("http://e/o0"), Link::OpenNl),
        lk("http://e/s0", "http://e/p1", Term::lit("v"), Link::ContNl),
        lk("http://e/s1", "http://e/p0", Term::iri("http://e/o1"), Link::OpenSemi),
        lk("http://e/s1", "http://e/p1", Term::lit("w"), Link::Absorbed),
        lk("http://e/s2", "http://e/p0", Term::iri("http://e/o1"), Link::OpenComma),
        lk("http://e/s2", "http://e/p0", Term::lit("a  b . c ; d , e # f"), Link::Absorbed),
    ];
    let lttl = "<http://e/s0> <http://e/p0> <http://e/o0> ;\n    <http://e/p1> \"v\" .\n<http://e/s1> <http://e/p0> <http://e/o1> ; <http://e/p1> \"w\" .\n\n<http://e/s2> <http://e/p0> <http://e/o1> , \"a  b . c ; d , e # f\" .\n\n";
    let lnt = "<http://e/s0> <http://e/p0> <http://e/o0> .\n<http://e/s0> <http://e/p1> \"v\" .\n<http://e/s1> <http://e/p0> <http://e/o1> .\n<http://e/s1> <http://e/p1> \"w\" .\n<http://e/s2> <http://e/p0> <http://e/o1> .\n<http://e/s2> <http://e/p0> \"a  b . c ; d , e # f\" .\n";
    let lxml = "<?xml version=\"1.0\"?>\n<rdf:RDF xmlns:rdf=\"http://www.w3.org/1999/02/22-rdf-syntax-ns#\" xmlns:ex=\"http://e/\">\n  <rdf:Description rdf:about=\"http://e/s0\">\n    <ex:p0 rdf:resource=\"http://e/o0\"/>\n    <ex:p1>v</ex:p1>\n  </rdf:Description>\n\n  <rdf:Description rdf:about=\"http://e/s1\">\n    <ex:p0 rdf:resource=\"http://e/o1\"/>\n    <ex:p1>w</ex:p1>\n  </rdf:Description>\n\n  <rdf:Description rdf:about=\"http://e/s2\">\n    <ex:p0 rdf:resource=\"http://e/o1\"/>\n    <ex:p0>a  b . c ; d , e # f</ex:p0>\n  </rdf:Description>\n\n</rdf:RDF>\n";
    check("links-well-formed", links_well_formed(&ldoc).is_ok(), format!("{:?}", links_well_formed(&ldoc)));
    check("links-ill-formed", links_well_formed(&ldoc[1..]).is_err() && links_well_formed(&ldoc[..1]).is_err(), "a partner or an open line alone must be rejected".into());
    check("render-links-ttl", render(&ldoc, Format::Turtle) == lttl, render(&ldoc, Format::Turtle));
    check("render-links-n3", render(&ldoc, Format::N3) == lttl, render(&ldoc, Format::N3));
    check("render-links-nt", render(&ldoc, Format::NTriples) == lnt, render(&ldoc, Format::NTriples));
    check("render-links-xml", render(&ldoc, Format::RdfXml) == lxml, render(&ldoc, Format::RdfXml));
    let exp_l: BTreeSet<LexQuad> = [
        q("http://e/s0", "http://e/p0", "http://e/o0"),
        q("http://e/s0", "http://e/p1", "v"),
        q("http://e/s1", "http://e/p0", "http://e/o1"),
        q("http://e/s1", "http://e/p1", "w"),
        q("http://e/s2", "http://e/p0", "http://e/o1"),
        q("http://e/s2", "http://e/p0", "a  b . c ; d , e # f"),
    ]
    .into_iter()
    .collect();
    for (f, text) in [(Format::Turtle, lttl), (Format::NTriples, lnt), (Format::RdfXml, lxml)] {
        match expected_from_text(text, f) {
            Ok(b) => check(&format!("read-links-{}", f.name()), b == exp_l, format!("{:?}", b)),
            Err(e) => check(&format!("read-links-{}", f.name()), false, e),
        }
        check(&format!("expected-links-{}", f.name()), expected_quads(&ldoc, f) == exp_l, "abstract expectation".into());
    }
    match expected_from_text(lttl, Format::N3) {
        Ok(b) => check("read-links-n3", b.contains(&q("http://e/s2", "http://e/p0", "\"a  b . c ; d , e # f\"")) && b.len() == 6, format!("{:?}", b)),
        Err(e) => check("read-links-n3", false, e),
    }
    check("read-open-statement", expected_from_text("<http://e/s0> <http://e/p0> <http://e/o0> ;\n", Format::Turtle).is_err(), "a document ending inside an open statement must be rejected".into());
    let two = vec![
        Line::Prefix { name: "x".into(), iri: "http://e/".into() },
        Line::Triple { s: Term::Blank("b1".into()), p: Term::iri("http://e/p0"), o: Term::iri("http://e/o1"), g: None, pname: true, link: Link::None },
        t("http://e/s2", "http://e/p2", Term::lang("v", "en")),
    ];
    let exp_two: BTreeSet<LexQuad> = [q("_:b1", "http://e/p0", "http://e/o1"), q("http://e/s2", "http://e/p2", "v@en")].into_iter().collect();
    let layouts: [(Layout, &str); 4] = [
        (Layout::CrLf, "@prefix x: <http://e/> .\r\n_:b1 x:p0 x:o1 .\r\n<http://e/s2> <http://e/p2> \"v\"@en .\r\n"),
        (Layout::Tabs, "@prefix\tx:\t<http://e/>\t.\n_:b1\tx:p0\tx:o1\t.\n<http://e/s2>\t<http://e/p2>\t\"v\"@en\t.\n"),
        (Layout::NoFinalNewline, "@prefix x: <http://e/> .\n_:b1 x:p0 x:o1 .\n<http://e/s2> <http://e/p2> \"v\"@en ."),
        (Layout::TightDot, "@prefix x: <http://e/>.\n_:b1 x:p0 x:o1.\n<http://e/s2> <http://e/p2> \"v\"@en.\n"),
    ];
    for (lay, text) in layouts {
        check(&format!("render-layout-{:?}", lay), render_with(&two, Format::Turtle, lay) == text, render_with(&two, Format::Turtle, lay));
        match expected_from_text(text, Format::Turtle) {
            Ok(b) => check(&format!("read-layout-{:?}", lay), b == exp_two, format!("{:?}", b)),
            Err(e) => check(&format!("read-layout-{:?}", lay), false, e),
        }
    }
    check("render-layout-nt-tight", render_with(&two[1..], Format::NTriples, Layout::TightDot) == "_:b1 <http://e/p0> <http://e/o1>.\n<http://e/s2> <http://e/p2> \"v\"@en.\n", render_with(&two[1..], Format::NTriples, Layout::TightDot));
    match expected_from_text("_:b1 <http://e/p0> <http://e/o1>.\r\n<http://e/s2>\t<http://e/p2>\t\"v\"@en.", Format::NTriples) {
        Ok(b) => check("read-layout-nt", b == exp_two, format!("{:?}", b)),
        Err(e) => check("read-layout-nt", false, e),
    }
    // escape / unescape
    for s in ["", "a", "\"", "\\", "\n\r\t", "é😀 <>.#:@^", "\\n"] {
        check("escape-roundtrip", unescape(&escape(s)).as_deref() == Ok(s), format!("{:?}", s));
    }
    check("escape-image", escape("a\"\\\n\r\té") == "a\\\"\\\\\\n\\r\\té", escape("a\"\\\n\r\té"));
    check("unescape-u", unescape("\\u00e9\\U0001F600").as_deref() == Ok("é😀"), "unicode escapes".into());
    errs
}
