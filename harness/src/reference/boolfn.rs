//! R-bool — Boolean functions as truth tables, weighted model count and its derivative by
//! direct summation. Never calls Kolibrie code.
//!
//! Conventions: a table over a universe of `n` variable *positions* 0..n; assignment `m`
//! (0 <= m < 2^n) gives position `i` the value of bit `i` of `m`; bit/entry `m` of the table is
//! the value of the function on `m`. A function that does not mention a position simply does
//! not depend on it (don't-care extension), which is how "a variable introduced later" is
//! modelled: the universe is fixed up front.
//!
//! Three representations, as in DESIGN §2: `B3` (u8 bitmask, universe 3), `B6` (u64 bitmask,
//! universe 6), `BV` (Vec<bool>, universe <= 8).
use std::collections::BTreeSet;
use std::hash::Hash;

pub trait Table: Clone + Eq + Hash + std::fmt::Debug {
    /// universe size
    fn nvars(&self) -> usize;
    fn from_fn(n: usize, f: &dyn Fn(usize) -> bool) -> Self;
    fn get(&self, m: usize) -> bool;
    fn and(&self, o: &Self) -> Self;
    fn or(&self, o: &Self) -> Self;
    fn not(&self) -> Self;
    fn hex(&self) -> String;
}

#[derive(Clone, Copy, PartialEq, Eq, Hash, Debug, PartialOrd, Ord)]
pub struct B3(pub u8);
#[derive(Clone, Copy, PartialEq, Eq, Hash, Debug, PartialOrd, Ord)]
pub struct B6(pub u64);
#[derive(Clone, PartialEq, Eq, Hash, Debug, PartialOrd, Ord)]
pub struct BV(pub Vec<bool>);

impl Table for B3 {
    fn nvars(&self) -> usize {
        3
    }
    fn from_fn(n: usize, f: &dyn Fn(usize) -> bool) -> Self {
        assert!(n == 3, "B3 has universe 3");
        let mut t = 0u8;
        for m in 0..8 {
            if f(m) {
                t |= 1 << m;
            }
        }
        B3(t)
    }
    fn get(&self, m: usize) -> bool {
        (self.0 >> m) & 1 == 1
    }
    fn and(&self, o: &Self) -> Self {
        B3(self.0 & o.0)
    }
    fn or(&self, o: &Self) -> Self {
        B3(self.0 | o.0)
    }
    fn not(&self) -> Self {
        B3(!self.0)
    }
    fn hex(&self) -> String {
        format!("0x{:02x}", self.0)
    }
}

impl Table for B6 {
    fn nvars(&self) -> usize {
        6
    }
    fn from_fn(n: usize, f: &dyn Fn(usize) -> bool) -> Self {
        assert!(n == 6, "B6 has universe 6");
        let mut t = 0u64;
        for m in 0..64 {
            if f(m) {
                t |= 1u64 << m;
            }
        }
        B6(t)
    }
    fn get(&self, m: usize) -> bool {
        (self.0 >> m) & 1 == 1
    }
    fn and(&self, o: &Self) -> Self {
        B6(self.0 & o.0)
    }
    fn or(&self, o: &Self) -> Self {
        B6(self.0 | o.0)
    }
    fn not(&self) -> Self {
        B6(!self.0)
    }
    fn hex(&self) -> String {
        format!("0x{:016x}", self.0)
    }
}

impl Table for BV {
    fn nvars(&self) -> usize {
        self.0.len().trailing_zeros() as usize
    }
    fn from_fn(n: usize, f: &dyn Fn(usize) -> bool) -> Self {
        assert!(n <= 8, "BV has universe <= 8");
        BV((0..(1usize << n)).map(|m| f(m)).collect())
    }
    fn get(&self, m: usize) -> bool {
        self.0[m]
    }
    fn and(&self, o: &Self) -> Self {
        assert_eq!(self.0.len(), o.0.len());
        BV(self.0.iter().zip(o.0.iter()).map(|(a, b)| *a && *b).collect())
    }
    fn or(&self, o: &Self) -> Self {
        assert_eq!(self.0.len(), o.0.len());
        BV(self.0.iter().zip(o.0.iter()).map(|(a, b)| *a || *b).collect())
    }
    fn not(&self) -> Self {
        BV(self.0.iter().map(|a| !*a).collect())
    }
    fn hex(&self) -> String {
        // most significant assignment first, like the integer representations
        let mut s = String::from("0x");
        let n = self.0.len();
        if n < 4 {
            let mut d = 0u8;
            for m in 0..n {
                if self.0[m] {
                    d |= 1 << m;
                }
            }
            s.push_str(&format!("{:x}", d));
            return s;
        }
        for chunk in (0..n / 4).rev() {
            let mut d = 0u8;
            for b in 0..4 {
                if self.0[chunk * 4 + b] {
                    d |= 1 << b;
                }
            }
            s.push_str(&format!("{:x}", d));
        }
        s
    }
}

pub fn constant<T: Table>(n: usize, v: bool) -> T {
    T::from_fn(n, &|_| v)
}
/// literal of position `i` with the given polarity
pub fn literal<T: Table>(n: usize, i: usize, pol: bool) -> T {
    T::from_fn(n, &|m| ((m >> i) & 1 == 1) == pol)
}
pub fn is_const<T: Table>(t: &T) -> Option<bool> {
    let size = 1usize << t.nvars();
    let first = t.get(0);
    for m in 1..size {
        if t.get(m) != first {
            return None;
        }
    }
    Some(first)
}
pub fn count<T: Table>(t: &T) -> usize {
    (0..(1usize << t.nvars())).filter(|m| t.get(*m)).count()
}
pub fn minterms<T: Table>(t: &T) -> Vec<usize> {
    (0..(1usize << t.nvars())).filter(|m| t.get(*m)).collect()
}
pub fn depends_on<T: Table>(t: &T, i: usize) -> bool {
    (0..(1usize << t.nvars())).any(|m| t.get(m) != t.get(m ^ (1 << i)))
}
/// exactly one of the listed positions is true (empty list = false), other positions free
pub fn exactly_one<T: Table>(n: usize, vars: &[usize]) -> T {
    T::from_fn(n, &|m| vars.iter().filter(|v| (m >> **v) & 1 == 1).count() == 1)
}
/// The set of assignments covered by a list of cubes (partial assignments, given as
/// (position, polarity) sets). Err if a cube mentions a position twice with both polarities or
/// a position outside the universe.
pub fn from_cubes<T: Table>(n: usize, cubes: &[BTreeSet<(u32, bool)>]) -> Result<T, String> {
    for c in cubes {
        for &(v, p) in c {
            if v as usize >= n {
                return Err(format!("cube {:?} mentions position {} outside the universe {}", c, v, n));
            }
            if c.contains(&(v, !p)) {
                return Err(format!("cube {:?} assigns both polarities to {}", c, v));
            }
        }
    }
    Ok(T::from_fn(n, &|m| cubes.iter().any(|c| c.iter().all(|&(v, p)| ((m >> v) & 1 == 1) == p))))
}

/// Weighted model count by direct summation: sum over the assignments satisfying `t` of the
/// product over ALL positions of (pos weight if true, neg weight if false). `w[i] = (pos, neg)`.
pub fn wmc<T: Table>(t: &T, w: &[(f64, f64)]) -> f64 {
    let n = t.nvars();
    assert!(w.len() >= n);
    let mut sum = 0.0;
    for m in 0..(1usize << n) {
        if t.get(m) {
            let mut p = 1.0;
            for i in 0..n {
                p *= if (m >> i) & 1 == 1 { w[i].0 } else { w[i].1 };
            }
            sum += p;
        }
    }
    sum
}

/// d(WMC)/d(p_v) by direct summation, where p_v is the positive weight of position `v`.
/// `exclusive == false`: neg weight is 1 - p_v, so an assignment with v false contributes
/// with sign -1. `exclusive == true` (annotated-disjunction encoding): neg weight is a
/// constant, so only assignments with v true contribute.
pub fn dwmc<T: Table>(t: &T, w: &[(f64, f64)], v: usize, exclusive: bool) -> f64 {
    let n = t.nvars();
    let mut sum = 0.0;
    for m in 0..(1usize << n) {
        if t.get(m) {
            let vt = (m >> v) & 1 == 1;
            let sign = if vt {
                1.0
            } else if exclusive {
                0.0
            } else {
                -1.0
            };
            let mut p = sign;
            for i in 0..n {
                if i != v {
                    p *= if (m >> i) & 1 == 1 { w[i].0 } else { w[i].1 };
                }
            }
            sum += p;
        }
    }
    sum
}

/// One representative (the numerically smallest table) of every NPN class of the functions of
/// 3 variables: orbits under input permutation, input negation and output negation.
pub fn npn_representatives3() -> Vec<u8> {
    let perms: [[usize; 3]; 6] = [[0, 1, 2], [0, 2, 1], [1, 0, 2], [1, 2, 0], [2, 0, 1], [2, 1, 0]];
    let mut reps = BTreeSet::new();
    for f in 0..=255u8 {
        let mut best = 255u8;
        for p in &perms {
            for neg in 0..8usize {
                let mut g = 0u8;
                for m in 0..8usize {
                    // assignment m of g maps to assignment m2 of f
                    let mut m2 = 0usize;
                    for i in 0..3 {
                        let bit = ((m >> i) & 1) ^ ((neg >> i) & 1);
                        m2 |= bit << p[i];
                    }
                    if (f >> m2) & 1 == 1 {
                        g |= 1 << m;
                    }
                }
                best = best.min(g).min(!g);
            }
        }
        reps.insert(best);
    }
    reps.into_iter().collect()
}

/// all permutations of a slice (small inputs only)
pub fn permutations<X: Clone>(xs: &[X]) -> Vec<Vec<X>> {
    if xs.len() <= 1 {
        return vec![xs.to_vec()];
    }
    let mut out = Vec::new();
    for i in 0..xs.len() {
        let mut rest = xs.to_vec();
        let x = rest.remove(i);
        for mut p in permutations(&rest) {
            p.insert(0, x.clone());
            out.push(p);
        }
    }
    out
}

/// Hand-computed micro cases.
pub fn selftest() -> Vec<String> {
    let mut e = Vec::new();
    let mut chk = |name: &str, ok: bool| {
        if !ok {
            e.push(format!("boolfn: {}", name));
        }
    };
    let close = |a: f64, b: f64| (a - b).abs() < 1e-12;
    // literals over 3 positions: x0 = 10101010, x1 = 11001100, x2 = 11110000
    let x0: B3 = literal(3, 0, true);
    let x1: B3 = literal(3, 1, true);
    let x2: B3 = literal(3, 2, true);
    chk("x0 = 0xaa", x0 == B3(0xaa));
    chk("x1 = 0xcc", x1 == B3(0xcc));
    chk("x2 = 0xf0", x2 == B3(0xf0));
    chk("not x0 = 0x55", literal::<B3>(3, 0, false) == B3(0x55) && x0.not() == B3(0x55));
    chk("x0 and x1 = 0x88", x0.and(&x1) == B3(0x88));
    chk("x0 or x1 = 0xee", x0.or(&x1) == B3(0xee));
    chk("constants", constant::<B3>(3, true) == B3(0xff) && constant::<B3>(3, false) == B3(0));
    chk("is_const", is_const(&B3(0xff)) == Some(true) && is_const(&B3(0)) == Some(false) && is_const(&B3(0x80)).is_none());
    chk("count parity = 4", count(&B3(0x96)) == 4);
    chk("minterms of 0x16", minterms(&B3(0x16)) == vec![1, 2, 4]);
    chk("depends_on", depends_on(&B3(0x88), 0) && depends_on(&B3(0x88), 1) && !depends_on(&B3(0x88), 2));
    // exactly one of {0,1,2}: assignments 001, 010, 100 = bits 1,2,4 = 0x16
    chk("exactly_one{0,1,2} = 0x16", exactly_one::<B3>(3, &[0, 1, 2]) == B3(0x16));
    // exactly one of {0,2}, x1 free: m in {1,3,4,6} = 0b01011010 = 0x5a
    chk("exactly_one{0,2} = 0x5a", exactly_one::<B3>(3, &[2, 0]) == B3(0x5a));
    chk("exactly_one{} = false", exactly_one::<B3>(3, &[]) == B3(0));
    chk("exactly_one{1} = x1", exactly_one::<B3>(3, &[1]) == x1);
    // cubes: x0 or (not x1 and x2) = {1,3,5,7} + {4,5} = 0b10111010 = 0xba
    let c1: BTreeSet<(u32, bool)> = [(0u32, true)].into_iter().collect();
    let c2: BTreeSet<(u32, bool)> = [(1u32, false), (2u32, true)].into_iter().collect();
    chk("from_cubes = 0xba", from_cubes::<B3>(3, &[c1.clone(), c2.clone()]) == Ok(B3(0xba)));
    chk("from_cubes [] = false", from_cubes::<B3>(3, &[]) == Ok(B3(0)));
    chk("from_cubes [{}] = true", from_cubes::<B3>(3, &[BTreeSet::new()]) == Ok(B3(0xff)));
    let bad: BTreeSet<(u32, bool)> = [(1u32, false), (1u32, true)].into_iter().collect();
    chk("inconsistent cube rejected", from_cubes::<B3>(3, &[bad]).is_err());
    // WMC, independent weights p = (0.3, 0.6, 0.9)
    let w = [(0.3, 0.7), (0.6, 0.4), (0.9, 0.1)];
    chk("wmc(x0 and x1) = 0.18", close(wmc(&B3(0x88), &w), 0.18));
    chk("wmc(x0 or x1) = 0.72", close(wmc(&B3(0xee), &w), 0.72));
    chk("wmc(true) = 1", close(wmc(&B3(0xff), &w), 1.0));
    chk("wmc(false) = 0", wmc(&B3(0), &w) == 0.0);
    chk("wmc(not x2) = 0.1", close(wmc(&B3(0x0f), &w), 0.1));
    // exactly-one of three with p = 1/2 each: 3/8
    let h = [(0.5, 0.5); 3];
    chk("wmc(exactly_one) = 3/8", close(wmc(&B3(0x16), &h), 0.375));
    // 0/1 weights: p0 = 0, p1 = 1: x0 or x1 certain, x0 and x1 impossible
    let z = [(0.0, 1.0), (1.0, 0.0), (0.25, 0.75)];
    chk("0/1 weights", wmc(&B3(0xee), &z) == 1.0 && wmc(&B3(0x88), &z) == 0.0);
    // annotated disjunction weights (p_i, 1): wmc(exactly_one{0,1,2}) = 0.2 + 0.3 + 0.5
    let ad = [(0.2, 1.0), (0.3, 1.0), (0.5, 1.0)];
    chk("AD wmc(exactly_one) = 1.0", close(wmc(&B3(0x16), &ad), 1.0));
    // gradients
    chk("d/dp0 (x0 or x1) = 1 - p1 = 0.4", close(dwmc(&B3(0xee), &w, 0, false), 0.4));
    chk("d/dp1 (x0 and x1) = p0 = 0.3", close(dwmc(&B3(0x88), &w, 1, false), 0.3));
    chk("d/dp2 (x0 and x1) = 0", close(dwmc(&B3(0x88), &w, 2, false), 0.0));
    chk("d/dp0 (not x0) = -1", close(dwmc(&B3(0x55), &w, 0, false), -1.0));
    // exclusive: f = x0 and exactly_one{0,1} = x0 and not x1 (x2 free, independent 0.9/0.1)
    let adw = [(0.7, 1.0), (0.3, 1.0), (0.9, 0.1)];
    let f = x0.and(&exactly_one::<B3>(3, &[0, 1]));
    chk("x0 and eo{0,1} = x0 and not x1 = 0x22", f == B3(0x22));
    chk("AD wmc = 0.7", close(wmc(&f, &adw), 0.7));
    chk("AD d/dp0 = 1", close(dwmc(&f, &adw, 0, true), 1.0));
    chk("AD d/dp1 = 0", close(dwmc(&f, &adw, 1, true), 0.0));
    chk("AD d/dp0 eo{0,1} = neg1 = 1", close(dwmc(&exactly_one::<B3>(3, &[0, 1]), &adw, 0, true), 1.0));
    // representations agree: the same formula in B3 / B6 / BV
    let g3 = x0.and(&x1).or(&x2.not());
    let g6: B6 = literal::<B6>(6, 0, true).and(&literal(6, 1, true)).or(&literal::<B6>(6, 2, true).not());
    let gv: BV = literal::<BV>(8, 0, true).and(&literal(8, 1, true)).or(&literal::<BV>(8, 2, true).not());
    chk("B6 embeds B3", (0..64).all(|m| g6.get(m) == g3.get(m & 7)));
    chk("BV embeds B3", (0..256).all(|m| gv.get(m) == g3.get(m & 7)));
    chk("B6 literal 5 = high half", literal::<B6>(6, 5, true) == B6(0xffff_ffff_0000_0000));
    chk("BV nvars", gv.nvars() == 8 && constant::<BV>(2, true).0.len() == 4);
    let w6 = [(0.3, 0.7), (0.6, 0.4), (0.9, 0.1), (0.5, 0.5), (0.0, 1.0), (1.0, 0.0)];
    // x0 and x1 or not x2: 0.18 + 0.1 - 0.018 = 0.262
    chk("wmc B3 = 0.262", close(wmc(&g3, &w), 0.262));
    chk("wmc B6 = 0.262", close(wmc(&g6, &w6), 0.262));
    let w8 = [(0.3, 0.7), (0.6, 0.4), (0.9, 0.1), (0.5, 0.5), (0.0, 1.0), (1.0, 0.0), (0.2, 0.8), (0.1, 0.9)];
    chk("wmc BV = 0.262", close(wmc(&gv, &w8), 0.262));
    chk("hex", B3(0x16).hex() == "0x16" && literal::<BV>(3, 0, true).hex() == "0xaa");
    // NPN classes
    let reps = npn_representatives3();
    chk("14 NPN classes over 3 variables", reps.len() == 14);
    chk("NPN reps contain 0x00 (constants) and 0x01 (minterm)", reps.contains(&0) && reps.contains(&1));
    chk("permutations", permutations(&[1, 2, 3]).len() == 6 && permutations::<u8>(&[]).len() == 1);
    e
}
