//! Reference models. They never call Kolibrie code.
pub mod sparql_ast;
pub mod sparql_eval;
pub mod update;
pub mod expiry_fixpoint;
pub mod window;
pub mod termdb;

/// Self-tests of the reference models against hand-computed micro cases.
pub fn selftest() -> Vec<String> {
    let mut errs = Vec::new();
    errs.extend(sparql_eval::selftest());
    errs.extend(update::selftest());
    errs.extend(expiry_fixpoint::selftest());
    errs.extend(window::selftest());
    errs.extend(termdb::selftest());
    errs
}
