//! Reference models. They never call Kolibrie code.
pub mod boolfn;
pub mod datalog;
pub mod datalog_pos;
pub mod expiry_fixpoint;
pub mod lineage_tt;
pub mod loader;
pub mod sparql_ast;
pub mod sparql_eval;
pub mod termdb;
pub mod update;
pub mod window;

/// Self-tests of the reference models against hand-computed micro cases.
pub fn selftest() -> Vec<String> {
    let mut errs = Vec::new();
    errs.extend(boolfn::selftest());
    errs.extend(datalog::selftest());
    errs.extend(datalog_pos::selftest());
    errs.extend(expiry_fixpoint::selftest());
    errs.extend(lineage_tt::selftest());
    errs.extend(loader::selftest());
    errs.extend(sparql_eval::selftest());
    errs.extend(termdb::selftest());
    errs.extend(update::selftest());
    errs.extend(window::selftest());
    errs
}
