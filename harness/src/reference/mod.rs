//! Reference models. They never call Kolibrie code.
pub mod boolfn;

/// Self-tests of the reference models against hand-computed micro cases.
pub fn selftest() -> Vec<String> {
    let mut errs = Vec::new();
    errs.extend(boolfn::selftest());
    errs
}
