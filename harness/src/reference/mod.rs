//! Reference models. They never call Kolibrie code.
pub mod lineage_tt;

/// Self-tests of the reference models against hand-computed micro cases.
pub fn selftest() -> Vec<String> {
    let mut errs = Vec::new();
    errs.extend(lineage_tt::selftest());
    errs
}
