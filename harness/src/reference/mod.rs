//! Reference models. They never call Kolibrie code.
pub mod expiry_fixpoint;

/// Self-tests of the reference models against hand-computed micro cases.
pub fn selftest() -> Vec<String> {
    #[allow(unused_mut)]
    let mut errs = Vec::new();
    errs.extend(expiry_fixpoint::selftest());
    errs
}
