//! Reference models. They never call Kolibrie code.
pub mod datalog;

/// Self-tests of the reference models against hand-computed micro cases.
pub fn selftest() -> Vec<String> {
    let mut errs = Vec::new();
    errs.extend(datalog::selftest());
    errs
}
