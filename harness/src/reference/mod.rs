//! Reference models. They never call Kolibrie code.

/// Self-tests of the reference models against hand-computed micro cases.
pub fn selftest() -> Vec<String> {
    let errs = Vec::new();
    errs
}
