//! R-sparql, part 1: an AST of the supported SELECT/Update fragment, independent of Kolibrie,
//! with a pretty-printer (several layouts) and static analysis (in-scope / certainly bound
//! variables, value kinds).
use std::collections::{BTreeMap, BTreeSet};

#[derive(Clone, Debug, PartialEq, Eq, Hash, PartialOrd, Ord)]
pub enum T {
    /// variable, name without sigil
    Var(String),
    /// absolute IRI, without brackets
    Iri(String),
    /// plain literal, lexical value (unescaped)
    Lit(String),
    /// bare numeric token (only used as filter operand)
    Num(String),
    /// blank node label (update templates only), without "_:"
    Bnode(String),
}

impl T {
    pub fn var(n: &str) -> T {
        T::Var(n.to_string())
    }
    pub fn iri(n: &str) -> T {
        T::Iri(n.to_string())
    }
    pub fn lit(n: &str) -> T {
        T::Lit(n.to_string())
    }
    pub fn is_var(&self) -> bool {
        matches!(self, T::Var(_))
    }
    pub fn var_name(&self) -> Option<&str> {
        match self {
            T::Var(n) => Some(n),
            _ => None,
        }
    }
    /// the lexical form Kolibrie stores for a constant term
    pub fn lexical(&self) -> String {
        match self {
            T::Var(n) => format!("?{}", n),
            T::Iri(s) | T::Lit(s) | T::Num(s) => s.clone(),
            T::Bnode(s) => format!("_:{}", s),
        }
    }
}

pub fn escape_literal(s: &str) -> String {
    let mut o = String::new();
    for c in s.chars() {
        match c {
            '"' => o.push_str("\\\""),
            '\\' => o.push_str("\\\\"),
            '\n' => o.push_str("\\n"),
            '\r' => o.push_str("\\r"),
            '\t' => o.push_str("\\t"),
            c => o.push(c),
        }
    }
    o
}

pub fn print_term(t: &T) -> String {
    match t {
        T::Var(n) => format!("?{}", n),
        T::Iri(s) => format!("<{}>", s),
        T::Lit(s) => format!("\"{}\"", escape_literal(s)),
        T::Num(s) => s.clone(),
        T::Bnode(s) => format!("_:{}", s),
    }
}

#[derive(Clone, Debug, PartialEq, Eq, Hash, PartialOrd, Ord)]
pub struct TP {
    pub s: T,
    pub p: T,
    pub o: T,
}

pub fn tp(s: T, p: T, o: T) -> TP {
    TP { s, p, o }
}

#[derive(Clone, Copy, Debug, PartialEq, Eq, Hash, PartialOrd, Ord)]
pub enum Cmp {
    Eq,
    Ne,
    Lt,
    Le,
    Gt,
    Ge,
}

impl Cmp {
    pub fn sym(&self) -> &'static str {
        match self {
            Cmp::Eq => "=",
            Cmp::Ne => "!=",
            Cmp::Lt => "<",
            Cmp::Le => "<=",
            Cmp::Gt => ">",
            Cmp::Ge => ">=",
        }
    }
    pub fn is_order(&self) -> bool {
        !matches!(self, Cmp::Eq | Cmp::Ne)
    }
    /// the operator of the same comparison written with its operands swapped (`a < b` = `b > a`)
    pub fn mirror(&self) -> Cmp {
        match self {
            Cmp::Eq => Cmp::Eq,
            Cmp::Ne => Cmp::Ne,
            Cmp::Lt => Cmp::Gt,
            Cmp::Le => Cmp::Ge,
            Cmp::Gt => Cmp::Lt,
            Cmp::Ge => Cmp::Le,
        }
    }
}

/// arithmetic over numeric operands (variables or numeric tokens)
#[derive(Clone, Debug, PartialEq, Eq, Hash, PartialOrd, Ord)]
pub enum Arith {
    Operand(T),
    Add(Box<Arith>, Box<Arith>),
    Sub(Box<Arith>, Box<Arith>),
    Mul(Box<Arith>, Box<Arith>),
    Div(Box<Arith>, Box<Arith>),
}

impl Arith {
    pub fn vars(&self, out: &mut BTreeSet<String>) {
        match self {
            Arith::Operand(T::Var(n)) => {
                out.insert(n.clone());
            }
            Arith::Operand(_) => {}
            Arith::Add(a, b) | Arith::Sub(a, b) | Arith::Mul(a, b) | Arith::Div(a, b) => {
                a.vars(out);
                b.vars(out);
            }
        }
    }
    /// fully parenthesised text
    pub fn text(&self) -> String {
        match self {
            Arith::Operand(t) => print_term(t),
            Arith::Add(a, b) => format!("({} + {})", a.text(), b.text()),
            Arith::Sub(a, b) => format!("({} - {})", a.text(), b.text()),
            Arith::Mul(a, b) => format!("({} * {})", a.text(), b.text()),
            Arith::Div(a, b) => format!("({} / {})", a.text(), b.text()),
        }
    }
}

#[derive(Clone, Debug, PartialEq, Eq, Hash, PartialOrd, Ord)]
pub enum Expr {
    Cmp(T, Cmp, T),
    /// comparison of two arithmetic expressions (at least one of them compound)
    ArithCmp(Arith, Cmp, Arith),
    And(Box<Expr>, Box<Expr>),
    Or(Box<Expr>, Box<Expr>),
    Not(Box<Expr>),
}

impl Expr {
    pub fn vars(&self, out: &mut BTreeSet<String>) {
        match self {
            Expr::Cmp(a, _, b) => {
                if let T::Var(n) = a {
                    out.insert(n.clone());
                }
                if let T::Var(n) = b {
                    out.insert(n.clone());
                }
            }
            Expr::ArithCmp(a, _, b) => {
                a.vars(out);
                b.vars(out);
            }
            Expr::And(a, b) | Expr::Or(a, b) => {
                a.vars(out);
                b.vars(out);
            }
            Expr::Not(a) => a.vars(out),
        }
    }
}

#[derive(Clone, Debug, PartialEq, Eq, Hash, PartialOrd, Ord)]
pub enum Elem {
    /// one triples block (patterns written consecutively, `.`-separated or abbreviated)
    Triples(Vec<TP>),
    /// GRAPH <iri> | ?var { group }
    Graph(T, Group),
    /// { A } UNION { B } ...
    Union(Vec<Group>),
    /// nested braces
    Nested(Group),
    Filter(Expr),
    /// BIND(CONCAT(args) AS ?out)
    Bind(Vec<T>, String),
    /// VALUES (vars) { rows }, None = UNDEF
    Values(Vec<String>, Vec<Vec<Option<T>>>),
    Sub(Box<Select>),
}

#[derive(Clone, Debug, Default, PartialEq, Eq, Hash, PartialOrd, Ord)]
pub struct Group(pub Vec<Elem>);

#[derive(Clone, Copy, Debug, PartialEq, Eq, Hash, PartialOrd, Ord)]
pub enum Agg {
    Sum,
    Min,
    Max,
    Avg,
}

impl Agg {
    pub fn name(&self) -> &'static str {
        match self {
            Agg::Sum => "SUM",
            Agg::Min => "MIN",
            Agg::Max => "MAX",
            Agg::Avg => "AVG",
        }
    }
}

#[derive(Clone, Debug, PartialEq, Eq, Hash, PartialOrd, Ord)]
pub enum ProjItem {
    Var(String),
    Agg(Agg, String, String), // func, input var, alias
}

#[derive(Clone, Debug, PartialEq, Eq, Hash, PartialOrd, Ord)]
pub enum Proj {
    Star,
    Items(Vec<ProjItem>),
}

#[derive(Clone, Debug, PartialEq, Eq, Hash, PartialOrd, Ord)]
pub struct Select {
    pub distinct: bool,
    pub proj: Proj,
    pub from: Vec<String>,
    pub from_named: Vec<String>,
    pub pattern: Group,
    pub group_by: Vec<String>,
    /// (variable, descending)
    pub order_by: Vec<(String, bool)>,
    pub limit: Option<usize>,
}

impl Select {
    pub fn simple(vars: &[&str], pattern: Group) -> Select {
        Select {
            distinct: false,
            proj: Proj::Items(vars.iter().map(|v| ProjItem::Var(v.to_string())).collect()),
            from: vec![],
            from_named: vec![],
            pattern,
            group_by: vec![],
            order_by: vec![],
            limit: None,
        }
    }
    pub fn has_aggregate(&self) -> bool {
        matches!(&self.proj, Proj::Items(items) if items.iter().any(|i| matches!(i, ProjItem::Agg(..))))
    }
    /// output column names (for Star: variables in order of first appearance in the pattern)
    pub fn columns(&self) -> Vec<String> {
        match &self.proj {
            Proj::Star => {
                let mut v = Vec::new();
                self.pattern.visible_vars_ordered(&mut v);
                v
            }
            Proj::Items(items) => items
                .iter()
                .map(|i| match i {
                    ProjItem::Var(v) => v.clone(),
                    ProjItem::Agg(_, _, alias) => alias.clone(),
                })
                .collect(),
        }
    }
    /// number of operators (for the non-triviality rule)
    pub fn operator_count(&self) -> usize {
        let mut n = self.pattern.operator_count();
        if self.distinct {
            n += 1;
        }
        if !self.from.is_empty() || !self.from_named.is_empty() {
            n += 1;
        }
        if !self.group_by.is_empty() || self.has_aggregate() {
            n += 1;
        }
        if !self.order_by.is_empty() {
            n += 1;
        }
        if self.limit.is_some() {
            n += 1;
        }
        n
    }
}

impl Group {
    pub fn operator_count(&self) -> usize {
        let mut n = 0;
        for e in &self.0 {
            n += match e {
                Elem::Triples(t) => t.len(),
                Elem::Graph(_, g) => 1 + g.operator_count(),
                Elem::Union(bs) => 1 + bs.iter().map(|b| b.operator_count()).sum::<usize>(),
                Elem::Nested(g) => g.operator_count(),
                Elem::Filter(_) | Elem::Bind(..) | Elem::Values(..) => 1,
                Elem::Sub(s) => 1 + s.operator_count(),
            };
        }
        n
    }

    /// Variables visible outside this group, in order of first appearance (SELECT * order).
    pub fn visible_vars_ordered(&self, out: &mut Vec<String>) {
        fn push(out: &mut Vec<String>, v: &str) {
            if !out.iter().any(|x| x == v) {
                out.push(v.to_string());
            }
        }
        for e in &self.0 {
            match e {
                Elem::Triples(ts) => {
                    for t in ts {
                        for x in [&t.s, &t.p, &t.o] {
                            if let T::Var(n) = x {
                                push(out, n);
                            }
                        }
                    }
                }
                Elem::Graph(g, inner) => {
                    if let T::Var(n) = g {
                        push(out, n);
                    }
                    inner.visible_vars_ordered(out);
                }
                Elem::Union(bs) => {
                    for b in bs {
                        b.visible_vars_ordered(out);
                    }
                }
                Elem::Nested(g) => g.visible_vars_ordered(out),
                Elem::Filter(_) => {}
                Elem::Bind(_, o) => push(out, o),
                Elem::Values(vs, _) => {
                    for v in vs {
                        push(out, v);
                    }
                }
                Elem::Sub(s) => {
                    for c in s.columns() {
                        push(out, &c);
                    }
                }
            }
        }
    }

    /// Variables bound in every solution of this group.
    pub fn certain_vars(&self) -> BTreeSet<String> {
        let mut out = BTreeSet::new();
        for e in &self.0 {
            match e {
                Elem::Triples(ts) => {
                    for t in ts {
                        for x in [&t.s, &t.p, &t.o] {
                            if let T::Var(n) = x {
                                out.insert(n.clone());
                            }
                        }
                    }
                }
                Elem::Graph(g, inner) => {
                    if let T::Var(n) = g {
                        out.insert(n.clone());
                    }
                    out.extend(inner.certain_vars());
                }
                Elem::Union(bs) => {
                    let mut it = bs.iter().map(|b| b.certain_vars());
                    if let Some(first) = it.next() {
                        let inter = it.fold(first, |a, b| a.intersection(&b).cloned().collect());
                        out.extend(inter);
                    }
                }
                Elem::Nested(g) => out.extend(g.certain_vars()),
                Elem::Filter(_) => {}
                Elem::Bind(_, o) => {
                    out.insert(o.clone());
                }
                Elem::Values(vs, rows) => {
                    for (i, v) in vs.iter().enumerate() {
                        if rows.iter().all(|r| r[i].is_some()) && !rows.is_empty() {
                            out.insert(v.clone());
                        }
                    }
                }
                Elem::Sub(s) => {
                    let inner = s.pattern.certain_vars();
                    if let Proj::Items(items) = &s.proj {
                        for i in items {
                            if let ProjItem::Var(v) = i {
                                if inner.contains(v) {
                                    out.insert(v.clone());
                                }
                            }
                        }
                    } else {
                        out.extend(inner);
                    }
                }
            }
        }
        out
    }

    /// Variables that certainly hold a numeric literal / certainly hold an IRI, judged from the
    /// data convention of the harness universe: objects of predicate `num_pred` are numeric
    /// literals; subjects and objects of every other constant predicate are IRIs.
    pub fn var_kinds(&self, num_pred: &str, kinds: &mut BTreeMap<String, VarKind>) {
        fn note(kinds: &mut BTreeMap<String, VarKind>, v: &str, k: VarKind) {
            let e = kinds.entry(v.to_string()).or_insert(k);
            if *e != k {
                *e = VarKind::Unknown;
            }
        }
        for e in &self.0 {
            match e {
                Elem::Triples(ts) => {
                    for t in ts {
                        if let T::Var(n) = &t.s {
                            note(kinds, n, VarKind::Iri);
                        }
                        if let T::Var(n) = &t.p {
                            note(kinds, n, VarKind::Iri);
                        }
                        if let T::Var(n) = &t.o {
                            match &t.p {
                                T::Iri(p) if p == num_pred => note(kinds, n, VarKind::Num),
                                T::Iri(_) => note(kinds, n, VarKind::Iri),
                                _ => note(kinds, n, VarKind::Unknown),
                            }
                        }
                    }
                }
                Elem::Graph(g, inner) => {
                    if let T::Var(n) = g {
                        note(kinds, n, VarKind::Iri);
                    }
                    inner.var_kinds(num_pred, kinds);
                }
                Elem::Union(bs) => {
                    for b in bs {
                        b.var_kinds(num_pred, kinds);
                    }
                }
                Elem::Nested(g) => g.var_kinds(num_pred, kinds),
                Elem::Filter(_) => {}
                Elem::Bind(_, o) => note(kinds, o, VarKind::Str),
                Elem::Values(vs, rows) => {
                    for (i, v) in vs.iter().enumerate() {
                        for r in rows {
                            match &r[i] {
                                Some(T::Iri(_)) => note(kinds, v, VarKind::Iri),
                                Some(T::Lit(s)) | Some(T::Num(s)) => {
                                    if s.parse::<f64>().is_ok() {
                                        note(kinds, v, VarKind::Num)
                                    } else {
                                        note(kinds, v, VarKind::Str)
                                    }
                                }
                                _ => {}
                            }
                        }
                    }
                }
                Elem::Sub(s) => {
                    let mut inner = BTreeMap::new();
                    s.pattern.var_kinds(num_pred, &mut inner);
                    match &s.proj {
                        Proj::Star => {
                            for (v, k) in inner {
                                note(kinds, &v, k);
                            }
                        }
                        Proj::Items(items) => {
                            for i in items {
                                match i {
                                    ProjItem::Var(v) => {
                                        if let Some(k) = inner.get(v) {
                                            note(kinds, v, *k);
                                        }
                                    }
                                    ProjItem::Agg(_, _, alias) => note(kinds, alias, VarKind::Num),
                                }
                            }
                        }
                    }
                }
            }
        }
    }
}

#[derive(Clone, Copy, Debug, PartialEq, Eq)]
pub enum VarKind {
    Iri,
    Num,
    Str,
    Unknown,
}

// ---------------------------------------------------------------------------------------
// Pretty printer
// ---------------------------------------------------------------------------------------

#[derive(Clone, Copy, Debug, PartialEq, Eq)]
pub enum Layout {
    /// single spaces, `.` after every pattern
    Canonical,
    /// as little whitespace as the grammar allows
    Minimal,
    /// newlines, indentation, a comment after most tokens
    Commented,
    /// lower-case keywords
    Lower,
    /// mixed-case keywords, tabs
    Mixed,
    /// `;` / `,` abbreviations inside triples blocks, optional dots omitted
    Abbrev,
}

pub const LAYOUTS: [Layout; 6] = [Layout::Canonical, Layout::Minimal, Layout::Commented, Layout::Lower, Layout::Mixed, Layout::Abbrev];

struct P {
    layout: Layout,
    out: String,
    n: usize,
}

impl P {
    fn kw(&mut self, k: &str) {
        let s = match self.layout {
            Layout::Lower => k.to_lowercase(),
            Layout::Mixed => k.chars().enumerate().map(|(i, c)| if i % 2 == 0 { c.to_ascii_uppercase() } else { c.to_ascii_lowercase() }).collect(),
            _ => k.to_string(),
        };
        self.tok(&s);
    }
    fn sep(&mut self) {
        self.n += 1;
        match self.layout {
            Layout::Canonical | Layout::Lower | Layout::Abbrev => self.out.push(' '),
            Layout::Minimal => {}
            Layout::Commented => {
                if self.n % 3 == 0 {
                    self.out.push_str(" # note ?x { } . \"q\n  ");
                } else {
                    self.out.push_str("\n\t ");
                }
            }
            Layout::Mixed => self.out.push_str(if self.n % 2 == 0 { "\t" } else { "  " }),
        }
    }
    /// word-like token: needs a separator from a preceding word-like token
    fn tok(&mut self, s: &str) {
        if !self.out.is_empty() {
            if self.layout == Layout::Minimal {
                let last = self.out.chars().last().unwrap();
                let first = s.chars().next().unwrap_or(' ');
                let wordy = |c: char| c.is_alphanumeric() || matches!(c, '_' | '-' | ':' | '?' | '$' | '"' | '<' | '>' | '.' | '!' | '=' | '&' | '|');
                if wordy(last) && wordy(first) {
                    self.out.push(' ');
                }
            } else {
                self.sep();
            }
        }
        self.out.push_str(s);
    }
    /// punctuation that never needs a separator in Minimal layout
    fn punct(&mut self, s: &str) {
        if self.layout != Layout::Minimal && !self.out.is_empty() {
            self.sep();
        }
        self.out.push_str(s);
    }
}

fn print_expr(p: &mut P, e: &Expr, top: bool) {
    match e {
        Expr::Cmp(a, op, b) => {
            p.tok(&print_term(a));
            p.tok(op.sym());
            p.tok(&print_term(b));
        }
        Expr::ArithCmp(a, op, b) => {
            // arithmetic is printed fully parenthesised; tokens separated so that every layout can
            // vary the whitespace between them
            for part in [a.text(), op.sym().to_string(), b.text()] {
                for tok in part.replace('(', " ( ").replace(')', " ) ").split_whitespace() {
                    if tok == "(" || tok == ")" {
                        p.punct(tok);
                    } else {
                        p.tok(tok);
                    }
                }
            }
        }
        Expr::And(a, b) => {
            if !top {
                p.punct("(");
            }
            print_expr_operand(p, a);
            p.tok("&&");
            print_expr_operand(p, b);
            if !top {
                p.punct(")");
            }
        }
        Expr::Or(a, b) => {
            if !top {
                p.punct("(");
            }
            print_expr_operand(p, a);
            p.tok("||");
            print_expr_operand(p, b);
            if !top {
                p.punct(")");
            }
        }
        Expr::Not(a) => {
            p.tok("!");
            p.punct("(");
            print_expr(p, a, true);
            p.punct(")");
        }
    }
}

fn print_expr_operand(p: &mut P, e: &Expr) {
    match e {
        Expr::Cmp(..) | Expr::Not(_) => print_expr(p, e, false),
        _ => print_expr(p, e, false),
    }
}

fn print_group(p: &mut P, g: &Group) {
    p.punct("{");
    let n = g.0.len();
    for (i, e) in g.0.iter().enumerate() {
        print_elem(p, e, i + 1 == n);
    }
    p.punct("}");
}

fn print_elem(p: &mut P, e: &Elem, last: bool) {
    match e {
        Elem::Triples(ts) => {
            if p.layout == Layout::Abbrev {
                // group consecutive patterns sharing the subject with ';' and subject+predicate with ','
                let mut i = 0;
                while i < ts.len() {
                    let s = &ts[i].s;
                    p.tok(&print_term(s));
                    p.tok(&print_term(&ts[i].p));
                    p.tok(&print_term(&ts[i].o));
                    let mut j = i + 1;
                    while j < ts.len() && &ts[j].s == s {
                        if ts[j].p == ts[j - 1].p {
                            p.punct(",");
                            p.tok(&print_term(&ts[j].o));
                        } else {
                            p.punct(";");
                            p.tok(&print_term(&ts[j].p));
                            p.tok(&print_term(&ts[j].o));
                        }
                        j += 1;
                    }
                    i = j;
                    if !(last && i >= ts.len()) {
                        p.punct(".");
                    }
                }
            } else {
                for (k, t) in ts.iter().enumerate() {
                    p.tok(&print_term(&t.s));
                    p.tok(&print_term(&t.p));
                    p.tok(&print_term(&t.o));
                    let final_one = last && k + 1 == ts.len();
                    if !(final_one && p.layout == Layout::Minimal) {
                        p.punct(".");
                    }
                }
            }
        }
        Elem::Graph(g, inner) => {
            p.kw("GRAPH");
            p.tok(&print_term(g));
            print_group(p, inner);
        }
        Elem::Union(bs) => {
            for (i, b) in bs.iter().enumerate() {
                if i > 0 {
                    p.kw("UNION");
                }
                print_group(p, b);
            }
        }
        Elem::Nested(g) => print_group(p, g),
        Elem::Filter(e) => {
            p.kw("FILTER");
            p.punct("(");
            print_expr(p, e, true);
            p.punct(")");
        }
        Elem::Bind(args, out) => {
            p.kw("BIND");
            p.punct("(");
            p.kw("CONCAT");
            p.punct("(");
            for (i, a) in args.iter().enumerate() {
                if i > 0 {
                    p.punct(",");
                }
                p.tok(&print_term(a));
            }
            p.punct(")");
            p.kw("AS");
            p.tok(&format!("?{}", out));
            p.punct(")");
        }
        Elem::Values(vars, rows) => {
            p.kw("VALUES");
            if vars.len() == 1 && p.layout != Layout::Commented {
                p.tok(&format!("?{}", vars[0]));
                p.punct("{");
                for r in rows {
                    match &r[0] {
                        Some(t) => p.tok(&print_term(t)),
                        None => p.kw("UNDEF"),
                    }
                }
                p.punct("}");
            } else {
                p.punct("(");
                for v in vars {
                    p.tok(&format!("?{}", v));
                }
                p.punct(")");
                p.punct("{");
                for r in rows {
                    if vars.len() == 1 {
                        // the single-variable form has no parentheses around rows
                        match &r[0] {
                            Some(t) => p.tok(&print_term(t)),
                            None => p.kw("UNDEF"),
                        }
                        continue;
                    }
                    p.punct("(");
                    for c in r {
                        match c {
                            Some(t) => p.tok(&print_term(t)),
                            None => p.kw("UNDEF"),
                        }
                    }
                    p.punct(")");
                }
                p.punct("}");
            }
        }
        Elem::Sub(s) => {
            p.punct("{");
            print_select_into(p, s);
            p.punct("}");
        }
    }
}

fn print_select_into(p: &mut P, s: &Select) {
    p.kw("SELECT");
    if s.distinct {
        p.kw("DISTINCT");
    }
    match &s.proj {
        Proj::Star => p.tok("*"),
        Proj::Items(items) => {
            for i in items {
                match i {
                    ProjItem::Var(v) => p.tok(&format!("?{}", v)),
                    ProjItem::Agg(f, v, alias) => {
                        p.punct("(");
                        p.kw(f.name());
                        p.punct("(");
                        p.tok(&format!("?{}", v));
                        p.punct(")");
                        p.kw("AS");
                        p.tok(&format!("?{}", alias));
                        p.punct(")");
                    }
                }
            }
        }
    }
    for f in &s.from {
        p.kw("FROM");
        p.tok(&format!("<{}>", f));
    }
    for f in &s.from_named {
        p.kw("FROM");
        p.kw("NAMED");
        p.tok(&format!("<{}>", f));
    }
    p.kw("WHERE");
    print_group(p, &s.pattern);
    if !s.group_by.is_empty() {
        p.kw("GROUP");
        p.kw("BY");
        for v in &s.group_by {
            p.tok(&format!("?{}", v));
        }
    }
    if !s.order_by.is_empty() {
        p.kw("ORDER");
        p.kw("BY");
        for (v, desc) in &s.order_by {
            if *desc {
                p.kw("DESC");
                p.punct("(");
                p.tok(&format!("?{}", v));
                p.punct(")");
            } else if p.layout == Layout::Abbrev || p.layout == Layout::Minimal {
                p.tok(&format!("?{}", v));
            } else {
                p.kw("ASC");
                p.punct("(");
                p.tok(&format!("?{}", v));
                p.punct(")");
            }
        }
    }
    if let Some(l) = s.limit {
        p.kw("LIMIT");
        p.tok(&l.to_string());
    }
}

pub fn print_select(s: &Select, layout: Layout) -> String {
    let mut p = P { layout, out: String::new(), n: 0 };
    print_select_into(&mut p, s);
    p.out
}

pub fn print_group_text(g: &Group, layout: Layout) -> String {
    let mut p = P { layout, out: String::new(), n: 0 };
    print_group(&mut p, g);
    p.out
}

// ---------------------------------------------------------------------------------------
// Updates
// ---------------------------------------------------------------------------------------

#[derive(Clone, Debug, PartialEq, Eq, Hash, PartialOrd, Ord)]
pub struct QuadT {
    /// None = default graph; Some(Iri | Var)
    pub g: Option<T>,
    pub t: TP,
}

#[derive(Clone, Debug, PartialEq, Eq, Hash, PartialOrd, Ord)]
pub enum Update {
    InsertData(Vec<QuadT>),
    DeleteData(Vec<QuadT>),
    /// DELETE {..} INSERT {..} WHERE {..}; either template may be absent
    Modify { delete: Option<Vec<QuadT>>, insert: Option<Vec<QuadT>>, pattern: Group },
    /// DELETE WHERE { quads }
    DeleteWhere(Vec<QuadT>),
}

fn print_quads(p: &mut P, quads: &[QuadT]) {
    p.punct("{");
    // consecutive quads of the same graph share one GRAPH block
    let mut i = 0;
    while i < quads.len() {
        let g = &quads[i].g;
        let mut j = i;
        while j < quads.len() && &quads[j].g == g {
            j += 1;
        }
        if let Some(gt) = g {
            p.kw("GRAPH");
            p.tok(&print_term(gt));
            p.punct("{");
        }
        for q in &quads[i..j] {
            p.tok(&print_term(&q.t.s));
            p.tok(&print_term(&q.t.p));
            p.tok(&print_term(&q.t.o));
            p.punct(".");
        }
        if g.is_some() {
            p.punct("}");
        }
        i = j;
    }
    p.punct("}");
}

pub fn print_update(u: &Update, layout: Layout) -> String {
    let mut p = P { layout, out: String::new(), n: 0 };
    match u {
        Update::InsertData(q) => {
            p.kw("INSERT");
            p.kw("DATA");
            print_quads(&mut p, q);
        }
        Update::DeleteData(q) => {
            p.kw("DELETE");
            p.kw("DATA");
            print_quads(&mut p, q);
        }
        Update::Modify { delete, insert, pattern } => {
            if let Some(d) = delete {
                p.kw("DELETE");
                print_quads(&mut p, d);
            }
            if let Some(i) = insert {
                p.kw("INSERT");
                print_quads(&mut p, i);
            }
            p.kw("WHERE");
            print_group(&mut p, pattern);
        }
        Update::DeleteWhere(q) => {
            p.kw("DELETE");
            p.kw("WHERE");
            print_quads(&mut p, q);
        }
    }
    p.out
}
