//! R-expiry — naive least fixpoint of positive triple rules in the (max,min) semiring over
//! facts annotated with expiry times. Self-contained (strings only), never calls Kolibrie.
//!
//! Meaning: every seed fact carries the time until which it stays listed (`INF` = for ever).
//! A derivation is fully supported until the smallest expiry among its leaves (min over the
//! premises of every rule application in it); a fact is supported until the largest such
//! value over all its derivations (max). That is the least fixpoint of
//!     val(f) = max( seed(f), max over rule instances r with conclusion f of min over premises g of val(g) )
//! computed here by plain Kleene iteration from the seeds (every round re-evaluates every rule
//! against all facts; no deltas, no indexes — deliberately boring).
use std::collections::BTreeMap;

pub const INF: u64 = u64::MAX;
pub type Fact = (String, String, String);

#[derive(Clone, Debug, PartialEq, Eq)]
pub enum T {
    /// variable
    V(String),
    /// constant (lexical form)
    C(String),
}
pub fn v(s: &str) -> T {
    T::V(s.to_string())
}
pub fn c(s: &str) -> T {
    T::C(s.to_string())
}
pub type Atom = (T, T, T);

#[derive(Clone, Debug)]
pub struct Rule {
    pub premise: Vec<Atom>,
    pub conclusion: Vec<Atom>,
}

type Binding = BTreeMap<String, String>;

fn unify(t: &T, val: &str, b: &mut Binding) -> bool {
    match t {
        T::C(k) => k == val,
        T::V(name) => match b.get(name) {
            Some(x) => x == val,
            None => {
                b.insert(name.clone(), val.to_string());
                true
            }
        },
    }
}

fn subst(t: &T, b: &Binding) -> Option<String> {
    match t {
        T::C(k) => Some(k.clone()),
        T::V(name) => b.get(name).cloned(),
    }
}

/// all (binding, min of the matched facts' values) for a conjunction of atoms
fn solutions(premise: &[Atom], facts: &BTreeMap<Fact, u64>) -> Vec<(Binding, u64)> {
    let mut cur: Vec<(Binding, u64)> = vec![(Binding::new(), INF)];
    for atom in premise {
        let mut next = Vec::new();
        for (b, val) in &cur {
            for (f, fv) in facts {
                let mut b2 = b.clone();
                if unify(&atom.0, &f.0, &mut b2) && unify(&atom.1, &f.1, &mut b2) && unify(&atom.2, &f.2, &mut b2) {
                    next.push((b2, (*val).min(*fv)));
                }
            }
        }
        cur = next;
    }
    cur
}

/// Least fixpoint in (max,min). Seeds listed more than once count with their largest value.
pub fn fixpoint(rules: &[Rule], seeds: &[(Fact, u64)]) -> BTreeMap<Fact, u64> {
    let mut val: BTreeMap<Fact, u64> = BTreeMap::new();
    for (f, e) in seeds {
        let slot = val.entry(f.clone()).or_insert(0);
        *slot = (*slot).max(*e);
    }
    loop {
        let snapshot = val.clone();
        let mut changed = false;
        for r in rules {
            for (b, m) in solutions(&r.premise, &snapshot) {
                for concl in &r.conclusion {
                    let (s, p, o) = match (subst(&concl.0, &b), subst(&concl.1, &b), subst(&concl.2, &b)) {
                        (Some(s), Some(p), Some(o)) => (s, p, o),
                        _ => continue, // unsafe rule: never generated
                    };
                    let slot = val.entry((s, p, o)).or_insert(0);
                    if m > *slot {
                        *slot = m;
                        changed = true;
                    }
                }
            }
        }
        if !changed {
            // facts that only ever got value 0 would be "never supported"; they cannot arise
            // from seeds > 0, but drop them so that presence == support.
            val.retain(|_, e| *e > 0);
            return val;
        }
    }
}

/// Fixpoint over the seeds that are alive at `now` (alive <=> expiry > now).
pub fn fixpoint_alive(rules: &[Rule], seeds: &[(Fact, u64)], now: u64) -> BTreeMap<Fact, u64> {
    let alive: Vec<(Fact, u64)> = seeds.iter().filter(|(_, e)| *e > now).cloned().collect();
    fixpoint(rules, &alive)
}

fn f(s: &str, p: &str, o: &str) -> Fact {
    (s.to_string(), p.to_string(), o.to_string())
}

pub fn selftest() -> Vec<String> {
    let mut errs = Vec::new();
    let mut expect = |name: &str, got: BTreeMap<Fact, u64>, exp: Vec<(Fact, u64)>| {
        let exp: BTreeMap<Fact, u64> = exp.into_iter().collect();
        if got != exp {
            errs.push(format!("expiry_fixpoint/{}: got {:?}, expected {:?}", name, got, exp));
        }
    };
    let copy = Rule { premise: vec![(v("x"), c("p"), v("y"))], conclusion: vec![(v("x"), c("q"), v("y"))] };
    // 1. copy keeps the expiry
    expect("copy", fixpoint(&[copy.clone()], &[(f("a", "p", "b"), 5)]), vec![(f("a", "p", "b"), 5), (f("a", "q", "b"), 5)]);
    // 2. join = min over premises
    let join = Rule { premise: vec![(v("x"), c("p"), v("y")), (v("y"), c("r"), v("z"))], conclusion: vec![(v("x"), c("j"), v("z"))] };
    expect(
        "join_min",
        fixpoint(&[join.clone()], &[(f("a", "p", "b"), 5), (f("b", "r", "c"), 7), (f("c", "r", "a"), 9)]),
        vec![(f("a", "p", "b"), 5), (f("b", "r", "c"), 7), (f("c", "r", "a"), 9), (f("a", "j", "c"), 5)],
    );
    // 3. two derivations = max
    let copy2 = Rule { premise: vec![(v("x"), c("r"), v("y"))], conclusion: vec![(v("x"), c("q"), v("y"))] };
    expect(
        "two_derivations_max",
        fixpoint(&[copy.clone(), copy2.clone()], &[(f("a", "p", "b"), 5), (f("a", "r", "b"), 7)]),
        vec![(f("a", "p", "b"), 5), (f("a", "r", "b"), 7), (f("a", "q", "b"), 7)],
    );
    // 4. transitive: direct edge 2 against path min(3,9) = 3
    let trans = Rule { premise: vec![(v("x"), c("t"), v("y")), (v("y"), c("t"), v("z"))], conclusion: vec![(v("x"), c("t"), v("z"))] };
    expect(
        "transitive_max_of_min",
        fixpoint(&[trans.clone()], &[(f("a", "t", "b"), 3), (f("b", "t", "c"), 9), (f("a", "t", "c"), 2)]),
        vec![(f("a", "t", "b"), 3), (f("b", "t", "c"), 9), (f("a", "t", "c"), 3)],
    );
    // 5. cycle a->b (5), b->c (6), c->a (7): every pair, bottleneck of the unique simple path
    expect(
        "transitive_cycle",
        fixpoint(&[trans.clone()], &[(f("a", "t", "b"), 5), (f("b", "t", "c"), 6), (f("c", "t", "a"), 7)]),
        vec![
            (f("a", "t", "b"), 5),
            (f("b", "t", "c"), 6),
            (f("c", "t", "a"), 7),
            (f("a", "t", "c"), 5),
            (f("b", "t", "a"), 6),
            (f("c", "t", "b"), 5),
            (f("a", "t", "a"), 5),
            (f("b", "t", "b"), 5),
            (f("c", "t", "c"), 5),
        ],
    );
    // 6. static premise = infinity is neutral for min; a fact derived from static only is infinite
    let stat = Rule { premise: vec![(v("x"), c("p"), v("y")), (v("y"), c("k"), v("z"))], conclusion: vec![(v("x"), c("s"), v("z"))] };
    let stat_only = Rule { premise: vec![(v("x"), c("k"), v("y"))], conclusion: vec![(v("x"), c("st"), v("y"))] };
    expect(
        "static_infinite",
        fixpoint(&[stat, stat_only], &[(f("a", "p", "b"), 4), (f("b", "k", "c"), INF)]),
        vec![(f("a", "p", "b"), 4), (f("b", "k", "c"), INF), (f("a", "s", "c"), 4), (f("b", "st", "c"), INF)],
    );
    // 7. chain of two rules, and a seed that is also derivable with a larger value
    let chain2 = Rule { premise: vec![(v("x"), c("q"), v("y"))], conclusion: vec![(v("x"), c("r"), v("y"))] };
    expect(
        "chain_and_seed_improved",
        fixpoint(&[copy.clone(), chain2], &[(f("a", "p", "b"), 8), (f("a", "r", "b"), 2)]),
        vec![(f("a", "p", "b"), 8), (f("a", "q", "b"), 8), (f("a", "r", "b"), 8)],
    );
    // 8. alive filter: expiry == now is dead, expiry == now+1 is alive; duplicates take the max
    expect(
        "alive_filter",
        fixpoint_alive(&[copy.clone()], &[(f("a", "p", "b"), 5), (f("b", "p", "c"), 6), (f("b", "p", "c"), 4)], 5),
        vec![(f("b", "p", "c"), 6), (f("b", "q", "c"), 6)],
    );
    // 9. repeated variable and constant in the premise
    let refl = Rule { premise: vec![(v("x"), c("p"), v("x"))], conclusion: vec![(v("x"), c("loop"), c("yes"))] };
    expect(
        "repeated_variable",
        fixpoint(&[refl], &[(f("a", "p", "a"), 3), (f("a", "p", "b"), 9)]),
        vec![(f("a", "p", "a"), 3), (f("a", "p", "b"), 9), (f("a", "loop", "yes"), 3)],
    );
    // 10. nothing alive -> nothing derived
    expect("empty", fixpoint_alive(&[copy.clone(), join, trans], &[(f("a", "p", "b"), 5)], 5), vec![]);
    // 11. three premises: min over three sources, a static one is neutral; the same binding through a
    //     second, longer-lived middle fact raises the result (max over derivations)
    let tri = Rule { premise: vec![(v("x"), c("p"), v("y")), (v("y"), c("q"), v("z")), (v("z"), c("k"), v("w"))], conclusion: vec![(v("x"), c("j3"), v("w"))] };
    expect(
        "three_premises_min",
        fixpoint(&[tri.clone()], &[(f("a", "p", "b"), 7), (f("b", "q", "c"), 5), (f("c", "k", "d"), INF)]),
        vec![(f("a", "p", "b"), 7), (f("b", "q", "c"), 5), (f("c", "k", "d"), INF), (f("a", "j3", "d"), 5)],
    );
    expect(
        "three_premises_max_of_min",
        fixpoint(&[tri], &[(f("a", "p", "b"), 7), (f("b", "q", "c"), 5), (f("c", "k", "d"), 9), (f("a", "p", "e"), 8), (f("e", "q", "c"), 6)]),
        vec![(f("a", "p", "b"), 7), (f("b", "q", "c"), 5), (f("c", "k", "d"), 9), (f("a", "p", "e"), 8), (f("e", "q", "c"), 6), (f("a", "j3", "d"), 6)],
    );
    // 12. two conclusions: both get the premise value; one of them is also a seed with a larger /
    //     smaller own value (max), and feeds a further rule with the improved value
    let two = Rule { premise: vec![(v("x"), c("p"), v("y"))], conclusion: vec![(v("x"), c("q"), v("y")), (v("y"), c("r"), v("x"))] };
    let after = Rule { premise: vec![(v("x"), c("r"), v("y"))], conclusion: vec![(v("x"), c("s"), v("y"))] };
    expect(
        "two_conclusions",
        fixpoint(&[two.clone(), after.clone()], &[(f("a", "p", "b"), 4), (f("b", "r", "a"), 9), (f("c", "p", "d"), 6), (f("d", "r", "c"), 2)]),
        vec![
            (f("a", "p", "b"), 4),
            (f("b", "r", "a"), 9),
            (f("c", "p", "d"), 6),
            (f("d", "r", "c"), 6),
            (f("a", "q", "b"), 4),
            (f("c", "q", "d"), 6),
            (f("b", "s", "a"), 9),
            (f("d", "s", "c"), 6),
        ],
    );
    // 13. constants in premise and conclusion, and a fully ground premise
    let konst = Rule { premise: vec![(c("a"), c("p"), v("y"))], conclusion: vec![(v("y"), c("c1"), c("a"))] };
    let ground = Rule { premise: vec![(v("x"), c("p"), c("b")), (c("b"), c("p"), c("c"))], conclusion: vec![(v("x"), c("d1"), c("c"))] };
    expect(
        "constants_and_ground_premise",
        fixpoint(&[konst, ground], &[(f("a", "p", "b"), 3), (f("b", "p", "c"), 8), (f("c", "p", "a"), 5)]),
        vec![(f("a", "p", "b"), 3), (f("b", "p", "c"), 8), (f("c", "p", "a"), 5), (f("b", "c1", "a"), 3), (f("a", "d1", "c"), 3)],
    );
    // 14. repeated variable feeding a join on the derived self-loop
    let selfl = Rule { premise: vec![(v("x"), c("p"), v("x"))], conclusion: vec![(v("x"), c("l1"), v("x"))] };
    let onloop = Rule { premise: vec![(v("x"), c("q"), v("y")), (v("x"), c("l1"), v("x"))], conclusion: vec![(v("x"), c("n1"), v("y"))] };
    expect(
        "self_loop_join",
        fixpoint(&[selfl, onloop], &[(f("a", "p", "a"), 3), (f("a", "p", "b"), 9), (f("a", "q", "b"), 7), (f("b", "q", "a"), 7)]),
        vec![(f("a", "p", "a"), 3), (f("a", "p", "b"), 9), (f("a", "q", "b"), 7), (f("b", "q", "a"), 7), (f("a", "l1", "a"), 3), (f("a", "n1", "b"), 3)],
    );
    errs
}
