//! Truth-table probability of a Boolean lineage formula (reference for C08), and a tiny naive
//! Datalog fixpoint with possible-worlds summation for the end-to-end part. Never calls Kolibrie.
//!
//! Seed semantics (as documented in shared/src/hybrid.rs + shared/src/sdd.rs + seed_spec.rs):
//! * independent seed i: Bernoulli(p_i), all independent seeds mutually independent and independent
//!   of every group;
//! * exclusive group ("annotated disjunction", `SeedSpec::ExclusiveGroup`, compiled with an
//!   exactly-one constraint, positive weight p_i, negative weight 1): **exactly one** member of the
//!   group is true, member i with probability p_i. The generators only build groups whose member
//!   probabilities sum to 1 (adding an unreferenced filler member if needed), so the exactly-one and
//!   the at-most-one reading of an annotated disjunction coincide and the distribution is proper.
use std::collections::{BTreeMap, BTreeSet};

/// Boolean formula over seed indices.
#[derive(Clone, Debug, PartialEq, Eq, Hash, PartialOrd, Ord)]
pub enum Fm {
    T,
    F,
    Lit(u8),
    And(Vec<Fm>),
    Or(Vec<Fm>),
    Not(Box<Fm>),
}

impl Fm {
    pub fn eval(&self, world: u32) -> bool {
        match self {
            Fm::T => true,
            Fm::F => false,
            Fm::Lit(i) => world & (1u32 << *i) != 0,
            Fm::And(v) => v.iter().all(|f| f.eval(world)),
            Fm::Or(v) => v.iter().any(|f| f.eval(world)),
            Fm::Not(f) => !f.eval(world),
        }
    }
    pub fn seeds(&self, out: &mut BTreeSet<u8>) {
        match self {
            Fm::T | Fm::F => {}
            Fm::Lit(i) => {
                out.insert(*i);
            }
            Fm::And(v) | Fm::Or(v) => v.iter().for_each(|f| f.seeds(out)),
            Fm::Not(f) => f.seeds(out),
        }
    }
    pub fn has_not(&self) -> bool {
        match self {
            Fm::T | Fm::F | Fm::Lit(_) => false,
            Fm::And(v) | Fm::Or(v) => v.iter().any(|f| f.has_not()),
            Fm::Not(_) => true,
        }
    }
    /// compact text form: `T`, `F`, `s3`, `and(..)`, `or(..)`, `not(..)`
    pub fn text(&self) -> String {
        match self {
            Fm::T => "T".into(),
            Fm::F => "F".into(),
            Fm::Lit(i) => format!("s{}", i),
            Fm::And(v) => format!("and({})", v.iter().map(|f| f.text()).collect::<Vec<_>>().join(",")),
            Fm::Or(v) => format!("or({})", v.iter().map(|f| f.text()).collect::<Vec<_>>().join(",")),
            Fm::Not(f) => format!("not({})", f.text()),
        }
    }
    pub fn parse(s: &str) -> Option<Fm> {
        let b = s.as_bytes();
        let mut pos = 0usize;
        let f = parse_at(b, &mut pos)?;
        if pos == b.len() {
            Some(f)
        } else {
            None
        }
    }
}

fn parse_at(b: &[u8], pos: &mut usize) -> Option<Fm> {
    let rest = &b[*pos..];
    if rest.starts_with(b"and(") || rest.starts_with(b"or(") {
        let is_and = rest.starts_with(b"and(");
        *pos += if is_and { 4 } else { 3 };
        let mut items = Vec::new();
        loop {
            items.push(parse_at(b, pos)?);
            match b.get(*pos)? {
                b',' => *pos += 1,
                b')' => {
                    *pos += 1;
                    break;
                }
                _ => return None,
            }
        }
        Some(if is_and { Fm::And(items) } else { Fm::Or(items) })
    } else if rest.starts_with(b"not(") {
        *pos += 4;
        let f = parse_at(b, pos)?;
        if *b.get(*pos)? != b')' {
            return None;
        }
        *pos += 1;
        Some(Fm::Not(Box::new(f)))
    } else if rest.starts_with(b"T") {
        *pos += 1;
        Some(Fm::T)
    } else if rest.starts_with(b"F") {
        *pos += 1;
        Some(Fm::F)
    } else if rest.starts_with(b"s") {
        *pos += 1;
        let start = *pos;
        while *pos < b.len() && b[*pos].is_ascii_digit() {
            *pos += 1;
        }
        std::str::from_utf8(&b[start..*pos]).ok()?.parse::<u8>().ok().map(Fm::Lit)
    } else {
        None
    }
}

/// Probability model of the seeds: `probs[i]` for seed index i; `groups` lists the (pairwise
/// disjoint) exclusive groups as lists of seed indices; seeds in no group are independent.
/// Groups are mutually independent and independent of the independent seeds.
#[derive(Clone, Debug)]
pub struct SeedModel {
    pub probs: Vec<f64>,
    pub groups: Vec<Vec<usize>>,
}

impl SeedModel {
    /// one exclusive group (empty list = none), the rest independent
    pub fn one_group(probs: Vec<f64>, group: Vec<usize>) -> SeedModel {
        SeedModel { probs, groups: if group.is_empty() { vec![] } else { vec![group] } }
    }
    /// Enumerate all worlds (bitmask over seed indices, weight). Worlds of weight 0 are included.
    pub fn worlds(&self) -> Vec<(u32, f64)> {
        let n = self.probs.len();
        assert!(n <= 20);
        let indep: Vec<usize> = (0..n).filter(|i| !self.groups.iter().any(|g| g.contains(i))).collect();
        // one member per group: cartesian product of the groups
        let mut choices: Vec<(u32, f64)> = vec![(0u32, 1.0)];
        for g in self.groups.iter().filter(|g| !g.is_empty()) {
            let mut next = Vec::with_capacity(choices.len() * g.len());
            for (bits, w) in &choices {
                for m in g {
                    assert!(bits & (1u32 << *m) == 0, "exclusive groups must be disjoint");
                    next.push((bits | (1u32 << *m), w * self.probs[*m]));
                }
            }
            choices = next;
        }
        let mut out = Vec::with_capacity(choices.len() << indep.len());
        for (cbit, cw) in &choices {
            let (cbit, cw) = (*cbit, *cw);
            for m in 0..(1u32 << indep.len()) {
                let mut w = cw;
                let mut bits = cbit;
                for (k, i) in indep.iter().enumerate() {
                    if m & (1 << k) != 0 {
                        w *= self.probs[*i];
                        bits |= 1u32 << *i;
                    } else {
                        w *= 1.0 - self.probs[*i];
                    }
                }
                out.push((bits, w));
            }
        }
        out
    }
    pub fn prob(&self, f: &Fm) -> f64 {
        self.worlds().into_iter().filter(|(w, _)| f.eval(*w)).map(|(_, p)| p).sum()
    }
}

// ---------------------------------------------------------------------------------------------
// naive Datalog (positive rules over triples of strings) + possible worlds
// ---------------------------------------------------------------------------------------------

pub type Atom = (String, String, String);

/// A term of a rule pattern: variables start with '?'.
#[derive(Clone, Debug)]
pub struct NRule {
    pub body: Vec<Atom>,
    pub head: Vec<Atom>,
    /// negated body atoms (negation as failure). Only used for rules of the TOP stratum: the
    /// predicates of their heads occur in no rule body, and every variable of a negated atom is
    /// bound by the positive body (`top_stratum_negation_only` checks this)
    pub neg: Vec<Atom>,
}

/// the restriction under which `least_model` computes the stratified model: heads of rules with
/// negation feed no rule, negated atoms are range-restricted
pub fn top_stratum_negation_only(rules: &[NRule]) -> bool {
    for r in rules.iter().filter(|r| !r.neg.is_empty()) {
        for h in &r.head {
            if is_var(&h.1) {
                return false;
            }
            for r2 in rules {
                if r2.body.iter().chain(r2.neg.iter()).any(|a| is_var(&a.1) || a.1 == h.1) {
                    return false;
                }
            }
        }
        let bound: BTreeSet<&String> = r.body.iter().flat_map(|a| [&a.0, &a.1, &a.2]).filter(|t| is_var(t)).collect();
        if r.neg.iter().flat_map(|a| [&a.0, &a.1, &a.2]).any(|t| is_var(t) && !bound.contains(t)) {
            return false;
        }
    }
    true
}

fn is_var(t: &str) -> bool {
    t.starts_with('?')
}

fn unify(pat: &Atom, fact: &Atom, b: &BTreeMap<String, String>) -> Option<BTreeMap<String, String>> {
    let mut b = b.clone();
    for (p, f) in [(&pat.0, &fact.0), (&pat.1, &fact.1), (&pat.2, &fact.2)] {
        if is_var(p) {
            match b.get(p) {
                Some(v) if v != f => return None,
                Some(_) => {}
                None => {
                    b.insert(p.clone(), f.clone());
                }
            }
        } else if p != f {
            return None;
        }
    }
    Some(b)
}

fn subst(pat: &Atom, b: &BTreeMap<String, String>) -> Option<Atom> {
    let s = |t: &String| if is_var(t) { b.get(t).cloned() } else { Some(t.clone()) };
    Some((s(&pat.0)?, s(&pat.1)?, s(&pat.2)?))
}

/// all bindings of a rule body over a fact set
fn body_bindings(body: &[Atom], model: &BTreeSet<Atom>) -> Vec<BTreeMap<String, String>> {
    let mut bs: Vec<BTreeMap<String, String>> = vec![BTreeMap::new()];
    for pat in body {
        let mut next = Vec::new();
        for b in &bs {
            for f in model {
                if let Some(b2) = unify(pat, f, b) {
                    next.push(b2);
                }
            }
        }
        bs = next;
        if bs.is_empty() {
            break;
        }
    }
    bs
}

/// Least model of the positive rules over a fact set (naive iteration); then the rules with
/// negated atoms, evaluated once against that model (they form the top stratum, see
/// `top_stratum_negation_only`, so this is the stratified / perfect model).
pub fn least_model(rules: &[NRule], facts: &BTreeSet<Atom>) -> BTreeSet<Atom> {
    let mut model = facts.clone();
    loop {
        let mut added = Vec::new();
        for r in rules.iter().filter(|r| r.neg.is_empty()) {
            for b in &body_bindings(&r.body, &model) {
                for h in &r.head {
                    if let Some(a) = subst(h, b) {
                        if !model.contains(&a) {
                            added.push(a);
                        }
                    }
                }
            }
        }
        if added.is_empty() {
            break;
        }
        model.extend(added);
    }
    let mut top = Vec::new();
    for r in rules.iter().filter(|r| !r.neg.is_empty()) {
        for b in &body_bindings(&r.body, &model) {
            let blocked = r.neg.iter().any(|na| match subst(na, b) {
                Some(a) => model.contains(&a),
                None => true, // unbound variable in a negated atom: the rule cannot fire
            });
            if blocked {
                continue;
            }
            for h in &r.head {
                if let Some(a) = subst(h, b) {
                    top.push(a);
                }
            }
        }
    }
    model.extend(top);
    model
}

/// P(fact in least model) for every fact derivable in some world. `seed_facts[i]` is the triple
/// asserted by seed i (several seeds may assert the same triple).
pub fn world_probabilities(rules: &[NRule], certain: &BTreeSet<Atom>, seed_facts: &[Atom], seeds: &SeedModel) -> BTreeMap<Atom, f64> {
    let mut out: BTreeMap<Atom, f64> = BTreeMap::new();
    for (bits, w) in seeds.worlds() {
        let mut facts = certain.clone();
        for (i, a) in seed_facts.iter().enumerate() {
            if bits & (1u32 << i) != 0 {
                facts.insert(a.clone());
            }
        }
        for a in least_model(rules, &facts) {
            *out.entry(a).or_insert(0.0) += w;
        }
    }
    out
}

pub fn selftest() -> Vec<String> {
    let errs = std::cell::RefCell::new(Vec::new());
    let chk = |name: &str, got: f64, exp: f64| {
        if (got - exp).abs() > 1e-12 {
            errs.borrow_mut().push(format!("lineage_tt {}: got {}, expected {}", name, got, exp));
        }
    };
    let l = |i: u8| Fm::Lit(i);
    let ind = |p: &[f64]| SeedModel { probs: p.to_vec(), groups: vec![] };
    // (x&y)|(x&z), p = .8,.6,.5 -> .8*(1-.4*.5) = .64 ; negation .36
    let overlap = Fm::Or(vec![Fm::And(vec![l(0), l(1)]), Fm::And(vec![l(0), l(2)])]);
    chk("overlap", ind(&[0.8, 0.6, 0.5]).prob(&overlap), 0.64);
    chk("not overlap", ind(&[0.8, 0.6, 0.5]).prob(&Fm::Not(Box::new(overlap.clone()))), 0.36);
    // subsumption a | (a&b) = a
    chk("subsumed", ind(&[0.8, 0.5]).prob(&Fm::Or(vec![l(0), Fm::And(vec![l(0), l(1)])])), 0.8);
    // noisy-or .9,.8,.1 -> 1 - .1*.2*.9 = .982
    chk("noisy-or", ind(&[0.9, 0.8, 0.1]).prob(&Fm::Or(vec![l(0), l(1), l(2)])), 0.982);
    // and(or(a,b),or(a,c)) = a | (b&c): .5 + .5*.25 = .625
    chk("and-or-or", ind(&[0.5, 0.5, 0.5]).prob(&Fm::And(vec![Fm::Or(vec![l(0), l(1)]), Fm::Or(vec![l(0), l(2)])])), 0.625);
    // a & !b : .5*.8 = .4
    chk("a&!b", ind(&[0.5, 0.2]).prob(&Fm::And(vec![l(0), Fm::Not(Box::new(l(1)))])), 0.4);
    chk("T", ind(&[0.3]).prob(&Fm::T), 1.0);
    chk("F", ind(&[0.3]).prob(&Fm::F), 0.0);
    // exclusive group {0,1,2} with .2,.3,.5 (the repository's own fixture): P(s0) = .2
    let g3 = SeedModel::one_group(vec![0.2, 0.3, 0.5], vec![0, 1, 2]);
    chk("excl literal", g3.prob(&l(0)), 0.2);
    chk("excl or", g3.prob(&Fm::Or(vec![l(0), l(1)])), 0.5);
    chk("excl and", g3.prob(&Fm::And(vec![l(0), l(1)])), 0.0);
    chk("excl not", g3.prob(&Fm::Not(Box::new(l(0)))), 0.8);
    chk("excl total", g3.prob(&Fm::T), 1.0);
    // group {0,1} (.5,.5) + independent 2 (.5): (s0&s2)|s1 = .25+.5
    let g2 = SeedModel::one_group(vec![0.5, 0.5, 0.5], vec![0, 1]);
    chk("excl mixed", g2.prob(&Fm::Or(vec![Fm::And(vec![l(0), l(2)]), l(1)])), 0.75);
    // two groups {0,1} (.2,.8) and {2,3} (.5,.5), independent of each other
    let gg = SeedModel { probs: vec![0.2, 0.8, 0.5, 0.5], groups: vec![vec![0, 1], vec![2, 3]] };
    chk("2 groups total", gg.prob(&Fm::T), 1.0);
    chk("2 groups worlds", gg.worlds().len() as f64, 4.0);
    chk("2 groups s0&s2", gg.prob(&Fm::And(vec![l(0), l(2)])), 0.1);
    chk("2 groups s0|s2", gg.prob(&Fm::Or(vec![l(0), l(2)])), 0.6);
    chk("2 groups s0&s1", gg.prob(&Fm::And(vec![l(0), l(1)])), 0.0);
    chk("2 groups !s0&s3", gg.prob(&Fm::And(vec![Fm::Not(Box::new(l(0))), l(3)])), 0.4);
    chk("2 groups (s0&s2)|(s1&s3)", gg.prob(&Fm::Or(vec![Fm::And(vec![l(0), l(2)]), Fm::And(vec![l(1), l(3)])])), 0.5);
    // group {0,1,2} (.2,.3,.5) + group {3,4} (.5,.5) + independent 5 (.5): (s0|s1)&s3&s5 = .5*.5*.5
    let g32 = SeedModel { probs: vec![0.2, 0.3, 0.5, 0.5, 0.5, 0.5], groups: vec![vec![0, 1, 2], vec![3, 4]] };
    chk("groups 3+2", g32.prob(&Fm::And(vec![Fm::Or(vec![l(0), l(1)]), l(3), l(5)])), 0.125);
    chk("groups 3+2 worlds", g32.worlds().len() as f64, 12.0);
    // text round trip
    for f in [overlap.clone(), Fm::Not(Box::new(Fm::And(vec![l(10), Fm::T, Fm::F]))), l(3)] {
        if Fm::parse(&f.text()).as_ref() != Some(&f) {
            errs.borrow_mut().push(format!("lineage_tt: text round trip failed for {}", f.text()));
        }
    }
    if Fm::parse("and(s1,").is_some() || Fm::parse("s1)").is_some() {
        errs.borrow_mut().push("lineage_tt: parser accepts garbage".into());
    }
    // naive datalog: q(x,z) :- p(x,y), p(y,z) with p(a,b)@0 (.5), p(b,c)@1 (.2), plus certain p(a,c) and
    // r(x) :- q(x,y): q(a,c) = s0&s1 -> .1, r(a) -> .1 ; second proof via certain p(c,c): q(a,c) <- p(a,c),p(c,c)
    let a = |s: &str, p: &str, o: &str| (s.to_string(), p.to_string(), o.to_string());
    let rules = vec![
        NRule { body: vec![a("?x", "p", "?y"), a("?y", "p", "?z")], head: vec![a("?x", "q", "?z")], neg: vec![] },
        NRule { body: vec![a("?x", "q", "?y")], head: vec![a("?x", "r", "R")], neg: vec![] },
    ];
    let certain: BTreeSet<Atom> = [a("a", "p", "d")].into_iter().collect();
    let seed_facts = vec![a("a", "p", "b"), a("b", "p", "c"), a("d", "p", "c")];
    let wp = world_probabilities(&rules, &certain, &seed_facts, &ind(&[0.5, 0.2, 0.5]));
    // q(a,c) = (s0&s1) | s2 = 1 - (1-.1)(1-.5) = .55
    chk("datalog q(a,c)", *wp.get(&a("a", "q", "c")).unwrap_or(&-1.0), 0.55);
    chk("datalog r(a)", *wp.get(&a("a", "r", "R")).unwrap_or(&-1.0), 0.55);
    chk("datalog certain", *wp.get(&a("a", "p", "d")).unwrap_or(&-1.0), 1.0);
    if wp.contains_key(&a("c", "q", "a")) {
        errs.borrow_mut().push("lineage_tt: datalog derived a non-consequence".into());
    }
    // top-stratum negation: alarm(x) :- temp(x,high), not maint(x,yes); q(x,y) :- p(x,y) ; only(x) :- r(x,y), not q(x,y)
    let nrules = vec![
        NRule { body: vec![a("?x", "temp", "high")], head: vec![a("?x", "alarm", "A")], neg: vec![a("?x", "maint", "yes")] },
        NRule { body: vec![a("?x", "p", "?y")], head: vec![a("?x", "q", "?y")], neg: vec![] },
        NRule { body: vec![a("?x", "r", "?y")], head: vec![a("?x", "only", "O")], neg: vec![a("?x", "q", "?y")] },
    ];
    if !top_stratum_negation_only(&nrules) {
        errs.borrow_mut().push("lineage_tt: top_stratum_negation_only rejects a top-stratum program".into());
    }
    let bad = vec![nrules[0].clone(), NRule { body: vec![a("?x", "alarm", "?y")], head: vec![a("?x", "z", "Z")], neg: vec![] }];
    if top_stratum_negation_only(&bad) {
        errs.borrow_mut().push("lineage_tt: top_stratum_negation_only accepts a rule above a negated rule".into());
    }
    // seeds: s1 temp high (.5), s1 maint yes (.2), s2 temp high (.9), a p b (.5), a r b (.5), a r c (.2)
    let nseeds = vec![a("s1", "temp", "high"), a("s1", "maint", "yes"), a("s2", "temp", "high"), a("a", "p", "b"), a("a", "r", "b"), a("a", "r", "c")];
    let nwp = world_probabilities(&nrules, &BTreeSet::new(), &nseeds, &ind(&[0.5, 0.2, 0.9, 0.5, 0.5, 0.2]));
    chk("neg alarm(s1) = .5*.8", *nwp.get(&a("s1", "alarm", "A")).unwrap_or(&-1.0), 0.4);
    chk("neg alarm(s2) = .9", *nwp.get(&a("s2", "alarm", "A")).unwrap_or(&-1.0), 0.9);
    // only(a) = (r(a,b) & !p(a,b)) | r(a,c) = 1 - (1 - .25)(1 - .2) = .4
    chk("neg only(a) = .4", *nwp.get(&a("a", "only", "O")).unwrap_or(&-1.0), 0.4);
    errs.into_inner()
}
