//! Truth-table probability of a Boolean lineage formula (reference for C08), and a tiny naive
//! Datalog fixpoint with possible-worlds summation for the end-to-end part. Never calls Kolibrie.
//!
//! Seed semantics (as documented in shared/src/hybrid.rs + shared/src/sdd.rs + seed_spec.rs):
//! * independent seed i: Bernoulli(p_i), all independent seeds mutually independent and independent
//!   of every group;
//! * exclusive group ("annotated disjunction", `SeedSpec::ExclusiveGroup`, compiled with an
//!   exactly-one constraint, positive weight p_i, negative weight 1): **exactly one** member of the
//!   group is true, member i with probability p_i. The generators only build groups whose member
//!   probabilities sum to 1 (adding an unreferenced filler member if needed), so the exactly-one and
//!   the at-most-one reading of an annotated disjunction coincide and the distribution is proper.
use std::collections::{BTreeMap, BTreeSet};

/// Boolean formula over seed indices.
#[derive(Clone, Debug, PartialEq, Eq, Hash, PartialOrd, Ord)]
pub enum Fm {
    T,
    F,
    Lit(u8),
    And(Vec<Fm>),
    Or(Vec<Fm>),
    Not(Box<Fm>),
}

impl Fm {
    pub fn eval(&self, world: u32) -> bool {
        match self {
            Fm::T => true,
            Fm::F => false,
            Fm::Lit(i) => world & (1u32 << *i) != 0,
            Fm::And(v) => v.iter().all(|f| f.eval(world)),
            Fm::Or(v) => v.iter().any(|f| f.eval(world)),
            Fm::Not(f) => !f.eval(world),
        }
    }
    pub fn seeds(&self, out: &mut BTreeSet<u8>) {
        match self {
            Fm::T | Fm::F => {}
            Fm::Lit(i) => {
                out.insert(*i);
            }
            Fm::And(v) | Fm::Or(v) => v.iter().for_each(|f| f.seeds(out)),
            Fm::Not(f) => f.seeds(out),
        }
    }
    pub fn has_not(&self) -> bool {
        match self {
            Fm::T | Fm::F | Fm::Lit(_) => false,
            Fm::And(v) | Fm::Or(v) => v.iter().any(|f| f.has_not()),
            Fm::Not(_) => true,
        }
    }
    /// compact text form: `T`, `F`, `s3`, `and(..)`, `or(..)`, `not(..)`
    pub fn text(&self) -> String {
        match self {
            Fm::T => "T".into(),
            Fm::F => "F".into(),
            Fm::Lit(i) => format!("s{}", i),
            Fm::And(v) => format!("and({})", v.iter().map(|f| f.text()).collect::<Vec<_>>().join(",")),
            Fm::Or(v) => format!("or({})", v.iter().map(|f| f.text()).collect::<Vec<_>>().join(",")),
            Fm::Not(f) => format!("not({})", f.text()),
        }
    }
    pub fn parse(s: &str) -> Option<Fm> {
        let b = s.as_bytes();
        let mut pos = 0usize;
        let f = parse_at(b, &mut pos)?;
        if pos == b.len() {
            Some(f)
        } else {
            None
        }
    }
}

fn parse_at(b: &[u8], pos: &mut usize) -> Option<Fm> {
    let rest = &b[*pos..];
    if rest.starts_with(b"and(") || rest.starts_with(b"or(") {
        let is_and = rest.starts_with(b"and(");
        *pos += if is_and { 4 } else { 3 };
        let mut items = Vec::new();
        loop {
            items.push(parse_at(b, pos)?);
            match b.get(*pos)? {
                b',' => *pos += 1,
                b')' => {
                    *pos += 1;
                    break;
                }
                _ => return None,
            }
        }
        Some(if is_and { Fm::And(items) } else { Fm::Or(items) })
    } else if rest.starts_with(b"not(") {
        *pos += 4;
        let f = parse_at(b, pos)?;
        if *b.get(*pos)? != b')' {
            return None;
        }
        *pos += 1;
        Some(Fm::Not(Box::new(f)))
    } else if rest.starts_with(b"T") {
        *pos += 1;
        Some(Fm::T)
    } else if rest.starts_with(b"F") {
        *pos += 1;
        Some(Fm::F)
    } else if rest.starts_with(b"s") {
        *pos += 1;
        let start = *pos;
        while *pos < b.len() && b[*pos].is_ascii_digit() {
            *pos += 1;
        }
        std::str::from_utf8(&b[start..*pos]).ok()?.parse::<u8>().ok().map(Fm::Lit)
    } else {
        None
    }
}

/// Probability model of the seeds: `probs[i]` for seed index i; `group` lists the seed indices
/// forming the (single) exclusive group, empty = all independent.
#[derive(Clone, Debug)]
pub struct SeedModel {
    pub probs: Vec<f64>,
    pub group: Vec<usize>,
}

impl SeedModel {
    /// Enumerate all worlds (bitmask over seed indices, weight). Worlds of weight 0 are included.
    pub fn worlds(&self) -> Vec<(u32, f64)> {
        let n = self.probs.len();
        assert!(n <= 20);
        let indep: Vec<usize> = (0..n).filter(|i| !self.group.contains(i)).collect();
        let choices: Vec<Option<usize>> = if self.group.is_empty() { vec![None] } else { self.group.iter().map(|g| Some(*g)).collect() };
        let mut out = Vec::with_capacity(choices.len() << indep.len());
        for c in &choices {
            let (cbit, cw) = match c {
                None => (0u32, 1.0),
                Some(g) => (1u32 << *g, self.probs[*g]),
            };
            for m in 0..(1u32 << indep.len()) {
                let mut w = cw;
                let mut bits = cbit;
                for (k, i) in indep.iter().enumerate() {
                    if m & (1 << k) != 0 {
                        w *= self.probs[*i];
                        bits |= 1u32 << *i;
                    } else {
                        w *= 1.0 - self.probs[*i];
                    }
                }
                out.push((bits, w));
            }
        }
        out
    }
    pub fn prob(&self, f: &Fm) -> f64 {
        self.worlds().into_iter().filter(|(w, _)| f.eval(*w)).map(|(_, p)| p).sum()
    }
}

// ---------------------------------------------------------------------------------------------
// naive Datalog (positive rules over triples of strings) + possible worlds
// ---------------------------------------------------------------------------------------------

pub type Atom = (String, String, String);

/// A term of a rule pattern: variables start with '?'.
#[derive(Clone, Debug)]
pub struct NRule {
    pub body: Vec<Atom>,
    pub head: Vec<Atom>,
}

fn is_var(t: &str) -> bool {
    t.starts_with('?')
}

fn unify(pat: &Atom, fact: &Atom, b: &BTreeMap<String, String>) -> Option<BTreeMap<String, String>> {
    let mut b = b.clone();
    for (p, f) in [(&pat.0, &fact.0), (&pat.1, &fact.1), (&pat.2, &fact.2)] {
        if is_var(p) {
            match b.get(p) {
                Some(v) if v != f => return None,
                Some(_) => {}
                None => {
                    b.insert(p.clone(), f.clone());
                }
            }
        } else if p != f {
            return None;
        }
    }
    Some(b)
}

fn subst(pat: &Atom, b: &BTreeMap<String, String>) -> Option<Atom> {
    let s = |t: &String| if is_var(t) { b.get(t).cloned() } else { Some(t.clone()) };
    Some((s(&pat.0)?, s(&pat.1)?, s(&pat.2)?))
}

/// least model of positive rules over a fact set (naive iteration)
pub fn least_model(rules: &[NRule], facts: &BTreeSet<Atom>) -> BTreeSet<Atom> {
    let mut model = facts.clone();
    loop {
        let mut added = Vec::new();
        for r in rules {
            let mut bs: Vec<BTreeMap<String, String>> = vec![BTreeMap::new()];
            for pat in &r.body {
                let mut next = Vec::new();
                for b in &bs {
                    for f in &model {
                        if let Some(b2) = unify(pat, f, b) {
                            next.push(b2);
                        }
                    }
                }
                bs = next;
                if bs.is_empty() {
                    break;
                }
            }
            for b in &bs {
                for h in &r.head {
                    if let Some(a) = subst(h, b) {
                        if !model.contains(&a) {
                            added.push(a);
                        }
                    }
                }
            }
        }
        if added.is_empty() {
            return model;
        }
        model.extend(added);
    }
}

/// P(fact in least model) for every fact derivable in some world. `seed_facts[i]` is the triple
/// asserted by seed i (several seeds may assert the same triple).
pub fn world_probabilities(rules: &[NRule], certain: &BTreeSet<Atom>, seed_facts: &[Atom], seeds: &SeedModel) -> BTreeMap<Atom, f64> {
    let mut out: BTreeMap<Atom, f64> = BTreeMap::new();
    for (bits, w) in seeds.worlds() {
        let mut facts = certain.clone();
        for (i, a) in seed_facts.iter().enumerate() {
            if bits & (1u32 << i) != 0 {
                facts.insert(a.clone());
            }
        }
        for a in least_model(rules, &facts) {
            *out.entry(a).or_insert(0.0) += w;
        }
    }
    out
}

pub fn selftest() -> Vec<String> {
    let errs = std::cell::RefCell::new(Vec::new());
    let chk = |name: &str, got: f64, exp: f64| {
        if (got - exp).abs() > 1e-12 {
            errs.borrow_mut().push(format!("lineage_tt {}: got {}, expected {}", name, got, exp));
        }
    };
    let l = |i: u8| Fm::Lit(i);
    let ind = |p: &[f64]| SeedModel { probs: p.to_vec(), group: vec![] };
    // (x&y)|(x&z), p = .8,.6,.5 -> .8*(1-.4*.5) = .64 ; negation .36
    let overlap = Fm::Or(vec![Fm::And(vec![l(0), l(1)]), Fm::And(vec![l(0), l(2)])]);
    chk("overlap", ind(&[0.8, 0.6, 0.5]).prob(&overlap), 0.64);
    chk("not overlap", ind(&[0.8, 0.6, 0.5]).prob(&Fm::Not(Box::new(overlap.clone()))), 0.36);
    // subsumption a | (a&b) = a
    chk("subsumed", ind(&[0.8, 0.5]).prob(&Fm::Or(vec![l(0), Fm::And(vec![l(0), l(1)])])), 0.8);
    // noisy-or .9,.8,.1 -> 1 - .1*.2*.9 = .982
    chk("noisy-or", ind(&[0.9, 0.8, 0.1]).prob(&Fm::Or(vec![l(0), l(1), l(2)])), 0.982);
    // and(or(a,b),or(a,c)) = a | (b&c): .5 + .5*.25 = .625
    chk("and-or-or", ind(&[0.5, 0.5, 0.5]).prob(&Fm::And(vec![Fm::Or(vec![l(0), l(1)]), Fm::Or(vec![l(0), l(2)])])), 0.625);
    // a & !b : .5*.8 = .4
    chk("a&!b", ind(&[0.5, 0.2]).prob(&Fm::And(vec![l(0), Fm::Not(Box::new(l(1)))])), 0.4);
    chk("T", ind(&[0.3]).prob(&Fm::T), 1.0);
    chk("F", ind(&[0.3]).prob(&Fm::F), 0.0);
    // exclusive group {0,1,2} with .2,.3,.5 (the repository's own fixture): P(s0) = .2
    let g3 = SeedModel { probs: vec![0.2, 0.3, 0.5], group: vec![0, 1, 2] };
    chk("excl literal", g3.prob(&l(0)), 0.2);
    chk("excl or", g3.prob(&Fm::Or(vec![l(0), l(1)])), 0.5);
    chk("excl and", g3.prob(&Fm::And(vec![l(0), l(1)])), 0.0);
    chk("excl not", g3.prob(&Fm::Not(Box::new(l(0)))), 0.8);
    chk("excl total", g3.prob(&Fm::T), 1.0);
    // group {0,1} (.5,.5) + independent 2 (.5): (s0&s2)|s1 = .25+.5
    let g2 = SeedModel { probs: vec![0.5, 0.5, 0.5], group: vec![0, 1] };
    chk("excl mixed", g2.prob(&Fm::Or(vec![Fm::And(vec![l(0), l(2)]), l(1)])), 0.75);
    // text round trip
    for f in [overlap.clone(), Fm::Not(Box::new(Fm::And(vec![l(10), Fm::T, Fm::F]))), l(3)] {
        if Fm::parse(&f.text()).as_ref() != Some(&f) {
            errs.borrow_mut().push(format!("lineage_tt: text round trip failed for {}", f.text()));
        }
    }
    if Fm::parse("and(s1,").is_some() || Fm::parse("s1)").is_some() {
        errs.borrow_mut().push("lineage_tt: parser accepts garbage".into());
    }
    // naive datalog: q(x,z) :- p(x,y), p(y,z) with p(a,b)@0 (.5), p(b,c)@1 (.2), plus certain p(a,c) and
    // r(x) :- q(x,y): q(a,c) = s0&s1 -> .1, r(a) -> .1 ; second proof via certain p(c,c): q(a,c) <- p(a,c),p(c,c)
    let a = |s: &str, p: &str, o: &str| (s.to_string(), p.to_string(), o.to_string());
    let rules = vec![
        NRule { body: vec![a("?x", "p", "?y"), a("?y", "p", "?z")], head: vec![a("?x", "q", "?z")] },
        NRule { body: vec![a("?x", "q", "?y")], head: vec![a("?x", "r", "R")] },
    ];
    let certain: BTreeSet<Atom> = [a("a", "p", "d")].into_iter().collect();
    let seed_facts = vec![a("a", "p", "b"), a("b", "p", "c"), a("d", "p", "c")];
    let wp = world_probabilities(&rules, &certain, &seed_facts, &ind(&[0.5, 0.2, 0.5]));
    // q(a,c) = (s0&s1) | s2 = 1 - (1-.1)(1-.5) = .55
    chk("datalog q(a,c)", *wp.get(&a("a", "q", "c")).unwrap_or(&-1.0), 0.55);
    chk("datalog r(a)", *wp.get(&a("a", "r", "R")).unwrap_or(&-1.0), 0.55);
    chk("datalog certain", *wp.get(&a("a", "p", "d")).unwrap_or(&-1.0), 1.0);
    if wp.contains_key(&a("c", "q", "a")) {
        errs.borrow_mut().push("lineage_tt: datalog derived a non-consequence".into());
    }
    errs.into_inner()
}
