//! R-sparql, part 2: direct implementation of the SPARQL 1.1 algebra for the supported fragment
//! over an abstract dataset. Never calls Kolibrie code.
//!
//! Value model (the one Kolibrie documents): a term is its bare lexical form; `=`/`!=` are term
//! equality on lexical forms; `<,<=,>,>=` are defined between numeric lexical forms only
//! (anything else is a type error, which removes the solution); aggregates are numeric.
use super::sparql_ast::*;
use std::collections::{BTreeMap, BTreeSet};

pub type Triple3 = (String, String, String);

#[derive(Clone, Default, PartialEq, Eq, Debug, Hash, PartialOrd, Ord)]
pub struct Dataset {
    pub default: BTreeSet<Triple3>,
    /// named graphs, including empty ones
    pub named: BTreeMap<String, BTreeSet<Triple3>>,
}

impl Dataset {
    pub fn quad_count(&self) -> usize {
        self.default.len() + self.named.values().map(|g| g.len()).sum::<usize>()
    }
    /// all quads as (s,p,o,graph-or-empty-string)
    pub fn quads(&self) -> BTreeSet<(String, String, String, String)> {
        let mut out = BTreeSet::new();
        for (s, p, o) in &self.default {
            out.insert((s.clone(), p.clone(), o.clone(), String::new()));
        }
        for (g, ts) in &self.named {
            for (s, p, o) in ts {
                out.insert((s.clone(), p.clone(), o.clone(), g.clone()));
            }
        }
        out
    }
}

pub type Mu = BTreeMap<String, String>;

/// The query dataset (after FROM / FROM NAMED processing).
pub struct View {
    pub default: BTreeSet<Triple3>,
    pub named: BTreeMap<String, BTreeSet<Triple3>>,
}

impl View {
    pub fn of(ds: &Dataset, from: &[String], from_named: &[String]) -> View {
        if from.is_empty() && from_named.is_empty() {
            return View { default: ds.default.clone(), named: ds.named.clone() };
        }
        let mut default = BTreeSet::new();
        for g in from {
            if let Some(ts) = ds.named.get(g) {
                default.extend(ts.iter().cloned()); // RDF merge: a set
            }
        }
        let mut named = BTreeMap::new();
        for g in from_named {
            if let Some(ts) = ds.named.get(g) {
                named.insert(g.clone(), ts.clone());
            }
        }
        View { default, named }
    }
}

fn compatible_merge(a: &Mu, b: &Mu) -> Option<Mu> {
    for (k, v) in b {
        if let Some(x) = a.get(k) {
            if x != v {
                return None;
            }
        }
    }
    let mut m = a.clone();
    for (k, v) in b {
        m.insert(k.clone(), v.clone());
    }
    Some(m)
}

fn join(a: &[Mu], b: &[Mu]) -> Vec<Mu> {
    let mut out = Vec::new();
    for x in a {
        for y in b {
            if let Some(m) = compatible_merge(x, y) {
                out.push(m);
            }
        }
    }
    out
}

fn match_term(t: &T, value: &str, mu: &mut Mu) -> bool {
    match t {
        T::Var(n) => match mu.get(n) {
            Some(v) => v == value,
            None => {
                mu.insert(n.clone(), value.to_string());
                true
            }
        },
        other => other.lexical() == value,
    }
}

fn eval_bgp(ts: &[TP], graph: &BTreeSet<Triple3>) -> Vec<Mu> {
    let mut cur = vec![Mu::new()];
    for t in ts {
        let mut next = Vec::new();
        for mu in &cur {
            for (s, p, o) in graph {
                let mut m = mu.clone();
                if match_term(&t.s, s, &mut m) && match_term(&t.p, p, &mut m) && match_term(&t.o, o, &mut m) {
                    next.push(m);
                }
            }
        }
        cur = next;
    }
    cur
}

#[derive(Clone, Copy, PartialEq, Eq, Debug)]
enum Tv {
    True,
    False,
    Err,
}

fn value_of(t: &T, mu: &Mu) -> Option<String> {
    match t {
        T::Var(n) => mu.get(n).cloned(),
        other => Some(other.lexical()),
    }
}

/// numeric value of an arithmetic expression; None = type error / unbound / division by zero
fn eval_arith(a: &Arith, mu: &Mu) -> Option<f64> {
    match a {
        Arith::Operand(t) => value_of(t, mu)?.parse::<f64>().ok(),
        Arith::Add(x, y) => Some(eval_arith(x, mu)? + eval_arith(y, mu)?),
        Arith::Sub(x, y) => Some(eval_arith(x, mu)? - eval_arith(y, mu)?),
        Arith::Mul(x, y) => Some(eval_arith(x, mu)? * eval_arith(y, mu)?),
        Arith::Div(x, y) => {
            let d = eval_arith(y, mu)?;
            if d == 0.0 {
                None
            } else {
                Some(eval_arith(x, mu)? / d)
            }
        }
    }
}

fn eval_expr(e: &Expr, mu: &Mu) -> Tv {
    match e {
        Expr::Cmp(a, op, b) => {
            let (Some(x), Some(y)) = (value_of(a, mu), value_of(b, mu)) else {
                return Tv::Err;
            };
            let r = match op {
                Cmp::Eq => x == y,
                Cmp::Ne => x != y,
                _ => {
                    let (Ok(fx), Ok(fy)) = (x.parse::<f64>(), y.parse::<f64>()) else {
                        return Tv::Err;
                    };
                    match op {
                        Cmp::Lt => fx < fy,
                        Cmp::Le => fx <= fy,
                        Cmp::Gt => fx > fy,
                        Cmp::Ge => fx >= fy,
                        _ => unreachable!(),
                    }
                }
            };
            if r {
                Tv::True
            } else {
                Tv::False
            }
        }
        Expr::ArithCmp(a, op, b) => {
            let (Some(x), Some(y)) = (eval_arith(a, mu), eval_arith(b, mu)) else {
                return Tv::Err;
            };
            let r = match op {
                Cmp::Eq => x == y,
                Cmp::Ne => x != y,
                Cmp::Lt => x < y,
                Cmp::Le => x <= y,
                Cmp::Gt => x > y,
                Cmp::Ge => x >= y,
            };
            if r {
                Tv::True
            } else {
                Tv::False
            }
        }
        Expr::And(a, b) => match (eval_expr(a, mu), eval_expr(b, mu)) {
            (Tv::False, _) | (_, Tv::False) => Tv::False,
            (Tv::True, Tv::True) => Tv::True,
            _ => Tv::Err,
        },
        Expr::Or(a, b) => match (eval_expr(a, mu), eval_expr(b, mu)) {
            (Tv::True, _) | (_, Tv::True) => Tv::True,
            (Tv::False, Tv::False) => Tv::False,
            _ => Tv::Err,
        },
        Expr::Not(a) => match eval_expr(a, mu) {
            Tv::True => Tv::False,
            Tv::False => Tv::True,
            Tv::Err => Tv::Err,
        },
    }
}

/// Evaluate a group graph pattern (SPARQL 1.1 §18.2.2.6 translation, §18.5 evaluation).
pub fn eval_group(g: &Group, view: &View, active: Option<&str>) -> Result<Vec<Mu>, String> {
    let mut cur = vec![Mu::new()];
    let mut filters = Vec::new();
    let empty = BTreeSet::new();
    for e in &g.0 {
        match e {
            Elem::Filter(x) => filters.push(x),
            Elem::Bind(args, out) => {
                for mu in cur.iter_mut() {
                    if mu.contains_key(out) {
                        return Err(format!("BIND target ?{} already in scope", out));
                    }
                    let mut val = Some(String::new());
                    for a in args {
                        match value_of(a, mu) {
                            Some(v) => {
                                if let Some(s) = val.as_mut() {
                                    s.push_str(&v)
                                }
                            }
                            None => val = None,
                        }
                    }
                    if let Some(v) = val {
                        mu.insert(out.clone(), v);
                    }
                }
            }
            Elem::Triples(ts) => {
                let graph = match active {
                    None => &view.default,
                    Some(name) => view.named.get(name).unwrap_or(&empty),
                };
                let r = eval_bgp(ts, graph);
                cur = join(&cur, &r);
            }
            Elem::Graph(gt, inner) => {
                let r = match gt {
                    T::Iri(name) => {
                        if view.named.contains_key(name) {
                            eval_group(inner, view, Some(name))?
                        } else {
                            Vec::new()
                        }
                    }
                    T::Var(v) => {
                        let mut all = Vec::new();
                        for name in view.named.keys() {
                            let r = eval_group(inner, view, Some(name))?;
                            let mut gm = Mu::new();
                            gm.insert(v.clone(), name.clone());
                            all.extend(join(&r, &[gm]));
                        }
                        all
                    }
                    other => return Err(format!("bad graph term {:?}", other)),
                };
                cur = join(&cur, &r);
            }
            Elem::Union(bs) => {
                let mut all = Vec::new();
                for b in bs {
                    all.extend(eval_group(b, view, active)?);
                }
                cur = join(&cur, &all);
            }
            Elem::Nested(inner) => {
                let r = eval_group(inner, view, active)?;
                cur = join(&cur, &r);
            }
            Elem::Values(vars, rows) => {
                let data: Vec<Mu> = rows
                    .iter()
                    .map(|r| {
                        let mut m = Mu::new();
                        for (v, c) in vars.iter().zip(r.iter()) {
                            if let Some(t) = c {
                                m.insert(v.clone(), t.lexical());
                            }
                        }
                        m
                    })
                    .collect();
                cur = join(&cur, &data);
            }
            Elem::Sub(s) => {
                let ans = eval_select_in(s, view, active)?;
                if s.limit.map_or(false, |l| l > 0) {
                    // a LIMIT cut is only deterministic when ties are identical rows
                    let cols = &ans.columns;
                    let keys: BTreeSet<&String> = s.order_by.iter().map(|(v, _)| v).collect();
                    if !cols.iter().all(|c| keys.contains(c)) {
                        return Err("sub-select LIMIT without a total order over its projection is nondeterministic".into());
                    }
                }
                let rows = ans.cut_rows();
                let data: Vec<Mu> = rows
                    .iter()
                    .map(|r| {
                        let mut m = Mu::new();
                        for (c, v) in ans.columns.iter().zip(r.iter()) {
                            if let Some(v) = v {
                                m.insert(c.clone(), v.clone());
                            }
                        }
                        m
                    })
                    .collect();
                cur = join(&cur, &data);
            }
        }
    }
    cur.retain(|mu| filters.iter().all(|f| eval_expr(f, mu) == Tv::True));
    Ok(cur)
}

/// Full answer of a SELECT before LIMIT, plus what is needed to judge order and cut.
#[derive(Clone, Debug)]
pub struct Answer {
    pub columns: Vec<String>,
    /// rows after grouping/aggregation, projection and DISTINCT; None = unbound
    pub rows: Vec<Vec<Option<String>>>,
    /// columns holding aggregate results (compared numerically)
    pub numeric: Vec<bool>,
    /// (column index, descending) for ORDER BY keys that are projected
    pub order: Vec<(usize, bool)>,
    /// ORDER BY mentions a variable that is not projected (sortedness not observable)
    pub order_unobservable: bool,
    pub limit: Option<usize>,
    pub star: bool,
}

pub fn cmp_values(a: &Option<String>, b: &Option<String>) -> std::cmp::Ordering {
    use std::cmp::Ordering::*;
    match (a, b) {
        (None, None) => Equal,
        (None, Some(_)) => Less,
        (Some(_), None) => Greater,
        (Some(x), Some(y)) => match (x.parse::<f64>(), y.parse::<f64>()) {
            (Ok(fx), Ok(fy)) => fx.partial_cmp(&fy).unwrap_or(Equal),
            _ => x.cmp(y),
        },
    }
}

impl Answer {
    pub fn key_cmp(&self, a: &[Option<String>], b: &[Option<String>]) -> std::cmp::Ordering {
        for (i, desc) in &self.order {
            let c = cmp_values(&a[*i], &b[*i]);
            let c = if *desc { c.reverse() } else { c };
            if c != std::cmp::Ordering::Equal {
                return c;
            }
        }
        std::cmp::Ordering::Equal
    }
    /// deterministic cut used for sub-selects (caller guarantees ties are identical rows)
    pub fn cut_rows(&self) -> Vec<Vec<Option<String>>> {
        let mut rows = self.rows.clone();
        if !self.order.is_empty() {
            rows.sort_by(|a, b| self.key_cmp(a, b));
        }
        if let Some(l) = self.limit {
            rows.truncate(l);
        }
        rows
    }
}

fn num(v: &str) -> Option<f64> {
    v.parse::<f64>().ok()
}

fn fmt_num(f: f64) -> String {
    let f = if f == 0.0 { 0.0 } else { f };
    format!("{}", f)
}

pub fn eval_select(s: &Select, ds: &Dataset) -> Result<Answer, String> {
    let view = View::of(ds, &s.from, &s.from_named);
    eval_select_in(s, &view, None)
}

fn eval_select_in(s: &Select, view: &View, active: Option<&str>) -> Result<Answer, String> {
    let sols = eval_group(&s.pattern, view, active)?;
    let columns = s.columns();
    let mut numeric = vec![false; columns.len()];
    // extended solutions (after aggregation)
    let ext: Vec<Mu> = if s.has_aggregate() || !s.group_by.is_empty() {
        let mut groups: BTreeMap<Vec<Option<String>>, Vec<Mu>> = BTreeMap::new();
        for mu in sols {
            let key: Vec<Option<String>> = s.group_by.iter().map(|v| mu.get(v).cloned()).collect();
            groups.entry(key).or_default().push(mu);
        }
        if groups.is_empty() && s.group_by.is_empty() {
            groups.insert(vec![], vec![]);
        }
        let items = match &s.proj {
            Proj::Items(i) => i.clone(),
            Proj::Star => return Err("SELECT * with GROUP BY is not generated".into()),
        };
        let mut out = Vec::new();
        for (key, members) in groups {
            let mut row = Mu::new();
            for (v, k) in s.group_by.iter().zip(key.iter()) {
                if let Some(k) = k {
                    row.insert(v.clone(), k.clone());
                }
            }
            for (ci, item) in items.iter().enumerate() {
                match item {
                    ProjItem::Var(v) => {
                        if !s.group_by.contains(v) {
                            return Err(format!("projected ?{} is neither grouped nor aggregated", v));
                        }
                    }
                    ProjItem::Agg(f, v, alias) => {
                        numeric[ci] = true;
                        let vals: Vec<&String> = members.iter().filter_map(|m| m.get(v)).collect();
                        let nums: Option<Vec<f64>> = vals.iter().map(|x| num(x)).collect();
                        let Some(nums) = nums else {
                            // type error inside the aggregate: result unbound
                            continue;
                        };
                        let val = match f {
                            Agg::Sum => Some(nums.iter().sum::<f64>()),
                            Agg::Avg => {
                                if nums.is_empty() {
                                    Some(0.0)
                                } else {
                                    Some(nums.iter().sum::<f64>() / nums.len() as f64)
                                }
                            }
                            Agg::Min => nums.iter().cloned().fold(None, |a: Option<f64>, x| Some(a.map_or(x, |y| y.min(x)))),
                            Agg::Max => nums.iter().cloned().fold(None, |a: Option<f64>, x| Some(a.map_or(x, |y| y.max(x)))),
                        };
                        if let Some(x) = val {
                            row.insert(alias.clone(), fmt_num(x));
                        }
                    }
                }
            }
            out.push(row);
        }
        out
    } else {
        sols
    };
    // projection
    let mut rows: Vec<Vec<Option<String>>> = ext.iter().map(|mu| columns.iter().map(|c| mu.get(c).cloned()).collect()).collect();
    // ORDER BY keys must be projected to be observable / usable after projection
    let mut order = Vec::new();
    let mut order_unobservable = false;
    for (v, desc) in &s.order_by {
        match columns.iter().position(|c| c == v) {
            Some(i) => order.push((i, *desc)),
            None => order_unobservable = true,
        }
    }
    if s.distinct {
        let mut seen = BTreeSet::new();
        rows.retain(|r| seen.insert(r.clone()));
    }
    Ok(Answer { columns, rows, numeric, order, order_unobservable, limit: s.limit, star: matches!(s.proj, Proj::Star) })
}

fn norm_cell(v: &Option<String>, numeric: bool) -> String {
    match v {
        None => String::new(),
        Some(s) => {
            if numeric {
                match s.parse::<f64>() {
                    Ok(f) => format!("{:.6}", if f == 0.0 { 0.0 } else { f }),
                    Err(_) => s.clone(),
                }
            } else {
                s.clone()
            }
        }
    }
}

fn norm_got(v: &str, numeric: bool) -> String {
    if numeric && !v.is_empty() {
        match v.parse::<f64>() {
            Ok(f) => format!("{:.6}", if f == 0.0 { 0.0 } else { f }),
            Err(_) => v.to_string(),
        }
    } else {
        v.to_string()
    }
}

fn multiset(rows: &[Vec<String>]) -> BTreeMap<Vec<String>, usize> {
    let mut m = BTreeMap::new();
    for r in rows {
        *m.entry(r.clone()).or_insert(0) += 1;
    }
    m
}

/// Compare the rows an implementation returned with the reference answer, by the rules of the
/// property: multiset equality without LIMIT; sortedness under ORDER BY; a legal cut under LIMIT.
pub fn check_rows(ans: &Answer, got: &[Vec<String>]) -> Result<(), String> {
    let width = ans.columns.len();
    for r in got {
        if r.len() != width {
            return Err(format!("row width {} but {} columns projected: {:?}", r.len(), width, r));
        }
    }
    let exp: Vec<Vec<String>> = ans.rows.iter().map(|r| r.iter().enumerate().map(|(i, c)| norm_cell(c, ans.numeric[i])).collect()).collect();
    let gotn: Vec<Vec<String>> = got.iter().map(|r| r.iter().enumerate().map(|(i, c)| norm_got(c, ans.numeric[i])).collect()).collect();
    // SELECT *: column order is not fixed by SPARQL; accept any column permutation
    let perms: Vec<Vec<usize>> = if ans.star && width <= 5 { permutations(width) } else { vec![(0..width).collect()] };
    let mut last_err = String::new();
    for perm in perms {
        let g2: Vec<Vec<String>> = gotn.iter().map(|r| perm.iter().map(|&i| r[i].clone()).collect()).collect();
        match check_rows_fixed(ans, &exp, &g2) {
            Ok(()) => return Ok(()),
            Err(e) => last_err = e,
        }
    }
    Err(last_err)
}

fn permutations(n: usize) -> Vec<Vec<usize>> {
    fn rec(cur: &mut Vec<usize>, used: &mut Vec<bool>, n: usize, out: &mut Vec<Vec<usize>>) {
        if cur.len() == n {
            out.push(cur.clone());
            return;
        }
        for i in 0..n {
            if !used[i] {
                used[i] = true;
                cur.push(i);
                rec(cur, used, n, out);
                cur.pop();
                used[i] = false;
            }
        }
    }
    let mut out = Vec::new();
    rec(&mut Vec::new(), &mut vec![false; n], n, &mut out);
    out
}

fn check_rows_fixed(ans: &Answer, exp: &[Vec<String>], got: &[Vec<String>]) -> Result<(), String> {
    let expm = multiset(exp);
    let gotm = multiset(got);
    let key_cmp = |a: &Vec<String>, b: &Vec<String>| -> std::cmp::Ordering {
        for (i, desc) in &ans.order {
            let x = if a[*i].is_empty() { None } else { Some(a[*i].clone()) };
            let y = if b[*i].is_empty() { None } else { Some(b[*i].clone()) };
            let c = cmp_values(&x, &y);
            let c = if *desc { c.reverse() } else { c };
            if c != std::cmp::Ordering::Equal {
                return c;
            }
        }
        std::cmp::Ordering::Equal
    };
    match ans.limit {
        None => {
            if expm != gotm {
                return Err(format!("solution multiset differs: expected {:?}, got {:?}", expm, gotm));
            }
        }
        Some(l) => {
            let want = l.min(exp.len());
            if got.len() != want {
                return Err(format!("LIMIT {}: expected {} rows (full answer has {}), got {}: {:?}", l, want, exp.len(), got.len(), got));
            }
            for (r, n) in &gotm {
                if expm.get(r).copied().unwrap_or(0) < *n {
                    return Err(format!("LIMIT {}: returned row {:?} x{} is not in the full answer {:?}", l, r, n, expm));
                }
            }
            if !ans.order.is_empty() && !got.is_empty() {
                // no excluded row may sort strictly before an included one
                let mut rest = expm.clone();
                for r in got {
                    if let Some(c) = rest.get_mut(r) {
                        *c -= 1;
                    }
                }
                let worst_in = got.iter().max_by(|a, b| key_cmp(a, b)).unwrap();
                for (r, n) in &rest {
                    if *n > 0 && key_cmp(r, worst_in) == std::cmp::Ordering::Less {
                        return Err(format!("LIMIT cut is not legal: excluded row {:?} sorts before included row {:?}", r, worst_in));
                    }
                }
            }
        }
    }
    if !ans.order.is_empty() {
        for w in got.windows(2) {
            if key_cmp(&w[0], &w[1]) == std::cmp::Ordering::Greater {
                return Err(format!("rows not sorted by ORDER BY keys: {:?} before {:?}", w[0], w[1]));
            }
        }
    }
    Ok(())
}

// ---------------------------------------------------------------------------------------
// self-test: hand-computed micro cases
// ---------------------------------------------------------------------------------------

pub fn selftest() -> Vec<String> {
    let mut errs = Vec::new();
    let t3 = |s: &str, p: &str, o: &str| (s.to_string(), p.to_string(), o.to_string());
    let mut ds = Dataset::default();
    ds.default.insert(t3("a", "p", "b"));
    ds.default.insert(t3("b", "p", "c"));
    ds.default.insert(t3("a", "q", "1"));
    ds.default.insert(t3("b", "q", "2"));
    ds.named.insert("g1".into(), [t3("a", "p", "b"), t3("c", "p", "c")].into_iter().collect());
    ds.named.insert("g2".into(), [t3("a", "p", "b")].into_iter().collect());
    ds.named.insert("g3".into(), BTreeSet::new());
    let v = |n: &str| T::var(n);
    let i = |n: &str| T::iri(n);
    let rows_of = |s: &Select| -> Vec<Vec<String>> {
        let a = eval_select(s, &ds).unwrap();
        let mut r: Vec<Vec<String>> = a.cut_rows().iter().map(|r| r.iter().map(|c| c.clone().unwrap_or_default()).collect()).collect();
        if a.order.is_empty() {
            r.sort();
        }
        r
    };
    let mut expect = |name: &str, s: &Select, want: Vec<Vec<&str>>| {
        let got = rows_of(s);
        let want: Vec<Vec<String>> = want.into_iter().map(|r| r.into_iter().map(String::from).collect()).collect();
        if got != want {
            errs.push(format!("sparql_eval selftest {}: got {:?}, want {:?}", name, got, want));
        }
    };
    // chain join
    let s = Select::simple(&["s", "z"], Group(vec![Elem::Triples(vec![tp(v("s"), i("p"), v("o")), tp(v("o"), i("p"), v("z"))])]));
    expect("chain", &s, vec![vec!["a", "c"]]);
    // default graph does not see named graphs
    let s = Select::simple(&["s"], Group(vec![Elem::Triples(vec![tp(v("s"), i("p"), i("c"))])]));
    expect("default-only", &s, vec![vec!["b"]]);
    // GRAPH ?g over empty group lists every named graph, including the empty one
    let s = Select::simple(&["g"], Group(vec![Elem::Graph(v("g"), Group(vec![]))]));
    expect("graph-var-empty-group", &s, vec![vec!["g1"], vec!["g2"], vec!["g3"]]);
    // GRAPH ?g with pattern: duplicates across graphs stay (one per graph)
    let s = Select::simple(&["g", "s"], Group(vec![Elem::Graph(v("g"), Group(vec![Elem::Triples(vec![tp(v("s"), i("p"), i("b"))])]))]));
    expect("graph-var", &s, vec![vec!["g1", "a"], vec!["g2", "a"]]);
    // UNION keeps multiplicity
    let b = Group(vec![Elem::Triples(vec![tp(v("s"), i("p"), i("b"))])]);
    let s = Select::simple(&["s"], Group(vec![Elem::Union(vec![b.clone(), b.clone()])]));
    expect("union-multiplicity", &s, vec![vec!["a"], vec!["a"]]);
    // FROM merge is duplicate free, FROM hides the physical default graph and the named graphs
    let mut s = Select::simple(&["s", "o"], Group(vec![Elem::Triples(vec![tp(v("s"), i("p"), v("o"))])]));
    s.from = vec!["g1".into(), "g2".into()];
    expect("from-merge", &s, vec![vec!["a", "b"], vec!["c", "c"]]);
    let mut s2 = Select::simple(&["g"], Group(vec![Elem::Graph(v("g"), Group(vec![]))]));
    s2.from = vec!["g1".into()];
    expect("from-hides-named", &s2, vec![]);
    let mut s3 = Select::simple(&["s"], Group(vec![Elem::Triples(vec![tp(v("s"), i("p"), v("o"))])]));
    s3.from_named = vec!["g1".into()];
    expect("from-named-empties-default", &s3, vec![]);
    // group-scoped filter written before the pattern
    let s = Select::simple(
        &["s"],
        Group(vec![Elem::Filter(Expr::Cmp(v("x"), Cmp::Gt, T::Num("1".into()))), Elem::Triples(vec![tp(v("s"), i("q"), v("x"))])]),
    );
    expect("filter-scope", &s, vec![vec!["b"]]);
    // filter inside a nested group does not see outer variables
    let s = Select::simple(
        &["s"],
        Group(vec![
            Elem::Triples(vec![tp(v("s"), i("q"), v("x"))]),
            Elem::Nested(Group(vec![Elem::Filter(Expr::Cmp(v("x"), Cmp::Eq, T::lit("1")))])),
        ]),
    );
    expect("nested-filter-error", &s, vec![]);
    // BIND + VALUES with UNDEF
    let s = Select::simple(
        &["s", "n"],
        Group(vec![
            Elem::Triples(vec![tp(v("s"), i("q"), v("x"))]),
            Elem::Bind(vec![v("x"), T::lit("k")], "n".into()),
            Elem::Values(vec!["s".into(), "x".into()], vec![vec![Some(i("a")), None], vec![None, Some(T::lit("2"))], vec![Some(i("zz")), None]]),
        ]),
    );
    expect("bind-values", &s, vec![vec!["a", "1k"], vec!["b", "2k"]]);
    // aggregates
    let mut s = Select::simple(&[], Group(vec![Elem::Triples(vec![tp(v("s"), i("q"), v("x"))])]));
    s.proj = Proj::Items(vec![ProjItem::Agg(Agg::Sum, "x".into(), "t".into()), ProjItem::Agg(Agg::Max, "x".into(), "m".into())]);
    expect("sum-max", &s, vec![vec!["3", "2"]]);
    let mut s = Select::simple(&[], Group(vec![Elem::Triples(vec![tp(v("s"), i("nope"), v("x"))])]));
    s.proj = Proj::Items(vec![ProjItem::Agg(Agg::Sum, "x".into(), "t".into()), ProjItem::Agg(Agg::Min, "x".into(), "m".into()), ProjItem::Agg(Agg::Avg, "x".into(), "a".into())]);
    expect("empty-aggregates", &s, vec![vec!["0", "", "0"]]);
    // sub-select modifiers apply before the join
    let mut sub = Select::simple(&["x"], Group(vec![Elem::Triples(vec![tp(v("y"), i("q"), v("x"))])]));
    sub.order_by = vec![("x".into(), true)];
    sub.limit = Some(1);
    let s = Select::simple(&["s", "x"], Group(vec![Elem::Triples(vec![tp(v("s"), i("q"), v("x"))]), Elem::Sub(Box::new(sub))]));
    expect("subselect-limit", &s, vec![vec!["b", "2"]]);
    // arithmetic filter: (x + 1) * 2 > 4  keeps x = 2 only
    let s = Select::simple(
        &["s"],
        Group(vec![
            Elem::Triples(vec![tp(v("s"), i("q"), v("x"))]),
            Elem::Filter(Expr::ArithCmp(
                Arith::Mul(Box::new(Arith::Add(Box::new(Arith::Operand(v("x"))), Box::new(Arith::Operand(T::Num("1".into()))))), Box::new(Arith::Operand(T::Num("2".into())))),
                Cmp::Gt,
                Arith::Operand(T::Num("4".into())),
            )),
        ]),
    );
    expect("arith-filter", &s, vec![vec!["b"]]);
    // check_rows: legal cut
    let mut s = Select::simple(&["x"], Group(vec![Elem::Triples(vec![tp(v("s"), i("q"), v("x"))])]));
    s.order_by = vec![("x".into(), false)];
    s.limit = Some(1);
    let a = eval_select(&s, &ds).unwrap();
    if check_rows(&a, &[vec!["1".to_string()]]).is_err() {
        errs.push("check_rows rejects the legal cut".into());
    }
    if check_rows(&a, &[vec!["2".to_string()]]).is_ok() {
        errs.push("check_rows accepts an illegal cut".into());
    }
    if check_rows(&a, &[]).is_ok() {
        errs.push("check_rows accepts a short cut".into());
    }
    errs
}
