//! known_findings.json: committed, read-only at run time.
use super::Failure;
use serde::Deserialize;
use serde_json::Value;

#[derive(Deserialize, Clone, Debug)]
pub struct Finding {
    pub id: String,
    pub property: String,
    /// "known" suppresses matching failures (KNOWN-FINDING line); "fixed" suppresses nothing
    pub status: String,
    /// a failure is attributed to this finding iff every tag listed here is among the failure's tags
    #[serde(default)]
    pub tags_all: Vec<String>,
    /// one-line description: what fails
    pub what: String,
    #[serde(default)]
    pub witness: Value,
    #[serde(default)]
    pub record: String,
}

#[derive(Deserialize, Default)]
struct FileFmt {
    findings: Vec<Finding>,
}

pub fn path() -> String {
    std::env::var("VCHECK_FINDINGS").unwrap_or_else(|_| format!("{}/known_findings.json", super::root()))
}

pub fn load(property: &str) -> Result<Vec<Finding>, String> {
    let p = path();
    let text = match std::fs::read_to_string(&p) {
        Ok(t) => t,
        Err(_) => return Ok(Vec::new()),
    };
    let f: FileFmt = serde_json::from_str(&text).map_err(|e| format!("{}: {}", p, e))?;
    Ok(f.findings.into_iter().filter(|x| x.property == property).collect())
}

pub fn attribute<'a>(findings: &'a [Finding], f: &Failure) -> Option<&'a Finding> {
    findings.iter().find(|k| {
        k.status == "known" && !k.tags_all.is_empty() && k.tags_all.iter().all(|t| f.tags.iter().any(|x| x == t))
    })
}
