//! Parent side: run the shards of one property check in worker subprocesses and merge.
use super::{quiet, Ctx, PropDef, ShardOut, Tier};
use std::io::Read;
use std::process::{Command, Stdio};
use std::time::{Duration, Instant};

pub fn jobs() -> usize {
    std::env::var("VCHECK_JOBS").ok().and_then(|s| s.parse().ok()).unwrap_or(16)
}

pub fn seed() -> u64 {
    std::env::var("VERIF_SEED").ok().and_then(|s| s.parse::<i64>().ok()).map(|v| v as u64).unwrap_or(0)
}

pub struct Crash {
    pub shard: usize,
    pub status: String,
    pub last_case: Option<String>,
}

pub struct RunResult {
    pub out: ShardOut,
    pub crashes: Vec<Crash>,
}

/// Worker entry: run one shard, print the JSON result on the original stdout.
pub fn worker_main(def: &PropDef, tier: Tier, shard: usize, nshards: usize, cap_s: u64, progress_path: Option<String>) -> i32 {
    let out_fd = quiet::silence_stdio();
    quiet::install_silent_panic_hook();
    let ctx = Ctx {
        tier,
        shard,
        nshards,
        seed: seed(),
        deadline: Instant::now() + Duration::from_secs(cap_s),
        progress: progress_path.as_deref().and_then(quiet::Progress::create),
    };
    let res = super::guarded(|| (def.run)(&ctx));
    let out = match res {
        Ok(o) => o,
        Err(msg) => {
            let mut o = ShardOut::default();
            o.machinery_errors.push(format!("harness panic in shard {}: {}", shard, msg));
            o
        }
    };
    let data = serde_json::to_vec(&out).expect("serialise shard result");
    quiet::write_all(out_fd, &data);
    0
}

pub fn run_sharded(def: &PropDef, tier: Tier) -> RunResult {
    let nshards = if def.shards == 0 { jobs() } else { def.shards };
    let cap_s = match tier {
        Tier::Quick => def.cap_s.0,
        Tier::Thorough => def.cap_s.1,
    };
    // measurement aid (never set by a registered command): VCHECK_CAP_S overrides the wall-clock cap
    let cap_s = std::env::var("VCHECK_CAP_S").ok().and_then(|v| v.parse().ok()).unwrap_or(cap_s);
    let exe = std::env::current_exe().expect("current_exe");
    let tmpdir = format!("{}/target/vcheck-tmp/{}-{}", super::root(), def.id, std::process::id());
    let _ = std::fs::create_dir_all(&tmpdir);
    let mut merged = ShardOut::default();
    let mut crashes = Vec::new();
    let maxpar = jobs().max(1);
    let mut next = 0usize;
    let mut running: Vec<(usize, std::process::Child, String)> = Vec::new();
    let mut results: Vec<(usize, Result<ShardOut, Crash>)> = Vec::new();
    while next < nshards || !running.is_empty() {
        while next < nshards && running.len() < maxpar {
            let prog = format!("{}/progress-{}", tmpdir, next);
            let rayon_threads = std::env::var("VCHECK_RAYON").unwrap_or_else(|_| "2".to_string());
            let child = Command::new(&exe)
                .arg("worker")
                .arg(def.id)
                .arg(tier.as_str())
                .arg(next.to_string())
                .arg(nshards.to_string())
                .arg(cap_s.to_string())
                .arg(&prog)
                .env("RAYON_NUM_THREADS", rayon_threads)
                .stdin(Stdio::null())
                .stdout(Stdio::piped())
                .stderr(if std::env::var("VCHECK_DEBUG").is_ok() { Stdio::inherit() } else { Stdio::null() })
                .spawn()
                .expect("spawn worker");
            running.push((next, child, prog));
            next += 1;
        }
        // wait for the first running child (simple: wait in order; stdout is drained fully first)
        let (idx, mut child, prog) = running.remove(0);
        let mut buf = Vec::new();
        if let Some(mut so) = child.stdout.take() {
            let _ = so.read_to_end(&mut buf);
        }
        let status = child.wait().expect("wait worker");
        let parsed: Option<ShardOut> = if status.success() { serde_json::from_slice(&buf).ok() } else { None };
        match parsed {
            Some(o) => results.push((idx, Ok(o))),
            None => results.push((
                idx,
                Err(Crash { shard: idx, status: format!("{:?}", status), last_case: quiet::Progress::read(&prog) }),
            )),
        }
    }
    results.sort_by_key(|r| r.0);
    for (_, r) in results {
        match r {
            Ok(o) => merged.merge(o),
            Err(c) => crashes.push(c),
        }
    }
    let _ = std::fs::remove_dir_all(&tmpdir);
    RunResult { out: merged, crashes }
}
