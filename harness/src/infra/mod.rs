//! Plumbing shared by every check: shard workers, evidence, replay files, known findings.
pub mod quiet;
pub mod shard;
pub mod findings;
pub mod evidence;

use serde::{Deserialize, Serialize};
use serde_json::Value;
use std::collections::{BTreeMap, BTreeSet};
use std::time::{Duration, Instant};

#[derive(Clone, Copy, PartialEq, Eq, Debug)]
pub enum Tier {
    Quick,
    Thorough,
}

impl Tier {
    pub fn as_str(&self) -> &'static str {
        match self {
            Tier::Quick => "quick",
            Tier::Thorough => "thorough",
        }
    }
    pub fn parse(s: &str) -> Option<Tier> {
        match s {
            "quick" => Some(Tier::Quick),
            "thorough" => Some(Tier::Thorough),
            _ => None,
        }
    }
}

/// Per-worker context.
pub struct Ctx {
    pub tier: Tier,
    pub shard: usize,
    pub nshards: usize,
    pub seed: u64,
    pub deadline: Instant,
    pub progress: Option<quiet::Progress>,
}

impl Ctx {
    pub fn thorough(&self) -> bool {
        self.tier == Tier::Thorough
    }
    pub fn expired(&self) -> bool {
        Instant::now() >= self.deadline
    }
    /// true when case number `i` of a globally ordered enumeration belongs to this shard
    #[inline]
    pub fn mine(&self, i: u64) -> bool {
        (i % self.nshards as u64) as usize == self.shard
    }
    pub fn for_replay(tier: Tier) -> Ctx {
        Ctx { tier, shard: 0, nshards: 1, seed: 0, deadline: Instant::now() + Duration::from_secs(3600), progress: None }
    }
}

#[derive(Serialize, Deserialize, Clone, Debug)]
pub struct Failure {
    /// replayable case (input / op list / schedule / fault index)
    pub case: Value,
    /// short symptom class, e.g. "missing_fact"
    pub symptom: String,
    /// human readable detail (expected vs got)
    pub detail: String,
    /// structural tags of the failing case + symptom, matched against known_findings.json
    pub tags: Vec<String>,
}

#[derive(Serialize, Deserialize, Default, Debug)]
pub struct ShardOut {
    pub evaluations: u64,
    /// hashes of distinct non-trivial cases (rule stated by the property)
    pub nontrivial: BTreeSet<u64>,
    /// hashes of distinct observed outcomes
    pub outcomes: BTreeSet<u64>,
    pub counters: BTreeMap<String, u64>,
    pub samples: Vec<Value>,
    pub failures: Vec<Failure>,
    /// number of failures including those not kept in `failures`
    pub failures_total: u64,
    /// failures grouped by tag-set signature (count), for complete attribution
    pub failure_sigs: BTreeMap<String, (u64, Failure)>,
    pub states: u64,
    pub transitions: u64,
    pub traces: u64,
    pub max_depth: u64,
    pub capped: Vec<String>,
    /// machinery problems (non-deterministic replays, self-test failures) -> exit 2
    pub machinery_errors: Vec<String>,
}

impl ShardOut {
    pub fn count(&mut self, key: &str, n: u64) {
        *self.counters.entry(key.to_string()).or_insert(0) += n;
    }
    pub fn max(&mut self, key: &str, n: u64) {
        let e = self.counters.entry(key.to_string()).or_insert(0);
        if n > *e {
            *e = n;
        }
    }
    pub fn sample(&mut self, v: Value) {
        if self.samples.len() < 4 {
            self.samples.push(v);
        }
    }
    pub fn nontrivial<T: std::hash::Hash>(&mut self, t: &T) {
        self.nontrivial.insert(hash64(t));
    }
    pub fn outcome<T: std::hash::Hash>(&mut self, t: &T) {
        self.outcomes.insert(hash64(t));
    }
    pub fn fail(&mut self, case: Value, symptom: &str, detail: String, mut tags: Vec<String>) {
        tags.push(format!("symptom={}", symptom));
        tags.sort();
        tags.dedup();
        let f = Failure { case, symptom: symptom.to_string(), detail: truncate(&detail, 2000), tags };
        self.failures_total += 1;
        let sig = f.tags.join("|");
        match self.failure_sigs.get_mut(&sig) {
            Some(e) => {
                e.0 += 1;
                // keep the smallest witness
                if f.case.to_string().len() < e.1.case.to_string().len() {
                    e.1 = f.clone();
                }
            }
            None => {
                self.failure_sigs.insert(sig, (1, f.clone()));
            }
        }
        if self.failures.len() < 20 {
            self.failures.push(f);
        }
    }
    pub fn merge(&mut self, o: ShardOut) {
        self.evaluations += o.evaluations;
        self.nontrivial.extend(o.nontrivial);
        self.outcomes.extend(o.outcomes);
        for (k, v) in o.counters {
            if k.starts_with("max_") {
                let e = self.counters.entry(k).or_insert(0);
                if v > *e {
                    *e = v;
                }
            } else {
                *self.counters.entry(k).or_insert(0) += v;
            }
        }
        for s in o.samples {
            if self.samples.len() < 6 {
                self.samples.push(s);
            }
        }
        for f in o.failures {
            if self.failures.len() < 60 {
                self.failures.push(f);
            }
        }
        self.failures_total += o.failures_total;
        for (k, (n, f)) in o.failure_sigs {
            match self.failure_sigs.get_mut(&k) {
                Some(e) => {
                    e.0 += n;
                    if f.case.to_string().len() < e.1.case.to_string().len() {
                        e.1 = f;
                    }
                }
                None => {
                    self.failure_sigs.insert(k, (n, f));
                }
            }
        }
        self.states += o.states;
        self.transitions += o.transitions;
        self.traces += o.traces;
        self.max_depth = self.max_depth.max(o.max_depth);
        for c in o.capped {
            if !self.capped.contains(&c) {
                self.capped.push(c);
            }
        }
        self.machinery_errors.extend(o.machinery_errors);
    }
}

/// root of the verification tree (evidence, replays, known findings); /verif unless VCHECK_ROOT is set
pub fn root() -> String {
    std::env::var("VCHECK_ROOT").unwrap_or_else(|_| "/verif".to_string())
}

pub fn truncate(s: &str, n: usize) -> String {
    if s.len() <= n {
        s.to_string()
    } else {
        let mut end = n;
        while !s.is_char_boundary(end) {
            end -= 1;
        }
        format!("{}…[{} bytes]", &s[..end], s.len())
    }
}

pub fn hash64<T: std::hash::Hash>(t: &T) -> u64 {
    // FNV-1a over the std Hash stream: deterministic across processes (unlike RandomState)
    struct Fnv(u64);
    impl std::hash::Hasher for Fnv {
        fn finish(&self) -> u64 {
            self.0
        }
        fn write(&mut self, bytes: &[u8]) {
            for b in bytes {
                self.0 ^= *b as u64;
                self.0 = self.0.wrapping_mul(0x100000001b3);
            }
        }
    }
    let mut h = Fnv(0xcbf29ce484222325);
    t.hash(&mut h);
    std::hash::Hasher::finish(&h)
}

/// Static description of a property check.
pub struct PropDef {
    pub id: &'static str,
    /// evidence level: "exploration" | "fault_enumeration" | "model_checking"
    pub level: &'static str,
    pub rule: &'static str,
    pub assumptions: &'static [&'static str],
    /// run one shard of the enumeration
    pub run: fn(&Ctx) -> ShardOut,
    /// re-execute one recorded case; returns failures observed (empty = passes)
    pub replay: fn(&Ctx, &Value) -> ShardOut,
    /// wall clock cap per tier in seconds (quick, thorough)
    pub cap_s: (u64, u64),
    /// number of shards (0 = default = jobs)
    pub shards: usize,
}

/// Run `f` catching panics; returns Err(message) on panic.
pub fn guarded<R>(f: impl FnOnce() -> R) -> Result<R, String> {
    match std::panic::catch_unwind(std::panic::AssertUnwindSafe(f)) {
        Ok(r) => Ok(r),
        Err(e) => {
            let msg = if let Some(s) = e.downcast_ref::<&str>() {
                s.to_string()
            } else if let Some(s) = e.downcast_ref::<String>() {
                s.clone()
            } else {
                "panic (non-string payload)".to_string()
            };
            let loc = quiet::take_panic_location();
            Err(format!("{} @ {}", msg, loc))
        }
    }
}
