//! Evidence file per EVIDENCE.schema.json, written on every run.
use super::{PropDef, ShardOut, Tier};
use serde_json::{json, Value};

pub fn write(def: &PropDef, tier: Tier, seed: u64, out: &ShardOut, wall_s: f64, violations: u64, known: &[(String, u64)], crashes: usize, extra: Value) -> Result<String, String> {
    let path = format!("{}/evidence/{}.json", super::root(), def.id);
    let exhaustive = out.capped.is_empty() && crashes == 0;
    let mut coverage = json!({
        "evaluations": out.evaluations,
        "distinct_nontrivial": out.nontrivial.len(),
        "distinct_outcomes": out.outcomes.len(),
        "rule": def.rule,
        "samples": out.samples,
        "exhaustive": exhaustive,
        "caps_hit": out.capped,
        "counters": out.counters,
        "known_findings_observed": known.iter().map(|(k, n)| json!({"finding": k, "cases": n})).collect::<Vec<_>>(),
        "failing_cases_total": out.failures_total,
    });
    if def.level == "model_checking" {
        coverage["states"] = json!(out.states);
        coverage["transitions"] = json!(out.transitions);
        coverage["traces_validated_against_impl"] = json!(out.traces);
        coverage["max_depth"] = json!(out.max_depth);
        coverage["explanation"] = json!("every explored trace is an execution of the implementation itself (no separate model), so traces_validated_against_impl counts the explored op sequences / schedules");
    }
    if let (Some(c), Some(e)) = (coverage.as_object_mut(), extra.as_object()) {
        for (k, v) in e {
            c.insert(k.clone(), v.clone());
        }
    }
    let ev = json!({
        "property_id": def.id,
        "tier": tier.as_str(),
        "seed": seed as i64,
        "level": def.level,
        "coverage": coverage,
        "assumptions": def.assumptions,
        "wall_s": wall_s,
        "violations": violations,
    });
    let _ = std::fs::create_dir_all(format!("{}/evidence", super::root()));
    let tmp = format!("{}.tmp", path);
    std::fs::write(&tmp, serde_json::to_string_pretty(&ev).unwrap()).map_err(|e| e.to_string())?;
    std::fs::rename(&tmp, &path).map_err(|e| e.to_string())?;
    Ok(path)
}
