//! Silence the subject (it prints a lot) while keeping a private channel for results,
//! a silent panic hook that records the panic location, and a crash-progress file.
use std::cell::RefCell;
use std::fs::File;
use std::io::Write;
use std::os::unix::io::FromRawFd;

thread_local! {
    static LAST_PANIC_LOC: RefCell<String> = RefCell::new(String::new());
}

pub fn take_panic_location() -> String {
    LAST_PANIC_LOC.with(|l| std::mem::take(&mut *l.borrow_mut()))
}

pub fn install_silent_panic_hook() {
    if std::env::var("VCHECK_DEBUG").is_ok() {
        return; // keep the default hook (messages on stderr)
    }
    std::panic::set_hook(Box::new(|info| {
        let loc = info.location().map(|l| format!("{}:{}", l.file(), l.line())).unwrap_or_default();
        LAST_PANIC_LOC.with(|l| *l.borrow_mut() = loc);
    }));
}

/// Redirect fd 1 and 2 to /dev/null; return a File writing to the original stdout.
pub fn silence_stdio() -> File {
    unsafe {
        let saved = libc::dup(1);
        let devnull = libc::open(b"/dev/null\0".as_ptr() as *const libc::c_char, libc::O_WRONLY);
        libc::dup2(devnull, 1);
        if std::env::var("VCHECK_DEBUG").is_err() {
            libc::dup2(devnull, 2);
        }
        libc::close(devnull);
        File::from_raw_fd(saved)
    }
}

/// Progress marker so that a worker killed by a signal (stack overflow, abort) still tells
/// which case it was running.
pub struct Progress {
    file: File,
}

impl Progress {
    pub fn create(path: &str) -> Option<Progress> {
        File::create(path).ok().map(|file| Progress { file })
    }
    pub fn mark(&self, case: &str) {
        use std::os::unix::fs::FileExt;
        let mut buf = Vec::with_capacity(case.len() + 9);
        buf.extend_from_slice(format!("{:08}", case.len().min(99_999_999)).as_bytes());
        buf.extend_from_slice(case.as_bytes());
        let _ = self.file.write_at(&buf, 0);
    }
    pub fn read(path: &str) -> Option<String> {
        let data = std::fs::read(path).ok()?;
        if data.len() < 8 {
            return None;
        }
        let n: usize = std::str::from_utf8(&data[..8]).ok()?.parse().ok()?;
        let end = (8 + n).min(data.len());
        Some(String::from_utf8_lossy(&data[8..end]).to_string())
    }
}

pub fn write_all(mut f: File, data: &[u8]) {
    let _ = f.write_all(data);
    let _ = f.flush();
}
