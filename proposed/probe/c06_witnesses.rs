// Standalone reproduction of the C06 witnesses against the real Reasoner API.
use datalog::reasoning::Reasoner;
use shared::provenance::{DnfWmcProvenance, Provenance};
use shared::sdd::SddProvenance;
use shared::rule::Rule;
use shared::terms::Term;

fn v(n: &str) -> Term { Term::Variable(n.to_string()) }
fn c(r: &mut Reasoner, n: &str) -> Term { Term::Constant(r.dictionary.write().unwrap().encode(n)) }
fn report<P: Provenance>(name: &str, mut r: Reasoner, prov: P) {
    let (_d, tags) = r.infer_new_facts_with_provenance(prov);
    let d = r.dictionary.read().unwrap();
    let mut out: Vec<String> = r.dataset_index.query(None, None, None).iter().map(|t| {
        format!("{}({},{})={:.6}", d.decode(t.predicate).unwrap(), d.decode(t.subject).unwrap(), d.decode(t.object).unwrap(), tags.provenance().recover_probability(&tags.get_tag(t)))
    }).collect();
    out.sort();
    println!("  {:4} {}", name, out.join(" "));
}
fn w5() -> Reasoner {
    let mut r = Reasoner::new();
    let (p, q, rr) = (c(&mut r, "p"), c(&mut r, "q"), c(&mut r, "r"));
    r.add_rule(Rule { premise: vec![(v("x"), p.clone(), v("y"))], negative_premise: vec![(v("y"), p, v("x"))], filters: vec![], conclusion: vec![(v("x"), q.clone(), v("y"))] });
    r.add_rule(Rule { premise: vec![(v("x"), q, v("y"))], negative_premise: vec![], filters: vec![], conclusion: vec![(v("x"), rr, v("y"))] });
    r.add_tagged_triple("a", "p", "b", 0.5);
    r
}
fn late() -> Reasoner {
    let mut r = Reasoner::new();
    let (p, t) = (c(&mut r, "p"), c(&mut r, "t"));
    r.add_rule(Rule { premise: vec![(v("x"), p.clone(), v("y"))], negative_premise: vec![], filters: vec![], conclusion: vec![(v("x"), t.clone(), v("y"))] });
    r.add_rule(Rule { premise: vec![(v("x"), t.clone(), v("y")), (v("y"), p, v("z"))], negative_premise: vec![], filters: vec![], conclusion: vec![(v("x"), t, v("z"))] });
    for (s, o) in [("a", "b"), ("b", "c"), ("c", "d"), ("a", "c")] { r.add_tagged_triple(s, "p", o, 0.5); }
    r
}
fn vary() -> Reasoner {
    let mut r = Reasoner::new();
    let (p, q, rr) = (c(&mut r, "p"), c(&mut r, "q"), c(&mut r, "r"));
    r.add_rule(Rule { premise: vec![(v("x"), p.clone(), v("y"))], negative_premise: vec![], filters: vec![], conclusion: vec![(v("x"), rr.clone(), v("x"))] });
    r.add_rule(Rule { premise: vec![(v("x"), rr.clone(), v("y")), (v("y"), p, v("z"))], negative_premise: vec![(v("x"), q, v("z"))], filters: vec![], conclusion: vec![(v("x"), rr, v("z"))] });
    r.add_abox_triple("a", "p", "b");
    r.add_tagged_triple("b", "q", "c", 0.5);
    r.add_tagged_triple("c", "r", "a", 0.3);
    r.add_tagged_triple("c", "p", "a", 0.5);
    r
}
fn main() {
    let which = std::env::args().nth(1).unwrap_or_default();
    if which == "vary" {
        report("dnf", vary(), DnfWmcProvenance::new());
        return;
    }
    println!("W5p q(x,y) :- p(x,y), not p(y,x); r(x,y) :- q(x,y); p(a,b)=0.5; expected q(a,b)=0.5 r(a,b)=0.5");
    report("dnf", w5(), DnfWmcProvenance::new());
    report("sdd", w5(), SddProvenance::new());
    println!("LATE t=TC(p) over a-b, b-c, c-d, a-c all 0.5; expected t(a,c)=0.625 t(a,d)=0.3125 t(b,d)=0.25");
    report("dnf", late(), DnfWmcProvenance::new());
    report("sdd", late(), SddProvenance::new());
}
