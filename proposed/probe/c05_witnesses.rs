// Standalone reproduction of the C05 witnesses against the real Reasoner API.
use datalog::reasoning::Reasoner;
use shared::provenance::BooleanProvenance;
use shared::rule::{FilterCondition, Rule};
use shared::terms::Term;
use shared::triple::Triple;

fn v(n: &str) -> Term { Term::Variable(n.to_string()) }
fn c(r: &mut Reasoner, n: &str) -> Term { Term::Constant(r.dictionary.write().unwrap().encode(n)) }
fn show(r: &Reasoner, ts: &[Triple]) -> Vec<String> {
    let d = r.dictionary.read().unwrap();
    let mut v: Vec<String> = ts.iter().map(|t| format!("{}({},{})", d.decode(t.predicate).unwrap_or("?"), d.decode(t.subject).unwrap_or("?"), d.decode(t.object).unwrap_or("?"))).collect();
    v.sort();
    v
}
fn run(name: &str, build: &dyn Fn() -> Reasoner) {
    println!("== {}", name);
    for s in ["naive", "semi_naive", "parallel", "provenance_boolean"] {
        let mut r = build();
        let f = |r: &mut Reasoner| match s {
            "naive" => r.infer_new_facts_naive(),
            "semi_naive" => r.infer_new_facts_semi_naive(),
            "parallel" => r.infer_new_facts_semi_naive_parallel(),
            _ => r.infer_new_facts_with_provenance(BooleanProvenance).0,
        };
        let d1 = f(&mut r);
        let s1 = show(&r, &d1);
        let d2 = f(&mut r);
        let s2 = show(&r, &d2);
        println!("  {:20} derived {:?}   second run {:?}", s, s1, s2);
    }
}
fn main() {
    run("W1 r(x,w) :- p(x,y),p(y,z),p(z,w) over chain a-b-c-d; expected r(a,d)", &|| {
        let mut r = Reasoner::new();
        let (p, rr) = (c(&mut r, "p"), c(&mut r, "r"));
        r.add_rule(Rule { premise: vec![(v("x"), p.clone(), v("y")), (v("y"), p.clone(), v("z")), (v("z"), p.clone(), v("w"))], negative_premise: vec![], filters: vec![], conclusion: vec![(v("x"), rr, v("w"))] });
        for (s, o) in [("a", "b"), ("b", "c"), ("c", "d")] { r.add_abox_triple(s, "p", o); }
        r
    });
    run("W2 q(x,y) :- p(x,y), y > 5 over p(a,1); expected nothing", &|| {
        let mut r = Reasoner::new();
        let (p, q) = (c(&mut r, "p"), c(&mut r, "q"));
        r.add_rule(Rule { premise: vec![(v("x"), p, v("y"))], negative_premise: vec![], filters: vec![FilterCondition { variable: "y".into(), operator: ">".into(), value: "5".into() }], conclusion: vec![(v("x"), q, v("y"))] });
        r.add_abox_triple("a", "p", "1");
        r
    });
    run("W3 r(x,y) :- ?w(x,y) over p(a,b); expected r(a,b)", &|| {
        let mut r = Reasoner::new();
        let rr = c(&mut r, "r");
        r.add_rule(Rule { premise: vec![(v("x"), v("w"), v("y"))], negative_premise: vec![], filters: vec![], conclusion: vec![(v("x"), rr, v("y"))] });
        r.add_abox_triple("a", "p", "b");
        r
    });
    run("W3b q(x,z) :- p(x,y), ?w(y,z) ; r(x,y) :- q(x,y) over p(a,b), q(b,c)... mixed constant/variable predicate; expected q(a,c), r(b,c), r(a,c)", &|| {
        let mut r = Reasoner::new();
        let (p, q, rr) = (c(&mut r, "p"), c(&mut r, "q"), c(&mut r, "r"));
        r.add_rule(Rule { premise: vec![(v("x"), p, v("y")), (v("y"), v("w"), v("z"))], negative_premise: vec![], filters: vec![], conclusion: vec![(v("x"), q.clone(), v("z"))] });
        r.add_rule(Rule { premise: vec![(v("x"), q, v("y"))], negative_premise: vec![], filters: vec![], conclusion: vec![(v("x"), rr, v("y"))] });
        r.add_abox_triple("a", "p", "b");
        r.add_abox_triple("b", "q", "c");
        r
    });
    run("W4 q(x,y) :- p(x,y), not p(y,x) over p(a,b),p(b,a); expected nothing", &|| {
        let mut r = Reasoner::new();
        let (p, q) = (c(&mut r, "p"), c(&mut r, "q"));
        r.add_rule(Rule { premise: vec![(v("x"), p.clone(), v("y"))], negative_premise: vec![(v("y"), p, v("x"))], filters: vec![], conclusion: vec![(v("x"), q, v("y"))] });
        r.add_abox_triple("a", "p", "b");
        r.add_abox_triple("b", "p", "a");
        r
    });
    run("W5 q(x,y) :- p(x,y), not p(y,x) ; r(x,y) :- q(x,y) over p(a,b); expected q(a,b), r(a,b)", &|| {
        let mut r = Reasoner::new();
        let (p, q, rr) = (c(&mut r, "p"), c(&mut r, "q"), c(&mut r, "r"));
        r.add_rule(Rule { premise: vec![(v("x"), p.clone(), v("y"))], negative_premise: vec![(v("y"), p, v("x"))], filters: vec![], conclusion: vec![(v("x"), q.clone(), v("y"))] });
        r.add_rule(Rule { premise: vec![(v("x"), q, v("y"))], negative_premise: vec![], filters: vec![], conclusion: vec![(v("x"), rr, v("y"))] });
        r.add_abox_triple("a", "p", "b");
        r
    });
    run("W6 r(x,z) :- r(x,y), p(y,z), not q(x,z) over r(a,b),p(b,c),p(c,d); expected r(a,c), r(a,d)", &|| {
        let mut r = Reasoner::new();
        let (p, q, rr) = (c(&mut r, "p"), c(&mut r, "q"), c(&mut r, "r"));
        r.add_rule(Rule { premise: vec![(v("x"), rr.clone(), v("y")), (v("y"), p, v("z"))], negative_premise: vec![(v("x"), q, v("z"))], filters: vec![], conclusion: vec![(v("x"), rr, v("z"))] });
        r.add_abox_triple("a", "r", "b");
        r.add_abox_triple("b", "p", "c");
        r.add_abox_triple("c", "p", "d");
        r
    });
}
